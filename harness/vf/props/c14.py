"""C14 — unevaluated expressions obey substitution, equality and folding laws.

spec/ExprAlgebra.tla: Subst is a homomorphism that descends into nested (unevaluated) arguments
and leaves non-SymPy attributes alone; equality is (class, args, attrs); Doit unfolds a class to
an uninterpreted definition applied to its unfolded arguments, so that Doit o Subst = Subst o Doit
is a law TLC checks (and refines: exact for unfolded replacement terms, up to a further Doit for
folded ones, symbol keys only).  spec/ExprOps.tla runs the operations over class *slots*; the
harness assigns every class found in the installed ampform package to the slots, with every
other class nested into every position, and executes the behaviours on real instances."""
from __future__ import annotations

import random
import time
from concurrent.futures import ThreadPoolExecutor

from .. import expr_classes as C
from .. import expr_cls as X
from .. import expr_terms as T
from .. import tlc, trace
from ..core import Machinery
from ..expr_pool import TRACE_CFG, action_totals, run_tlc

LEVEL = "model_checking"
META = {
    "technique": "TLA+ term algebra ExprAlgebra + state machine ExprOps over class slots (signature = SymPy positions, non-SymPy "
    "attributes, doit unfolds) model-checked exhaustively with TLC; classes discovered by introspecting the installed package and "
    "assigned to the slots; TLC -simulate behaviours executed on real instances (xreplace, subs, doit, func(*args), pickle, ==/hash) "
    "with projection / direct construction compared after every step; operation records of every class validated by Trace_Expr; "
    "lambdify(folded) vs lambdify(unfolded) as a numeric observation",
    "text": "The specification decides what substitution, rebuilding, equality and unfolding must do on nested terms with "
    "non-SymPy attributes; TLC proves the commuting diamond Doit o Subst = Subst o Doit and the homomorphism law on every term "
    "of the slot universe and every map. Binding in both directions: every action TLC chooses is executed on a real instance of "
    "every discovered class (each other class nested in each position) and the result must be ==, hash-, srepr- and "
    "attribute-equal to the object built from the specification state; every logged (term, operation, result) of the real "
    "classes must be what ExprAlgebra!Subst / EqT / identity computes.",
    "note": "Bounds: exhaustive over 12 slots (6 signatures x outer/inner role), 2-3 leaf symbols, depth <= 2, one nested position at a "
    "time, all single maps over 5 replacement terms + swaps + nested-node keys, 1 operation (2 in thorough); simulation depth 6 with "
    "nesting 3. Unfolded expressions are compared structurally, then up to Dummy renaming, a further doit(), and numerically on "
    "seeded points; ill-typed nestings whose doit() raises on the directly constructed object too are counted as undefined, not judged. "
    "The numeric clause (generated code) is an observation: numpy evaluates both sides. Trusted: TLC, SymPy core (subs/xreplace/"
    "srepr/lambdify), the generic instance factory.",
    "design_ref": "DESIGN.md §4 C14",
}
ACTIONS = ["Xreplace", "Subs", "DoitA", "RebuildA", "PickleA", "VaryArg", "VaryAttr"]  # SubsMap: checked on the mixed-map run


def discover(chk, with_fixtures=False):
    embs, bad, failed = C.discover()
    if with_fixtures:
        embs = embs + C.fixtures()
    else:   # the fixture built with the (non-deprecated) @unevaluated decorator belongs to C14's universe as well
        embs = embs + [f for f in C.fixtures() if f.name == "InterleavedExpr"]
    if len(embs) < 20:
        raise Machinery(f"class discovery found only {len(embs)} classes")
    chk.part("class_universe", classes=[e.describe() for e in embs], not_instantiable=bad, modules_failed_to_import=failed,
             n_classes=len(embs), n_decorated=sum(e.kind == "decorated" for e in embs), signatures=sorted({e.sig for e in embs}))
    if bad:
        chk.note(f"not instantiable (reported, not skipped silently): {bad}")
    return embs


def legacy_note(chk):
    """The deprecated UnevaluatedExpression/create_expression API is outside the property's class universe
    (no class of the package uses it); what it does under substitution is recorded as an observation only."""
    import sympy as sp

    from ..expr_fixtures import LegacyExpr

    x, y, z = sp.symbols("x y z")
    e = LegacyExpr(x, y, name="q")
    dropped = e.subs(x, z)._name != "q" or e.xreplace({x: z})._name != "q"
    chk.part("deprecated_api_observation", outside_class_universe=True,
             name_attribute_dropped_on_subs_or_xreplace=bool(dropped),
             reproducer="LegacyExpr(x, y, name='q').subs(x, z)._name (vf/expr_fixtures.py, built with UnevaluatedExpression + create_expression)")
    if dropped:
        chk.note("deprecated API: name attribute dropped on subs/xreplace, outside the property's class universe")


def run(chk, replay=None):
    tier = chk.tier
    rng = random.Random(chk.seed)
    if replay and replay.get("case"):
        print("stored case (the full check is re-run with the same seed):", replay["case"])
    chk.assume(
        "TLC/SANY; SymPy core: Basic.subs/xreplace/__eq__/__hash__/srepr on its own classes, lambdify and numpy for the numeric observation",
        "the instance factory: SymPy fields get symbols / nested instances, non-SymPy fields their default or one alternative of the same type",
        "an unfolded expression equal to the expected one only numerically (seeded points, rel 1e-9) is accepted; undecidable comparisons "
        "(array symbols, uninterpreted functions) are counted, not judged",
    )
    embs = discover(chk)
    sigs = sorted({e.sig for e in embs})
    legacy_note(chk)
    # 1. the laws, exhaustively ---------------------------------------------------------------------------
    leafs = ("x", "y", "z") if tier == "thorough" else ("x", "y")
    with ThreadPoolExecutor(max_workers=6) as ex:
        f_main = ex.submit(run_tlc, "ExprOps_MC", X.class_cfg(sigs, leafs=leafs, max_ops=1), workers=2, fast_start=False, timeout=1700)
        f_cov = ex.submit(run_tlc, "ExprOps_MC", X.class_cfg(sigs, init="ClassInitD1", leafs=("x", "y"), full_quantification=True), workers=1, coverage=True, timeout=600)
        f_dev = ex.submit(run_tlc, "ExprOps_MC", X.class_cfg(sigs, dev="DevDeepAstuple", leafs=("x", "y"), outer=["A21e"], inner=["B10e"]), workers=1, timeout=600)
        f_mix = ex.submit(run_tlc, "ExprOps_MC", X.class_cfg(sigs, init="MixInit", mixed=True, leafs=("x", "y"),
                                                             full_quantification=(tier == "thorough")), workers=1, coverage=(tier == "thorough"), timeout=1700)
        f_mixdev = ex.submit(run_tlc, "ExprOps_MC", X.class_cfg(sigs, init="MixInit", mixed=True, leafs=("x", "y"), dev="DevBoundIndexSubs"),
                             workers=1, timeout=600)
        f_two = ex.submit(run_tlc, "ExprOps_MC", X.class_cfg(sigs, init="ClassInitD1", leafs=("x", "y"), max_ops=2), workers=1, timeout=1700) if tier == "thorough" else None
        res, cov, dev = f_main.result(), f_cov.result(), f_dev.result()
        mix, mixdev = f_mix.result(), f_mixdev.result()
        two = f_two.result() if f_two else None
    chk.add_tlc("laws_exhaustive", res)
    if two is not None:
        chk.add_tlc("laws_two_operations", two)
    for r in (res, two):
        if r is not None and not r.ok:
            raise Machinery(f"the specification violates its own laws ({r.violated}): specification error\n" + "\n".join(r.error_trace[:60]))
    chk.add_tlc("laws_mixed_maps", mix)
    mtot = action_totals(mix)
    if not mix.ok:
        raise Machinery(f"the specification violates its own laws on the mixed-map universe ({mix.violated})\n" + "\n".join(mix.error_trace[:60]))
    if (tier == "thorough" and (mtot.get("Xreplace", 0) == 0 or mtot.get("SubsMap", 0) == 0)) or mixdev.ok:
        raise Machinery(f"vacuous / insensitive mixed-map model check: {mtot}, BoundIndexSubs deviation violates: {mixdev.violated}")
    chk.part("laws_mixed_maps", transitions_per_action=mtot, deviation_BoundIndexSubs_violates=mixdev.violated,
             universe="PoolSum over f(x,i) and over every class slot; PoolSum nested in every class slot; shadowed index; maps "
             "{i -> value, free symbol -> term} in both key orders, xreplace and subs(dict); laws SubstEvalFreePart, BoundKeysIrrelevant")
    totals = action_totals(cov)
    dead = [a for a in ACTIONS if totals.get(a, 0) == 0]
    if dead or not cov.ok:
        raise Machinery(f"vacuous model check: actions never taken {dead} ({totals})")
    if dev.ok:
        raise Machinery("model is insensitive: the DeepAstuple deviation does not violate InvLaws")
    chk.part("laws_exhaustive", transitions_per_action_in_coverage_run=totals, deviation_DeepAstuple_violates=dev.violated)
    chk.cov["exhaustive"] = True

    # 2. specification -> code ---------------------------------------------------------------------------------
    t0 = time.time()
    behs = X.simulate_buckets(sigs, per_outer=220 if tier == "thorough" else 70, depth=7 if tier == "thorough" else 6, seed=chk.seed + 3)
    t_sim = time.time() - t0
    rep = X.ClassReplayer(chk, mode="c14", doit_budget_s=600 if tier == "thorough" else 18,
                          eval_classes=[e.cls for e in embs if e.has_eval and (e.kind == "decorated" or e.name == "PoolSum")])
    info = X.run_replays(rep, embs, behs, rng, budget_s=700 if tier == "thorough" else 26, exhaustive_triples=(tier == "thorough"),
                         limit_s=20 if tier == "thorough" else 5)
    chk.cov["traces_validated_against_impl"] += rep.steps and len(rep.covered_triples) + len(embs)
    chk.part("simulation_replay", behaviours_generated=len(behs), steps=rep.steps, states_checked=rep.states, by_action=rep.by_action,
             unfolded_comparisons=rep.diamonds, undefined_on_both_sides=rep.undefined, undecided=getattr(rep, "undecided", 0),
             time_limits_hit=getattr(rep, "timeouts", 0), not_constructible=rep.skipped_not_constructible,
             steps_skipped_because_two_slots_hold_one_class=getattr(rep, "aliased_steps", 0),
             unfolded_expressions_recanonicalised_by_sympy_on_pickle_or_rebuild=getattr(rep, "recanonicalised", 0),
             helper_objects_whose_derived_part_differs_from_direct_construction=getattr(rep, "derived_part_differs", 0),
             neighbour_pairs=rep.eq_pairs, pickle_round_trips_in_process=rep.pickled, tlc_simulate_s=round(t_sim, 1),
             wall_s=round(time.time() - t0, 1), **info)
    # 2b. maps that contain a summation index and a free symbol (PoolSum as outer class / nested argument)
    t1 = time.time()
    mbehs = X.simulate_mixed(sigs, num=500 if tier == "thorough" else 90, depth=5, seed=chk.seed + 9)
    minfo = X.run_mixed_replays(rep, embs, mbehs, rng, budget_s=150 if tier == "thorough" else 9, limit_s=10 if tier == "thorough" else 4)
    chk.part("mixed_map_replay", behaviours_generated=len(mbehs), wall_s=round(time.time() - t1, 1), **minfo)
    chk.cov["traces_validated_against_impl"] += minfo["behaviours_replayed"]
    if minfo["xreplace_and_subs_dict_steps"] == 0 or rep.by_action.get("SubsMap", 0) == 0:
        raise Machinery("no mixed-map step was replayed")
    missing = sorted({e.name for e in embs} - rep.covered_outer)
    if missing:
        chk.note(f"classes never replayed as outer class: {missing}")
    if behs:
        b = behs[len(behs) // 2]
        chk.sample({"behaviour": [[s["action"], X.ClassReplayer.show_args(s["action"], s["args"]), T.show(T.from_tla(s["state"]["cur"]))] for s in b]})

    # 3. code -> specification: every class, judged by Trace_Expr --------------------------------------------------
    recs, ctx, samples = X.class_trace_records(embs, rng, nest_samples=len(X.all_triples(embs)) if tier == "thorough" else 450)
    mrecs, mctx = X.mixed_trace_records(embs, rng, start_id=max(r["id"] for r in recs) + 1)
    recs, ctx = recs + mrecs, {**ctx, **mctx}
    from ..expr_carrier import carrier_trace_records

    crecs, cctx, cskipped = carrier_trace_records(embs, chk.seed, start_id=max(r["id"] for r in recs) + 1)
    recs, ctx = recs + crecs, {**ctx, **cctx}
    chk.part("symbolic_non_sympy_attribute", records=len(crecs), classes=sorted({v["cls"] for v in cctx.values()}), skipped=cskipped,
             what="a class-valued non-SymPy attribute replaced by a sympy.Lambda that carries a free symbol; substitutions hitting that symbol")
    if not crecs:
        raise Machinery("no class with a symbolic non-SymPy attribute could be built")
    from ..expr_carrier import default_argument_records

    drecs, dctx, dskipped = default_argument_records(embs, start_id=max(r["id"] for r in recs) + 1, ops=("subst",))
    recs, ctx = recs + drecs, {**ctx, **dctx}
    chk.part("optional_arguments_omitted", records=len(drecs), classes=sorted({v["cls"] for v in dctx.values()}), skipped=dskipped)
    errors = [r for r in recs if r["op"] == "error"]
    good = [r for r in recs if r["op"] != "error"]
    tv = trace.validate("Trace_Expr", good, cfg=TRACE_CFG, timeout=2400)
    chk.add_tlc("trace_all_classes", tv.res, traces=len({ctx[r["id"]]["cls"] for r in good}))
    chk.count(len(good))
    chk.part("trace_all_classes", records=len(good), rejects=len(tv.rejects), stats=tv.stats,
             classes=len({ctx[r["id"]]["cls"] for r in good}), operations_raised=len(errors), mixed_map_records=len(mrecs))
    for s in samples:
        chk.sample(s)
    for need in ("subst_changed", "subst_nested", "identity_nested", "eq_equal", "eq_differ_in_attr_only", "commute_observed", "same_observed"):
        if tv.stats.get(need, 0) == 0:
            raise Machinery(f"vacuous trace: antecedent {need} never held ({tv.stats})")
    byid = {r["id"]: r for r in recs}
    for clause, rid, *_ in tv.rejects:
        i = ctx[rid]
        if i.get("carrier"):
            case = {"record": rid, **{k: v for k, v in i.items() if k in ("cls", "obj", "what", "res")}}
            if i.get("folded_argument"):
                chk.violation(f"unevaluated.doit:non-default-attribute-with-folded-argument:{i['cls']}", f"{i['cls']}: {i['obj']}: {i['what']}", case)
            elif i.get("defaults_omitted"):
                chk.violation(f"unevaluated.{i['opname']}:optional-arguments-omitted:{clause}:{i['cls']}", f"{i['cls']}: {i['obj']}.{i['what']} = {i.get('res')} ({clause})", case)
            elif i.get("keyword_pair"):
                chk.violation(f"unevaluated.__new__:keyword-construction-differs-from-positional:{i['cls']}", f"{i['cls']}: {i['obj']} built positionally vs {i['res']}: == is {byid[rid]['eq']}, equal hash is {byid[rid]['hash']}", case)
            elif i.get("function_pair"):
                chk.violation(f"unevaluated.__eq__:function-valued-attribute:{clause}", f"{i['cls']}: {i['obj']} vs {i['res']}: == is {byid[rid]['eq']}, equal hash is {byid[rid]['hash']}", case)
            elif clause == "SubstThenUnfoldEqualsUnfoldThenSubst":
                chk.violation(f"unevaluated.{i['opname']}:symbolic-non-sympy-attribute:substitute-then-unfold-differs", f"{i['cls']}: {i['obj']}: {i['what']}", case)
            else:
                chk.violation(f"unevaluated.{i['opname']}:symbolic-non-sympy-attribute:not-substituted", f"{i['cls']}: {i['obj']}.{i['what']} = {i.get('res')} ({clause})", case)
            continue
        X.classify_class_reject(chk, clause, byid[rid], i)
    for r in errors:
        i = ctx[r["id"]]
        chk.violation(f"unevaluated.{i['opname']}:raises-{i['exc']}", f"{i['cls']}: {i['obj']}: {i['what']}", i)
    for r in good:
        chk.nontrivial(("trace", ctx[r["id"]]["cls"], r["op"], str(r.get("m", ""))[:80], ctx[r["id"]].get("nested")))

    # 4. numeric clause (observation) -------------------------------------------------------------------------------
    num = X.numeric_clause(chk, embs, rng)
    chk.part("numeric_observation", **num)

    # 5. binding demonstration (thorough): a corrupted projection must be rejected
    if tier == "thorough":
        demo = [dict(r) for r in good[:60]]
        victim = next(r for r in demo if r["op"] == "subst" and r["r"]["a"])
        bad = dict(victim["r"])
        bad["a"] = list(reversed(bad["a"])) if len(bad["a"]) > 1 and bad["a"][0] != bad["a"][-1] else bad["a"][:-1]
        victim["r"] = bad
        tv2 = trace.validate("Trace_Expr", demo, cfg=TRACE_CFG)
        if not any(c == "Subst" and i == victim["id"] for c, i, *_ in tv2.rejects):
            raise Machinery("binding demonstration failed: a corrupted substitution result was not rejected")
        victim2 = next(r for r in demo if r["op"] == "eq" and r["eq"] == 0)
        victim2["eq"] = 1
        tv3 = trace.validate("Trace_Expr", demo, cfg=TRACE_CFG)
        if not any(c == "EqIffSameTerm" and i == victim2["id"] for c, i, *_ in tv3.rejects):
            raise Machinery("binding demonstration failed: a corrupted equality flag was not rejected")
        chk.part("binding_demonstration", corrupted_substitution_result_rejected=True, corrupted_equality_flag_rejected=True)

    chk.cov["rule"] = (
        "cases = (a) every state/transition of ExprOps over the class-slot universe (TLC, exhaustive), (b) TLC -simulate behaviours executed "
        "on real instances under assignments (class, real positions, nested class) covering every discovered class as outer and as nested "
        "class (thorough: every (class, position, nested class) triple), (c) operation records of every class judged by Trace_Expr; "
        "distinct non-trivial = distinct (assignment of real classes, abstract term) pairs reached on real objects + distinct "
        "(class, operation, map, nested class) trace records"
    )
