import sys, time
sys.path.insert(0, "/verif/harness")
from vf import tlc
cfg = """SPECIFICATION Spec
CONSTANTS
 Betas = {<<3,4,5>>, <<-3,4,5>>, <<4,3,5>>, <<-4,3,5>>}
 Angles = {<<1,0,1>>, <<0,1,1>>, <<-1,0,1>>, <<0,-1,1>>, <<3,4,5>>, <<4,3,5>>, <<-3,4,5>>, <<3,-4,5>>}
 Moms = {<<1,2,1,1,1>>, <<1,2,-1,1,-1>>, <<2,3,2,1,0>>, <<2,3,0,-1,2>>, <<4,5,3,0,0>>, <<4,5,-3,0,0>>, <<4,5,0,3,0>>, <<4,5,0,-3,0>>, <<4,5,0,0,3>>, <<4,5,0,0,-3>>}
 Starts = {<<1,2,1,1,1>>, <<4,5,0,0,3>>}
 MaxDepth = %d
INVARIANT TypeOK
INVARIANT InvEta
INVARIANT InvDet
INVARIANT InvOrthochronous
INVARIANT InvTransport
INVARIANT InvMass
PROPERTY LawRest
PROPERTY LawInverse
PROPERTY LawParity
PROPERTY LawNegate
PROPERTY LawZAgree
PROPERTY LawRotCompose
CHECK_DEADLOCK FALSE
""" % int(sys.argv[1])
t=time.time()
try:
    res = tlc.run("Lorentz", cfg, workers=6, coverage=True, fast_start=False, timeout=1500)
    print(res.ok, res.violated, res.generated, res.distinct, res.depth, res.coverage, round(time.time()-t,1))
    if not res.ok: print("\n".join(res.error_trace[:60]))
except Exception as e:
    print(str(e)[:3000])
