"""Helper run in a fresh interpreter (other PYTHONHASHSEED) for C14 / C15:
  python -m vf.expr_child classes   < {"jobs": [{blob, term, asg, srepr}]}
  python -m vf.expr_child models    < {"specs": [...], "blobs": {name: b64}}
Loads pickles written by the parent, builds the same objects here from the recipe, compares
(==, hash, srepr, non-SymPy attributes), and pickles its own objects for the way back."""
from __future__ import annotations

import base64
import json
import pickle
import sys
import warnings


def classes_main(job):
    import sympy as sp

    from . import expr_classes as C
    from . import expr_cls as X
    from . import expr_terms as T
    from .props.c18 import json_term

    embs, _, _ = C.discover()
    by_q = {e.qualname: e for e in embs + C.fixtures()}
    out = []
    for j in job["jobs"]:
        r = {"ok": True}
        try:
            asg = X.Assignment.from_json(j["asg"], by_q)
            term = json_term(j["term"])
            fresh = asg.concretise(term)
            obj = pickle.loads(base64.b64decode(j["blob"]))
            r["eq"] = bool(obj == fresh)
            r["hash"] = hash(obj) == hash(fresh)
            r["srepr"] = sp.srepr(obj) == j["srepr"] and sp.srepr(obj) == sp.srepr(fresh)
            r["attrs"] = X.attrs_equal(obj, fresh)
            r["type"] = type(obj) is type(fresh)
            r["shown"] = X.describe(obj)
            r["pattern"] = "" if (r["eq"] and r["attrs"] and r["type"]) else X.mismatch_pattern(obj, fresh)
            r["proj"] = T.to_json(X.project_generic(obj))
            r["proj_fresh"] = T.to_json(X.project_generic(fresh))
            r["back"] = base64.b64encode(pickle.dumps(fresh)).decode()
        except Exception as e:  # noqa: BLE001
            r = {"ok": False, "err": repr(e)[:500]}
        out.append(r)
    return {"results": out}


def models_main(job):
    from . import expr_models as M

    return M.child_main(job)


def main():
    warnings.simplefilter("ignore")
    mode = sys.argv[1]
    job = json.loads(sys.stdin.read())
    res = classes_main(job) if mode == "classes" else models_main(job)
    sys.stdout.write(json.dumps(res))


if __name__ == "__main__":
    main()
