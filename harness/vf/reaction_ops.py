"""Records for spec/Trace_Reaction.tla: the reaction-level operators of ampform.helicity.decay observed on a ReactionInfo."""
from __future__ import annotations

from . import ampl, topo


def reaction_record(rid, reaction) -> dict:
    from ampform.helicity import decay as D

    trs = list(reaction.transitions)
    index = {id(t): i + 1 for i, t in enumerate(trs)}
    spin_groups = [[index[id(t)] for t in g] for g in D.group_by_spin_projection(trs)]
    topo_groups = [[index[id(t)] for t in g] for g in D.group_by_topology(trs).values()]
    helinfo, srt = [], []
    for i, t in enumerate(trs[:40]):
        for n in sorted(t.topology.nodes):
            inn, (o1, o2) = D.get_helicity_info(t, n)
            pe = next(k for k, e in t.topology.edges.items() if e.ending_node_id == n)
            st = lambda s: [s.particle.name, int(2 * ampl.F(s.spin_projection))]  # noqa: E731
            helinfo.append({"tr": i + 1, "parent": list(topo.attached(t.topology, pe)), "inn": st(inn), "out": [st(o1), st(o2)]})
        names = [s.particle.name for s in D.get_sorted_states(t, list(t.states))]
        srt.append({"tr": i + 1, "names": names, "nondecreasing": int(all(a <= b for a, b in zip(names, names[1:])))})
    pref = []
    for t in trs:
        p = D.get_prefactor(t)
        pref.append(int(p) if float(p) == int(p) else -99)
    return {"id": rid, "trs": ampl.abstract_reaction(reaction)["trs"], "spin_groups": spin_groups, "topo_groups": topo_groups,
            "outer": list(D.get_outer_state_ids(reaction)), "prefactors": pref, "helinfo": helinfo, "sorted": srt}
