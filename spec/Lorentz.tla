------------------------------ MODULE Lorentz ------------------------------
(***************************************************************************)
(* C08 -- boost and rotation matrices are proper orthochronous Lorentz     *)
(* transformations.                                                        *)
(*                                                                         *)
(* Part 1 (definitional): exact arithmetic on rationals <<num, den>>       *)
(* (den > 0, gcd-normalised, every intermediate kept inside TLC's 32-bit   *)
(* integers by cross-reduction), 4-vectors and 4x4 matrices over them, the *)
(* Minkowski metric eta = diag(1,-1,-1,-1), eta-orthogonality, the         *)
(* determinant, and REFERENCE matrices written from the physics            *)
(* definitions -- deliberately not in the algebraic form the library uses: *)
(*   boost to the rest frame of q = (E; x,y,z) with mass m:                *)
(*       B00 = E/m,  B0i = Bi0 = -q_i/m,  Bij = delta_ij + q_i q_j/(m(E+m))*)
(*   (the library computes g = 1/sqrt(1-beta^2), 1 + (g-1) b_i b_j/b^2);   *)
(*   z-boost from (beta, gamma); active rotations about y and z from a     *)
(*   point (c, s) of the rational unit circle.                             *)
(*                                                                         *)
(* Part 2 (state machine): an accumulated transformation M, the momentum p *)
(* it has transported from p0, and the actions ApplyBoostZ, ApplyRotY,     *)
(* ApplyRotZ, ApplyBoost, ToRest (= ApplyBoost with the current momentum), *)
(* Negate (space inversion of the momentum, M -> P M P).  Invariants: M is *)
(* eta-orthogonal, det M = 1, M00 >= 1, p = M p0, the mass is kept.  The   *)
(* action properties are the laws of the property statement:               *)
(*   LawRest       B(p) p = (m,0,0,0)                                      *)
(*   LawInverse    B(-q) B(q) M = M                                        *)
(*   LawParity     P B(q) P = B(-q)          (Negate after a boost)        *)
(*   LawZAgree     BoostZ(beta) = B((gamma,0,0,gamma beta))                *)
(*   LawRotCompose R(a) R(b) = R(a+b) on the rational circle               *)
(* TLC checks them exhaustively over the Pythagorean parameter lattices    *)
(* written out in Lorentz_MC.tla (configurations in vf/props/c08.py).      *)
(* Chains whose accumulated entries outgrow Cap are outside the model: the *)
(* squares needed for eta-orthogonality must fit TLC's 32-bit integers.    *)
(* The determinant is decided 32-bit-safely modulo a prime (see DetModP)   *)
(* and cross-validated by an exact integer determinant where that fits.    *)
(* Trace_Lorentz re-uses part 1 to judge the IMPLEMENTATION's matrices and *)
(* drives part 2 with the logged chains.                                   *)
(***************************************************************************)
EXTENDS Integers, Sequences, FiniteSets, TLC

CONSTANTS Betas,     \* set of <<a, b, h>>: a^2 + b^2 = h^2, b > 0, h > 0; beta = a/h, gamma = h/b
          Angles,    \* set of <<cn, sn, h>>: cn^2 + sn^2 = h^2, h > 0;   cos = cn/h, sin = sn/h
          Moms,      \* set of <<m, E, x, y, z>>: integers, m > 0, E > 0, m^2 = E^2 - x^2 - y^2 - z^2
          Starts,    \* subset of Moms: initial momenta
          MaxDepth,  \* number of transformations in a chain
          Cap,       \* bound on |num| and den of every entry of M and p (32-bit arithmetic)
          RestCap,   \* ToRest is taken only while the entries of p are at most this (32-bit arithmetic)
          Dev        \* named deviations of the reference, {} in every real check; non-empty only to show that
                     \* the invariants and laws are not vacuous: "RotYSign", "BoostZSwap", "BoostNoInverse"

------------------------------------------------------------------------------
(* exact rationals *)
Abs(x) == IF x < 0 THEN -x ELSE x
RECURSIVE GCD(_, _)
GCD(a, b) == IF b = 0 THEN a ELSE GCD(b, a % b)          \* a, b >= 0, not both 0

Q(n, d) ==                                                \* normal form of n/d, d # 0
  LET s == IF d < 0 THEN -1 ELSE 1
      g == GCD(Abs(n), Abs(d))
  IN  <<(s * n) \div g, (s * d) \div g>>
Zero == <<0, 1>>
One == <<1, 1>>
I2R(n) == <<n, 1>>
IsRat(r) == r[2] > 0 /\ GCD(Abs(r[1]), r[2]) = 1
RNeg(a) == <<-a[1], a[2]>>
RMul(a, b) ==
  IF a[1] = 0 \/ b[1] = 0 THEN Zero
  ELSE LET g1 == GCD(Abs(a[1]), b[2])
           g2 == GCD(Abs(b[1]), a[2])
       IN  <<(a[1] \div g1) * (b[1] \div g2), (a[2] \div g2) * (b[2] \div g1)>>
RAdd(a, b) ==
  IF a[1] = 0 THEN b ELSE IF b[1] = 0 THEN a
  ELSE LET g == GCD(a[2], b[2])
       IN  Q(a[1] * (b[2] \div g) + b[1] * (a[2] \div g), (a[2] \div g) * b[2])
RSub(a, b) == RAdd(a, RNeg(b))
RInv(a) == IF a[1] < 0 THEN <<-a[2], -a[1]>> ELSE <<a[2], a[1]>>       \* a # 0
RDiv(a, b) == RMul(a, RInv(b))
RSq(a) == RMul(a, a)
RSign(a) == IF a[1] > 0 THEN 1 ELSE IF a[1] < 0 THEN -1 ELSE 0
RLe(a, b) == RSign(RSub(b, a)) >= 0
RLt(a, b) == RSign(RSub(b, a)) > 0
Sum4(a, b, c, d) == RAdd(RAdd(a, b), RAdd(c, d))

------------------------------------------------------------------------------
(* 4-vectors and 4x4 matrices *)
Ix == 1..4
MMul(A, B) == [i \in Ix |-> [j \in Ix |->
    Sum4(RMul(A[i][1], B[1][j]), RMul(A[i][2], B[2][j]), RMul(A[i][3], B[3][j]), RMul(A[i][4], B[4][j]))]]
MVec(A, v) == [i \in Ix |->
    Sum4(RMul(A[i][1], v[1]), RMul(A[i][2], v[2]), RMul(A[i][3], v[3]), RMul(A[i][4], v[4]))]
Transpose(A) == [i \in Ix |-> [j \in Ix |-> A[j][i]]]
Id  == <<<<One, Zero, Zero, Zero>>, <<Zero, One, Zero, Zero>>, <<Zero, Zero, One, Zero>>, <<Zero, Zero, Zero, One>>>>
MinusOne == <<-1, 1>>
Eta == <<<<One, Zero, Zero, Zero>>, <<Zero, MinusOne, Zero, Zero>>, <<Zero, Zero, MinusOne, Zero>>, <<Zero, Zero, Zero, MinusOne>>>>
Par == Eta        \* space inversion has the same matrix as the metric
IsMat(A) == DOMAIN A = Ix /\ \A i \in Ix : DOMAIN A[i] = Ix /\ \A j \in Ix : IsRat(A[i][j])
IsVec(v) == DOMAIN v = Ix /\ \A i \in Ix : IsRat(v[i])

\* (L^T eta L)_ij = L_1i L_1j - L_2i L_2j - L_3i L_3j - L_4i L_4j
EtaForm(L, i, j) ==
  RSub(RMul(L[1][i], L[1][j]),
       RAdd(RMul(L[2][i], L[2][j]), RAdd(RMul(L[3][i], L[3][j]), RMul(L[4][i], L[4][j]))))
EtaOrth(L) == \A i \in Ix : \A j \in i..4 : EtaForm(L, i, j) = Eta[i][j]        \* the form is symmetric in i, j
Minkowski(v) == RSub(RSq(v[1]), RAdd(RSq(v[2]), RAdd(RSq(v[3]), RSq(v[4]))))
Neg3(v) == <<v[1], RNeg(v[2]), RNeg(v[3]), RNeg(v[4])>>

\* exact determinant over a common denominator D: det L = det(N) / D^4 with N = D L an
\* integer matrix.  |det N| <= 24 max|N|^4, so this is only usable for small entries
\* (DetFits); it cross-validates the modular determinant below wherever it applies.
Drop(r, j) == CASE j = 1 -> <<r[2], r[3], r[4]>> [] j = 2 -> <<r[1], r[3], r[4]>>
                [] j = 3 -> <<r[1], r[2], r[4]>> [] OTHER -> <<r[1], r[2], r[3]>>
Max2(a, b) == IF a > b THEN a ELSE b
VecBig(v) == Max2(Max2(Max2(Abs(v[1][1]), v[1][2]), Max2(Abs(v[2][1]), v[2][2])),
                  Max2(Max2(Abs(v[3][1]), v[3][2]), Max2(Abs(v[4][1]), v[4][2])))       \* largest |num| or den
Big(L) == Max2(Max2(VecBig(L[1]), VecBig(L[2])), Max2(VecBig(L[3]), VecBig(L[4])))
SmallCap == 90                                            \* 24 * 90^4 < 2^31
LcmCap(a, b) == IF a > SmallCap THEN a ELSE (a \div GCD(a, b)) * b
DenLcm(L) ==
  LET RowLcm(acc, r) == LcmCap(LcmCap(LcmCap(LcmCap(acc, r[1][2]), r[2][2]), r[3][2]), r[4][2])
  IN  RowLcm(RowLcm(RowLcm(RowLcm(1, L[1]), L[2]), L[3]), L[4])
Scaled(L, D) == [i \in Ix |-> [j \in Ix |-> L[i][j][1] * (D \div L[i][j][2])]]
DetFits(L) ==
  LET D == DenLcm(L)
  IN  D <= SmallCap /\ \A i \in Ix : \A j \in Ix : Abs(L[i][j][1]) <= SmallCap /\ Abs(Scaled(L, D)[i][j]) <= SmallCap
IDet3(a, b, c) == a[1] * (b[2] * c[3] - b[3] * c[2]) + a[2] * (b[3] * c[1] - b[1] * c[3]) + a[3] * (b[1] * c[2] - b[2] * c[1])
IDet4(N) ==
  LET C(j) == IDet3(Drop(N[2], j), Drop(N[3], j), Drop(N[4], j))
  IN  N[1][1] * C(1) - N[1][2] * C(2) + N[1][3] * C(3) - N[1][4] * C(4)
DetExactIsOne(L) == LET D == DenLcm(L) IN IDet4(Scaled(L, D)) = D * D * D * D

\* The determinant modulo a prime.  For an eta-orthogonal L, det L is +1 or -1; a rational
\* whose denominators are coprime to the odd prime PrimeP and which is congruent to 1 is
\* not -1, hence  EtaOrth(L) /\ DetModP(L) = 1  <=>  EtaOrth(L) /\ det L = 1, with every
\* intermediate below PrimeP^2 < 2^31 whatever the size of the entries.
PrimeP == 46337
RECURSIVE PowMod(_, _)
PowMod(b, e) == IF e = 0 THEN 1
                ELSE LET h == PowMod(b, e \div 2) h2 == (h * h) % PrimeP
                     IN  IF e % 2 = 1 THEN (h2 * b) % PrimeP ELSE h2
InvMod(d) == IF d = 1 THEN 1 ELSE PowMod(d % PrimeP, PrimeP - 2)
RMod(r) == ((r[1] % PrimeP) * InvMod(r[2])) % PrimeP
DenomsCoprime(L) == \A i \in Ix : \A j \in Ix : L[i][j][2] % PrimeP # 0
MM(a, b) == (a * b) % PrimeP
Det3M(a, b, c) ==
  (MM(a[1], (MM(b[2], c[3]) + PrimeP - MM(b[3], c[2])) % PrimeP)
   + MM(a[2], (MM(b[3], c[1]) + PrimeP - MM(b[1], c[3])) % PrimeP)
   + MM(a[3], (MM(b[1], c[2]) + PrimeP - MM(b[2], c[1])) % PrimeP)) % PrimeP
DetModP(L) ==
  LET N == [i \in Ix |-> [j \in Ix |-> RMod(L[i][j])]]
      C(j) == Det3M(Drop(N[2], j), Drop(N[3], j), Drop(N[4], j))
  IN  (MM(N[1][1], C(1)) + (PrimeP - MM(N[1][2], C(2))) + MM(N[1][3], C(3)) + (PrimeP - MM(N[1][4], C(4)))) % PrimeP
DetOne(L) == DenomsCoprime(L) /\ DetModP(L) = 1 /\ (DetFits(L) => DetExactIsOne(L))

\* the three clauses of "proper orthochronous"
Proper(L) == EtaOrth(L) /\ DetOne(L) /\ RLe(One, L[1][1])

------------------------------------------------------------------------------
(* reference transformations *)
\* boost into the rest frame of q, all arguments rationals, m > 0, m^2 = E^2 - |q|^2
RefBoost(m, q) ==
  LET k == RInv(RMul(m, RAdd(q[1], m)))                \* 1 / (m (E + m))
      S(i, j) == RAdd(IF i = j THEN One ELSE Zero, RMul(RMul(q[i], q[j]), k))
      T(i) == IF "BoostNoInverse" \in Dev /\ i = 2 THEN RDiv(q[i], m) ELSE RNeg(RDiv(q[i], m))
  IN  <<<<RDiv(q[1], m), T(2), T(3), T(4)>>,
        <<T(2), S(2, 2), S(2, 3), S(2, 4)>>,
        <<T(3), S(3, 2), S(3, 3), S(3, 4)>>,
        <<T(4), S(4, 2), S(4, 3), S(4, 4)>>>>
MassOK(m, q) == RSign(m) > 0 /\ RSign(q[1]) > 0 /\ RSq(m) = Minkowski(q)
\* boost along z with velocity beta; gamma is the witness of 1/sqrt(1 - beta^2)
GammaOK(beta, gamma) == RSign(gamma) > 0 /\ RMul(RSq(gamma), RSub(One, RSq(beta))) = One
RefBoostZ(beta, gamma) ==
  LET gb == IF "BoostZSwap" \in Dev THEN beta ELSE RMul(gamma, beta)
  IN  <<<<gamma, Zero, Zero, RNeg(gb)>>, <<Zero, One, Zero, Zero>>, <<Zero, Zero, One, Zero>>, <<RNeg(gb), Zero, Zero, gamma>>>>
ZMom(beta, gamma) == <<gamma, Zero, Zero, RMul(gamma, beta)>>       \* mass 1
\* active rotations by the angle whose (cos, sin) = (c, s)
CircleOK(c, s) == RAdd(RSq(c), RSq(s)) = One
RefRotY(c, s) == <<<<One, Zero, Zero, Zero>>, <<Zero, c, Zero, s>>, <<Zero, Zero, One, Zero>>,
                   <<Zero, IF "RotYSign" \in Dev THEN s ELSE RNeg(s), Zero, c>>>>
RefRotZ(c, s) == <<<<One, Zero, Zero, Zero>>, <<Zero, c, RNeg(s), Zero>>, <<Zero, s, c, Zero>>, <<Zero, Zero, Zero, One>>>>
CircleAdd(a, b) == <<RSub(RMul(a[1], b[1]), RMul(a[2], b[2])), RAdd(RMul(a[2], b[1]), RMul(a[1], b[2]))>>

------------------------------------------------------------------------------
(* the lattice parameters as rationals *)
BetaOf(b) == Q(b[1], b[3])
GammaOf(b) == Q(b[3], b[2])
CosSin(a) == <<Q(a[1], a[3]), Q(a[2], a[3])>>
MassOf(q) == I2R(q[1])
VecOf(q) == <<I2R(q[2]), I2R(q[3]), I2R(q[4]), I2R(q[5])>>
NegMom(q) == <<q[1], q[2], -q[3], -q[4], -q[5]>>

ASSUME LatticeOK ==
  /\ \A b \in Betas : b[1] * b[1] + b[2] * b[2] = b[3] * b[3] /\ b[2] > 0 /\ b[3] > 0
                      /\ GammaOK(BetaOf(b), GammaOf(b))
  /\ \A a \in Angles : a[1] * a[1] + a[2] * a[2] = a[3] * a[3] /\ a[3] > 0
                       /\ CircleOK(CosSin(a)[1], CosSin(a)[2])
  /\ \A q \in Moms : q[1] > 0 /\ q[2] > 0 /\ MassOK(MassOf(q), VecOf(q))
  /\ Starts \subseteq Moms

------------------------------------------------------------------------------
(* the state machine *)
VARIABLES M,      \* accumulated transformation
          p,      \* current momentum
          p0,     \* the momentum it came from: p = M p0
          mass,   \* its mass (rational)
          n,      \* transformations applied
          last,   \* [a |-> action name, par |-> its lattice parameter]   (history)
          prev    \* M before the last action                            (history)
vars == <<M, p, p0, mass, n, last, prev>>

Init == /\ \E q \in Starts : p0 = VecOf(q) /\ mass = MassOf(q)
        /\ p = p0 /\ M = Id /\ n = 0 /\ prev = Id
        /\ last = [a |-> "Init", par |-> <<>>]

\* Chains whose accumulated entries outgrow Cap are not part of the model: squares of the
\* entries (eta-orthogonality, mass) must stay inside TLC's 32-bit integers.
Apply(L, name, par) ==
  /\ M' = MMul(L, M) /\ p' = MVec(L, p) /\ prev' = M
  /\ Big(M') <= Cap /\ VecBig(p') <= Cap
  /\ n' = n + 1 /\ last' = [a |-> name, par |-> par]
  /\ UNCHANGED <<p0, mass>>

ApplyBoostZ(b) == n < MaxDepth /\ Apply(RefBoostZ(BetaOf(b), GammaOf(b)), "BoostZ", b)
ApplyRotY(a) == n < MaxDepth /\ Apply(RefRotY(CosSin(a)[1], CosSin(a)[2]), "RotY", a)
ApplyRotZ(a) == n < MaxDepth /\ Apply(RefRotZ(CosSin(a)[1], CosSin(a)[2]), "RotZ", a)
ApplyBoost(q) == n < MaxDepth /\ Apply(RefBoost(MassOf(q), VecOf(q)), "Boost", q)
Moving(v) == <<v[2][1], v[3][1], v[4][1]>> # <<0, 0, 0>>     \* (no disjunction: TLC would split the action)
\* B(p) has entries of the size of VecBig(p)^3: the guard keeps M' inside 32 bits
ToRest == n < MaxDepth /\ Moving(p) /\ VecBig(p) <= RestCap /\ Apply(RefBoost(mass, p), "ToRest", <<>>)
Negate ==
  /\ n < MaxDepth
  /\ M' = MMul(Par, MMul(M, Par)) /\ p' = Neg3(p) /\ p0' = Neg3(p0) /\ prev' = M
  /\ n' = n + 1 /\ last' = [a |-> "Negate", par |-> <<>>]
  /\ UNCHANGED mass

Next == \/ \E b \in Betas : ApplyBoostZ(b)
        \/ \E a \in Angles : ApplyRotY(a)
        \/ \E a \in Angles : ApplyRotZ(a)
        \/ \E q \in Moms : ApplyBoost(q)
        \/ ToRest
        \/ Negate
Spec == Init /\ [][Next]_vars

\* ---- invariants ---------------------------------------------------------------
TypeOK == IsMat(M) /\ IsVec(p) /\ IsVec(p0) /\ IsRat(mass) /\ n \in 0..MaxDepth
InvEta == EtaOrth(M)
InvDet == DetOne(M)
InvOrthochronous == RLe(One, M[1][1])
InvTransport == p = MVec(M, p0)
\* (a consequence of InvEta and InvTransport; evaluated directly only while the squares fit)
InvMass == RSign(p[1]) > 0 /\ (VecBig(p) <= 200 => Minkowski(p) = RSq(mass))
InvInverse == MMul(MMul(Eta, MMul(Transpose(M), Eta)), M) = Id        \* M^-1 = eta M^T eta

\* ---- the laws of the property, as action properties ---------------------------
Rest(m) == <<m, Zero, Zero, Zero>>
LawRest == [][last'.a = "ToRest" => p' = Rest(mass)]_vars
LawInverse == [][last'.a = "Boost" =>
                  MMul(RefBoost(MassOf(last'.par), VecOf(NegMom(last'.par))), M') = M]_vars
LawParity == [][(last.a = "Boost" /\ last'.a = "Negate") =>
                  M' = MMul(RefBoost(MassOf(last.par), VecOf(NegMom(last.par))), MMul(Par, MMul(prev, Par)))]_vars
LawNegate == [][last'.a = "Negate" => p'[1] = p[1] /\ (VecBig(p) <= 200 => Minkowski(p') = Minkowski(p))
                                       /\ \A i \in 2..4 : RAdd(p'[i], p[i]) = Zero]_vars
LawZAgree == [][last'.a = "BoostZ" =>
                  M' = MMul(RefBoost(One, ZMom(BetaOf(last'.par), GammaOf(last'.par))), M)]_vars
RotOf(name, cs) == IF name = "RotY" THEN RefRotY(cs[1], cs[2]) ELSE RefRotZ(cs[1], cs[2])
LawRotCompose == [][(last.a \in {"RotY", "RotZ"} /\ last'.a = last.a) =>
                     M' = MMul(RotOf(last.a, CircleAdd(CosSin(last'.par), CosSin(last.par))), prev)]_vars
=============================================================================
