"""C13 — dynamics attach to the right decay with the right variables and defaults.

spec/DynSel.tla (selector state machine, TLC exhaustive + -simulate) -> behaviours executed on
the real DynamicsSelector of real and synthetic reactions with *tagged* lineshape builders
(uninterpreted functions Dyn_t(m, m1, m2, L)), the selector state compared after every action;
the recorded histories and the projected chains are validated by spec/Trace_Dynamics.tla,
which keeps its own selector state keyed by the decay identity it computes from the abstract
transitions and recomputes which factor, with which mass symbols and L, every chain must carry."""
from __future__ import annotations

import random

import sympy as sp

from .. import ampl, tlc, trace
from .. import ampl_universe as U
from ..core import Machinery

LEVEL = "model_checking"
META = {
    "technique": "TLA+ selector state machine DynSel.tla model-checked with TLC (NameSelective, FormulateReadsOnly) and simulated; behaviours "
    "replayed on the real DynamicsSelector with tagged builders (selector state compared after every action); histories and "
    "projected chain factors validated by Trace_Dynamics.tla, which recomputes decay identities, selections, mass symbols and L "
    "from the abstract transitions",
    "text": "Which lineshape reaches which node with which variables after an arbitrary sequence of assignments is a state-machine "
    "question: TLC enumerates assignment histories, the real selector is driven along them, and the trace specification "
    "predicts from the transitions alone the exact set of (builder, m_parent, m_child1, m_child2, L) factors of every chain.",
    "note": "Trusted: TLC; tagged builders as probes (the library's own builders are used only for the defaults clause); projection of "
    "chain terms. Bounds: reactions with 1-3 resonances incl. cascades, two topologies and identical particles; histories <= 6 "
    "assignments; 3 tags.",
    "design_ref": "DESIGN.md §4 C13",
}

MC_CFG = """SPECIFICATION Spec
CONSTANTS
 NDecays = {nd}
 NNames = {nn}
 Tags = {{"a", "b", "none"}}
 MaxOps = {ops}
{props}CHECK_DEADLOCK FALSE
"""
PROPS = "INVARIANT TypeOK\nPROPERTY NameSelective\nPROPERTY FormulateReadsOnly\n"


def tagged(tag):
    f = sp.Function(f"Dyn{tag}")

    def builder(resonance, variable_pool):
        L = variable_pool.angular_momentum
        expr = f(variable_pool.incoming_state_mass, variable_pool.outgoing_state_mass1, variable_pool.outgoing_state_mass2, sp.Integer(ampl.NONE) if L is None else sp.Integer(L))
        return expr, {}

    builder.tag = tag
    return builder


def project_dyn(term):
    out = []
    for f in term["dyn"]:
        if isinstance(f, sp.Pow) and f.args[1].is_Integer and f.args[1] > 0:
            fs = [f.args[0]] * int(f.args[1])
        else:
            fs = [f]
        for g in fs:
            name = type(g).__name__
            if not name.startswith("Dyn") or len(g.args) != 4:
                raise ampl.AmpProjectionError(f"unexpected factor {g}")
            m, m1, m2, L = g.args
            ids = lambda s: [int(c) for c in s.name.split("_", 1)[1]]  # noqa: E731
            out.append([name[3:], ids(m), ids(m1), ids(m2), int(2 * L) if L != ampl.NONE else ampl.NONE])
    return out


def reactions(tier, rng):
    out = [("real:jpsi_gpp_f0", ampl.real_reaction("jpsi_gpp_f0", "canonical-helicity")),
           ("real:jpsi_ksp_two", ampl.real_reaction("jpsi_ksp_two", "helicity")),
           ("real:jpsi_gpp_omega", ampl.real_reaction("jpsi_gpp_omega", "helicity"))]
    if tier == "thorough":
        out += [("real:jpsi_4body", ampl.real_reaction("jpsi_4body", "helicity")), ("real:jpsi_3pi_rho", ampl.real_reaction("jpsi_3pi_rho", "canonical-helicity")),
                ("real:lc_pkpi", ampl.real_reaction("lc_pkpi", "helicity"))]
    n = 0
    want = 12 if tier == "thorough" else 3
    while n < want:
        # every other synthetic reaction: four final states, two topologies, the same resonance in different subsystems
        multi = n % 2 == 0
        spec = U.synth_spec(rng, nfs=4 if multi else rng.choice([3, 4]), formalism=rng.choice(["helicity", "canonical-helicity"]), helset="full",
                            ntop=2 if multi else None, name_by="size" if multi else None, maxspin2=2 if multi else 4)
        if spec is None or len(spec["transitions"]) > 40:
            continue
        out.append((f"synth:{n}:{spec['formalism']}:{spec['meta']['nfs']}", ampl.make_reaction(spec)))
        n += 1
    return out


def run(chk, replay=None):
    import ampform
    from ampform.helicity.decay import TwoBodyDecay
    from ampform.helicity.naming import CanonicalAmplitudeNameGenerator, HelicityAmplitudeNameGenerator

    tier = chk.tier
    rng = random.Random(chk.seed)
    chk.assume("TLC/SANY", "tagged builders observe exactly what the builder API is given", "projection of chain terms (vf/ampl.py)")
    res = tlc.run("DynSel", MC_CFG.format(nd=4, nn=2, ops=4 if tier == "thorough" else 3, props=PROPS), workers=8, coverage=True, fast_start=False, timeout=900)
    chk.add_tlc("design_exhaustive", res)
    if not res.ok:
        raise Machinery(f"DynSel violates {res.violated}")
    nbeh = 40 if tier == "thorough" else 10
    behs = tlc.simulate("DynSel", MC_CFG.format(nd=6, nn=3, ops=7, props=""), num=nbeh, depth=8, seed=chk.seed + 5)
    tags = {"a": tagged("a"), "b": tagged("b")}
    from ampform.dynamics.builder import create_non_dynamic

    tags["none"] = create_non_dynamic
    records = []
    tid = 0
    conform_steps = 0
    for label, reaction in reactions(tier, rng):
        atrs = ampl.abstract_reaction(reaction)["trs"]
        canonical = reaction.formalism.startswith("canonical")
        gen = (CanonicalAmplitudeNameGenerator if canonical else HelicityAmplitudeNameGenerator)(reaction)
        for bi, beh in enumerate(behs):
            builder = ampform.get_builder(reaction)
            if bi % 3 == 2:
                # every third history with helicity couplings instead of shared coefficients: which lineshape multiplies which chain
                # does not depend on how the chain's constant factor is named
                builder.config.use_helicity_couplings = True
            sel = builder.dynamics
            decays = list(sel)
            names = sorted({d.parent.particle.name for d in decays})
            byname = {n: [d for d in decays if d.parent.particle.name == n] for n in names}
            # abstract decay d (1..6, ParentOf(d) = ((d-1) % 3) + 1) -> a real decay of the corresponding resonance
            def real_name(n):
                return names[(n - 1) % len(names)]

            def real_decay(d):
                n = ((d - 1) % 3) + 1
                lst = byname[real_name(n)]
                return lst[((d - 1) // 3) % len(lst)]

            # (transition index, node set) of every decay, for the trace
            where = {}
            for i, tr in enumerate(reaction.transitions):
                for node in tr.topology.nodes:
                    dk = TwoBodyDecay.from_transition(tr, node)
                    where.setdefault(dk, (i, list(ampl.topo.attached(tr.topology, dk.parent.id))))
            records.append({"ev": "Start", "tid": tid, "trs": atrs})
            if bi == 0 or bi == len(behs) - 1:   # (the first and the last builder of the reaction: other builders have lived in between)
                ok = all(sel[(reaction.transitions[i], next(n for n in reaction.transitions[i].topology.nodes if TwoBodyDecay.from_transition(reaction.transitions[i], n) == dk))] is sel[dk] for dk, (i, _) in where.items())
                records.append({"ev": "Shape", "tid": tid, "n": len(sel), "tuple_lookup_ok": int(ok), "all_non_dynamic": int(all(v is create_non_dynamic for v in sel.values()))})
            # Formulate is always enabled in DynSel: the driver interleaves it after assignments
            steps = []
            for st in beh[1:]:
                steps.append(st)
                if st["action"] != "Formulate" and rng.random() < 0.5:
                    steps.append({"action": "Formulate", "args": (), "state": st["state"]})
            if not steps or steps[-1]["action"] != "Formulate":
                steps.append({"action": "Formulate", "args": (), "state": (steps[-1] if steps else beh[0])["state"]})
            desync = False
            for st in steps:
                a, args = st["action"], st["args"]
                if a == "AssignName":
                    nm = real_name(args[0])
                    use_particle = rng.random() < 0.3
                    sel.assign(byname[nm][0].parent.particle if use_particle else nm, tags[args[1]])
                    records.append({"ev": "AssignName", "tid": tid, "name": nm, "tag": args[1]})
                    # the abstract model's name n stands for every abstract name mapped to the same real name
                elif a == "AssignUnknownName":
                    sel.assign("no-such-resonance", tags[args[0]])
                elif a in ("AssignDecay", "AssignTuple"):
                    dk = real_decay(args[0])
                    if dk not in where:
                        desync = True  # the model took a step the driver cannot execute: stop comparing selector states
                        continue  # a decay of a symmetrised graph only: not addressable through (transition, node)
                    i, node = where[dk]
                    # AssignDecay and AssignTuple have the same effect in DynSel (TLC labels the step with either):
                    # the driver picks the (transition, node) form half of the time
                    if a == "AssignTuple" or rng.random() < 0.5:
                        tr = reaction.transitions[i]
                        nid = next(n for n in tr.topology.nodes if TwoBodyDecay.from_transition(tr, n) == dk)
                        sel.assign((tr, nid), tags[args[1]])
                    else:
                        sel.assign(dk, tags[args[1]])
                    records.append({"ev": "AssignNode", "tid": tid, "tr": i + 1, "node": node, "tag": args[1]})
                elif a == "Formulate":
                    model = builder.formulate()
                    chains = []
                    for tr in reaction.transitions:
                        comp = model.components.get("A_{" + gen.generate_amplitude_name(tr) + "}")
                        if comp is None:
                            chains.append({"found": 0, "dyn": []})
                            continue
                        chains.append({"found": 1, "dyn": project_dyn(ampl.project_term(comp))})
                    records.append({"ev": "Formulate", "tid": tid, "chains": chains})
                    chk.count(1)
                    chk.nontrivial((label, tuple(sorted((str(k), getattr(v, "tag", "none")) for k, v in sel.items() if getattr(v, "tag", None)))))
                # spec -> code conformance of the selector state (only when the name mapping is injective)
                if len(names) >= 3 and a != "AssignUnknownName" and not desync:
                    want = st["state"]["choice"]
                    for d in range(1, 7):
                        lst = byname[real_name(((d - 1) % 3) + 1)]
                        if (d - 1) // 3 < len(lst) and len(lst) >= 2:
                            got = getattr(sel[real_decay(d)], "tag", "none")
                            conform_steps += 1
                            if got != want[d - 1]:
                                chk.violation(f"selector-state-after-{a}", f"{label}: after {a}{args} decay {real_decay(d)} has builder {got}, the model says {want[d - 1]}", {"label": label, "behaviour": [[s["action"], list(s["args"])] for s in beh[1:]]})
            tid += 1
        # defaults clause with the library's own builders
        from ampform.dynamics.builder import create_relativistic_breit_wigner_with_ff

        builder = ampform.get_builder(reaction)
        rows = []
        rnames = sorted({d.parent.particle.name for d in builder.dynamics if d.parent.id not in reaction.transitions[0].topology.incoming_edge_ids})
        for n in rnames:
            builder.dynamics.assign(n, create_relativistic_breit_wigner_with_ff)
        try:
            model = builder.formulate()
        except ValueError:
            continue  # form factor without L for a half-integer-spin resonance: documented refusal
        pd = {k.name: v for k, v in model.parameter_defaults.items()}
        parts = {s.particle.name: s.particle for t in reaction.transitions for s in t.states.values()}
        q = lambda x: int(round(float(x) * 10**6))  # noqa: E731
        for n in rnames:
            p = parts.get(n)
            if p is None:
                continue   # a decay in the selector that is not of this reaction: the Shape record of the builders reports it
            latex = p.latex if p.latex else p.name
            mk, wk = f"m_{{{latex}}}", Rf"\Gamma_{{{latex}}}"
            if mk in pd and wk in pd:
                rows.append([n, q(p.mass), q(p.width), q(pd[mk]), q(pd[wk])])
        if rows:
            records.append({"ev": "Start", "tid": tid, "trs": atrs})
            records.append({"ev": "Defaults", "tid": tid, "rows": rows, "dups": [], "missing": []})
            tid += 1
        # mixed builders on the decays of one resonance (they share the mass and width parameters, one of them has more):
        # by name the plain Breit-Wigner, then single decays (not the first) the one with form factor; every parameter the
        # lineshapes use needs a default, whatever the order in which the builder meets them
        from ampform.dynamics.builder import create_relativistic_breit_wigner

        builder = ampform.get_builder(reaction)
        decays = [d for d in builder.dynamics if d.parent.id not in reaction.transitions[0].topology.incoming_edge_ids]
        by_name = {}
        for d in decays:
            by_name.setdefault(d.parent.particle.name, []).append(d)
        mixed = False
        for n, ds in by_name.items():
            builder.dynamics.assign(n, create_relativistic_breit_wigner)
            if len(ds) >= 2:
                for d in ds[1::2]:
                    builder.dynamics.assign(d, create_relativistic_breit_wigner_with_ff)
                mixed = True
        if mixed:
            try:
                model = builder.formulate()
            except ValueError:
                model = None
            if model is not None:
                known = {k.name for k in model.parameter_defaults} | {k.name for k in model.kinematic_variables}
                missing = sorted(s_.name for s_ in set().union(*[e.free_symbols for e in model.amplitudes.values()]) if s_.name not in known)
                records.append({"ev": "Start", "tid": tid, "trs": atrs})
                records.append({"ev": "Defaults", "tid": tid, "rows": [], "dups": [], "missing": missing})
                tid += 1
    tv = trace.validate("Trace_Dynamics", records, timeout=3000, heap="8g")
    chk.add_tlc("trace_dynamics", tv.res, traces=tid)
    chk.part("trace", histories=tid, stats=tv.stats, selector_state_comparisons=conform_steps)
    starts = {r["tid"]: i for i, r in enumerate(records) if r["ev"] == "Start"}
    for clause, t, info in tv.rejects:
        hist = [r for r in records if r["tid"] == t and r["ev"] not in ("Start", "Formulate", "Defaults")]
        kinds = sorted({r["ev"] for r in hist})
        chk.violation(f"{clause}:{'+'.join(kinds) or 'no-assignment'}", f"{clause}: {str(info)[:500]} after {[{k: v for k, v in r.items() if k != 'tid'} for r in hist][:8]}", {"history": hist})
    if not chk.violations and (tv.stats.get("nodes-with-dynamics", 0) == 0 or tv.stats.get("default-rows", 0) == 0):
        raise Machinery(f"vacuous: {tv.stats}")
    if tv.stats.get("default-rows", 0) == 0 and tv.stats.get("nodes-with-dynamics", 0) > 0:
        chk.violation("library-builders-assigned-by-name-leave-no-mass-width-parameters", "after assigning create_relativistic_breit_wigner_with_ff to every resonance by name no m_R / Gamma_R parameter exists in any model", {})
    chk.sample({"history": [{k: v for k, v in r.items() if k not in ("trs", "chains")} for r in records[:8]]})
    import copy

    bad = None
    for i, r in enumerate(records):
        if r["ev"] == "Formulate" and any(c["dyn"] for c in r["chains"]):
            t = r["tid"]
            bad = copy.deepcopy([x for k, x in enumerate(records) if x["tid"] == t and k <= i])
            c = next(c for c in bad[-1]["chains"] if c["dyn"])
            c["dyn"][0][2], c["dyn"][0][3] = c["dyn"][0][3], c["dyn"][0][2]
            break
    if bad and not chk.violations:
        tvb = trace.validate("Trace_Dynamics", bad)
        if not tvb.rejects:
            raise Machinery("binding demonstration failed: swapped daughter masses accepted")
        chk.part("binding_demo", corrupted="daughter masses swapped in one factor", rejected_by=sorted({r[0] for r in tvb.rejects}))
    chk.cov["rule"] = ("cases = Formulate events along DynSel behaviours (tlc -simulate: assign by name / Particle / decay / (transition,node), unknown names) "
                       "executed on real and synthetic reactions with tagged builders; distinct = distinct (reaction, selector state) at a Formulate")


def all_assigned_records(reaction, tid):
    """Records of the history 'assign tagged builder a to every resonance by name; formulate' (used by C02)."""
    import ampform
    from ampform.helicity.naming import CanonicalAmplitudeNameGenerator, HelicityAmplitudeNameGenerator

    atrs = ampl.abstract_reaction(reaction)["trs"]
    canonical = reaction.formalism.startswith("canonical")
    gen = (CanonicalAmplitudeNameGenerator if canonical else HelicityAmplitudeNameGenerator)(reaction)
    builder = ampform.get_builder(reaction)
    names = sorted({d.parent.particle.name for d in builder.dynamics})
    recs = [{"ev": "Start", "tid": tid, "trs": atrs}]
    t = tagged("a")
    for n in names:
        builder.dynamics.assign(n, t)
        recs.append({"ev": "AssignName", "tid": tid, "name": n, "tag": "a"})
    model = builder.formulate()
    chains = []
    for tr in reaction.transitions:
        comp = model.components.get("A_{" + gen.generate_amplitude_name(tr) + "}")
        chains.append({"found": 0, "dyn": []} if comp is None else {"found": 1, "dyn": project_dyn(ampl.project_term(comp))})
    recs.append({"ev": "Formulate", "tid": tid, "chains": chains})
    return recs
