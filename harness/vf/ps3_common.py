"""Shared by props/c20.py and props/c19.py: lattice generators (integer four-vector events,
bounding-box points, integer mass configurations), exact encoders for trace records, and the
bounds that keep every TLC intermediate below 2^31.

Nothing here decides a verdict: the oracle is spec/PhaseSpace3.tla.

32-bit bounds (TLC aborts on overflow).  With m0^2 <= 81 (box family: m0 <= 9; events: m0^2 <= 49):
  Kallen(a,b,c) of arguments <= 81 has partial sums <= 3*81^2 = 19 683; Kibble = Kallen of three
  such values: partial sums <= 3*6561^2 = 1.3e8; PDG: |4 s1 s2 - mid4| <= 39 366, square <= 1.55e9,
  4 L1 L2 <= 1.7e8.  Angles (m0^2 <= 49): numerators <= 2*49^2 + ... < 46 340 (guarded in the trace
  specification), Kallen factors <= 2401, products of two <= 5.8e6, N*K <= 1.2e7."""
from __future__ import annotations

import itertools
import random
from fractions import Fraction

INT_MAX = 2**31 - 1

# ---- exact encoders -----------------------------------------------------------------------


def clamp(n: int) -> int:
    return max(-INT_MAX, min(INT_MAX, int(n)))


def enc_rat(v) -> list[int]:
    """SymPy/Fraction/int rational -> [num, den] (den > 0); values that do not fit 32 bits are
    clamped to +/-INT_MAX/1 (keeps the sign, can only fail an equality)."""
    f = Fraction(int(v.p), int(v.q)) if hasattr(v, "p") and hasattr(v, "q") else Fraction(v)
    if abs(f.numerator) >= INT_MAX or f.denominator >= INT_MAX:
        return [INT_MAX if f > 0 else -INT_MAX, 1]
    return [f.numerator, f.denominator]


def enc_val(v) -> list[int]:
    """indicator / outside value -> [t, num, den]: t = 0 rational, 1 NaN, 2 anything else."""
    import sympy as sp

    v = sp.sympify(v)
    if v is sp.nan:
        return [1, 0, 1]
    if v.is_Rational:
        n, d = enc_rat(v)
        return [0, n, d]
    return [2, 0, 1]


# ---- four-vectors ---------------------------------------------------------------------------


def dot(p, q) -> int:
    return p[0] * q[0] - p[1] * q[1] - p[2] * q[2] - p[3] * q[3]


def vadd(*ps):
    return tuple(sum(c) for c in zip(*ps))


def lattice_vectors(emax: int = 3, pmax: int = 2) -> list[tuple]:
    out = []
    for e in range(1, emax + 1):
        for x, y, z in itertools.product(range(-pmax, pmax + 1), repeat=3):
            if e * e - x * x - y * y - z * z >= 0:
                out.append((e, x, y, z))
    return out


def parallel(p, q) -> bool:
    return all(p[a] * q[b] == p[b] * q[a] for a in range(4) for b in range(a + 1, 4))


def invariants(ev):
    """(M, S): M = (m0^2, m1^2, m2^2, m3^2), S = (s1, s2, s3)."""
    p1, p2, p3 = ev
    tot = vadd(p1, p2, p3)
    M = (dot(tot, tot), dot(p1, p1), dot(p2, p2), dot(p3, p3))
    q1, q2, q3 = vadd(p2, p3), vadd(p1, p3), vadd(p1, p2)
    return M, (dot(q1, q1), dot(q2, q2), dot(q3, q3))


def kallen(x, y, z):
    return x * x + y * y + z * z - 2 * x * y - 2 * y * z - 2 * z * x


def collinear_in_parent(ev) -> bool:
    """The three momenta are collinear in the parent rest frame (Dalitz boundary)."""
    p1, p2, p3 = ev
    tot = vadd(p1, p2, p3)

    def g(a, b):
        return dot(tot, a) * dot(tot, b) - dot(tot, tot) * dot(a, b)

    return g(p1, p1) * g(p2, p2) == g(p1, p2) ** 2


def event_class(ev) -> tuple:
    M, S = invariants(ev)
    return (
        sum(1 for m in M[1:] if m == 0),  # massless particles
        len(set(M[1:])),  # 1 = all equal, 2 = two equal
        collinear_in_parent(ev),
        any(vadd(*ev)[1:]),  # parent moving in the lattice frame
    )


def gen_events(n: int, rng: random.Random, max_m0sq: int = 49) -> list[tuple]:
    """n distinct physical lattice events, stratified over (massless count, mass pattern, on the
    boundary, moving parent) so that massless / equal-mass / boundary configurations are present."""
    vecs = lattice_vectors()
    by_class: dict[tuple, list] = {}
    seen = set()
    tries = 0
    while tries < 60 * n and len(seen) < 8 * n:
        tries += 1
        ev = (rng.choice(vecs), rng.choice(vecs), rng.choice(vecs))
        if ev in seen:
            continue
        M, S = invariants(ev)
        if not (0 < M[0] <= max_m0sq):
            continue
        if parallel(ev[0], ev[1]) and parallel(ev[1], ev[2]) and parallel(ev[0], ev[2]):
            continue  # threshold: m0 = m1 + m2 + m3 (outside the property's quantifier)
        seen.add(ev)
        by_class.setdefault(event_class(ev), []).append(ev)
    out = []
    classes = sorted(by_class)
    while len(out) < n and any(by_class[c] for c in classes):
        for c in classes:
            if by_class[c] and len(out) < n:
                out.append(by_class[c].pop())
    return out


# ---- integer mass configurations and their bounding boxes -------------------------------------


def mass_configs(max_m0: int) -> list[tuple]:
    return [
        (m0, m1, m2, m3)
        for m0 in range(1, max_m0 + 1)
        for m1 in range(m0)
        for m2 in range(m0)
        for m3 in range(m0)
        if m1 + m2 + m3 < m0
    ]


QUICK_CONFIGS = [
    (1, 0, 0, 0), (2, 0, 0, 1), (3, 1, 1, 0), (4, 1, 1, 1), (5, 0, 0, 0), (5, 2, 1, 1), (6, 2, 2, 1),
    (6, 0, 2, 3), (6, 3, 1, 1), (7, 2, 2, 2), (7, 1, 0, 0), (7, 3, 2, 1), (7, 0, 3, 3), (6, 1, 2, 0),
]


def box(m) -> tuple[range, range]:
    m0, m1, m2, m3 = m
    return range((m2 + m3) ** 2, (m0 - m1) ** 2 + 1), range((m1 + m3) ** 2, (m0 - m2) ** 2 + 1)


def kibble_int(s1, s2, M) -> int:
    """Used by the generators only (to find physical / boundary-adjacent lattice points)."""
    s3 = sum(M) - s1 - s2
    return kallen(kallen(s2, M[2], M[0]), kallen(s3, M[3], M[0]), kallen(s1, M[1], M[0]))


def dalitz_points(m) -> list[tuple[int, int, str]]:
    """Physical integer points (s1, s2) of configuration m with a tag: 'boundary' (Kibble = 0),
    'adjacent' (a lattice neighbour is outside), 'interior'."""
    M = tuple(x * x for x in m)
    r1, r2 = box(m)
    out = []
    for s1 in r1:
        for s2 in r2:
            k = kibble_int(s1, s2, M)
            if k > 0:
                continue
            if k == 0:
                tag = "boundary"
            elif any(kibble_int(s1 + a, s2 + b, M) > 0 or not (s1 + a in r1 and s2 + b in r2) for a, b in ((1, 0), (-1, 0), (0, 1), (0, -1))):
                tag = "adjacent"
            else:
                tag = "interior"
            out.append((s1, s2, tag))
    return out


def chunks(seq, n):
    for i in range(0, len(seq), n):
        yield seq[i : i + n]
