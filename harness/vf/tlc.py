"""TLC runner: runs a specification under /verif/spec with a configuration, parses the
result (state counts, invariant / property / postcondition verdicts, PrintT values,
per-action coverage).  Machinery failures raise TLCFailure (exit code 2 at the CLI)."""
from __future__ import annotations

import os
import re
import shutil
import subprocess
import tempfile
import time
from dataclasses import dataclass, field
from pathlib import Path

from . import tlaval

SPEC_DIR = Path(__file__).resolve().parents[2] / "spec"
CP = "/opt/veriftools/tla/tla2tools.jar:/opt/veriftools/tla/CommunityModules-deps.jar"


class TLCFailure(RuntimeError):
    """TLC could not decide (parse error, crash, timeout, overflow): never a verdict."""


@dataclass
class TLCResult:
    ok: bool  # no invariant/property/postcondition violation reported
    generated: int = 0
    distinct: int = 0
    depth: int = 0
    violated: list[str] = field(default_factory=list)  # names of violated invariants/props
    prints: list = field(default_factory=list)  # parsed PrintT values
    coverage: dict[str, int] = field(default_factory=dict)  # action -> times taken
    error_trace: list[str] = field(default_factory=list)  # raw text of counterexample states
    raw: str = ""
    wall_s: float = 0.0
    cmd: str = ""


_ERR_INV = re.compile(r"Error: Invariant (\S+) is violated")
_ERR_PROP = re.compile(r"Error: (?:Action|Temporal) property (\S+) (?:is|was) violated")
_ERR_PROP2 = re.compile(r"Error: Temporal properties were violated")
_ERR_POST = re.compile(r"(?:Error: )?(?:The )?[Pp]ostcondition (\S+)? ?.*(violated|false)", re.I)
_STATES = re.compile(r"(\d+) states generated, (\d+) distinct states found")
_DEPTH = re.compile(r"The depth of the complete state graph search is (\d+)")
_COV = re.compile(r"^<(\w+) line (\d+), col \d+ to line \d+, col \d+ of module (\w+)(?: \([\d ]+\))?>: (\d+):(\d+)")


def _java_cmd(workers: int, fast_start: bool, heap: str, depth_first: bool, tmpdir: str | None = None) -> list[str]:
    cmd = ["java"]
    if fast_start:
        cmd += ["-XX:+UseSerialGC", "-XX:TieredStopAtLevel=1"]
    else:
        cmd += ["-XX:+UseParallelGC"]
    cmd += [f"-Xmx{heap}", "-Xss64m"]
    if depth_first:
        cmd += ["-Dtlc2.tool.queue.IStateQueue=StateDeque"]
    if tmpdir:
        cmd += [f"-Djava.io.tmpdir={tmpdir}"]  # TLC unpacks its standard modules there: keep it inside the scratch dir
    cmd += ["-cp", CP, "tlc2.TLC"]
    return cmd


def run(
    module: str,
    cfg_text: str,
    *,
    workers: int = 1,
    env: dict[str, str] | None = None,
    timeout: int = 900,
    coverage: bool = False,
    simulate: str | None = None,
    depth: int | None = None,
    seed: int | None = None,
    dump_dot: str | None = None,
    fast_start: bool = True,
    heap: str = "6g",
    depth_first: bool = False,
    extra: tuple[str, ...] = (),
    keep_raw: bool = True,
) -> TLCResult:
    """Run TLC on /verif/spec/<module>.tla with the given configuration text."""
    spec = SPEC_DIR / f"{module}.tla"
    if not spec.exists():
        raise TLCFailure(f"missing specification {spec}")
    tmp = Path(tempfile.mkdtemp(prefix="vf_tlc_"))
    try:
        cfg = tmp / f"{module}.cfg"
        cfg.write_text(cfg_text)
        (tmp / "jtmp").mkdir(exist_ok=True)
        cmd = _java_cmd(workers, fast_start, heap, depth_first, str(tmp / "jtmp"))
        cmd += ["-workers", str(workers), "-metadir", str(tmp / "meta"), "-noGenerateSpecTE"]
        cmd += ["-config", str(cfg)]
        if coverage:
            cmd += ["-coverage", "1"]
        if simulate is not None:
            cmd += ["-simulate", simulate]
        if depth is not None:
            cmd += ["-depth", str(depth)]
        if seed is not None:
            cmd += ["-seed", str(seed)]
        if dump_dot is not None:
            cmd += ["-dump", "dot,actionlabels", dump_dot]
        cmd += list(extra)
        cmd += [str(spec)]
        full_env = dict(os.environ)
        full_env.pop("JAVA_TOOL_OPTIONS", None)
        if env:
            full_env.update(env)
        t0 = time.time()
        try:
            proc = subprocess.run(
                cmd, cwd=SPEC_DIR, env=full_env, capture_output=True, text=True, timeout=timeout
            )
        except subprocess.TimeoutExpired as e:
            subprocess.run(["pkill", "-f", str(tmp)], check=False)
            raise TLCFailure(f"TLC timed out after {timeout}s on {module}") from e
        out = proc.stdout + proc.stderr
        res = parse_output(out)
        res.wall_s = time.time() - t0
        res.cmd = " ".join(cmd[cmd.index("tlc2.TLC") :])
        if not keep_raw:
            res.raw = res.raw[-4000:]
        return res
    finally:
        shutil.rmtree(tmp, ignore_errors=True)


def parse_output(out: str) -> TLCResult:
    res = TLCResult(ok=True, raw=out)
    lines = out.splitlines()
    violated = []
    for ln in lines:
        m = _ERR_INV.search(ln)
        if m:
            violated.append(m.group(1))
        m = _ERR_PROP.search(ln)
        if m:
            violated.append(m.group(1))
        if _ERR_PROP2.search(ln):
            violated.append("<temporal>")
        if "ostcondition" in ln and ("violated" in ln or "false" in ln.lower()):
            violated.append("<postcondition>")
        m = _STATES.search(ln)
        if m:
            res.generated, res.distinct = int(m.group(1)), int(m.group(2))
        m = _DEPTH.search(ln)
        if m:
            res.depth = int(m.group(1))
        if ln.startswith("The coverage statistics at"):
            res.coverage = {}  # periodic dumps: keep the last (cumulative) one only
        m = _COV.match(ln)
        if m:
            res.coverage[m.group(1)] = res.coverage.get(m.group(1), 0) + int(m.group(4))
    res.violated = violated
    res.ok = not violated
    # anything TLC calls an error that is not a recognised verdict is a machinery failure
    err_lines = [x for x in lines if x.startswith("Error:") or x.startswith("*** Errors:") or x.startswith("Exception in thread") or "java.lang." in x[:60]]
    if not violated and err_lines:
        idx = out.find("Error:")
        idx = idx if idx >= 0 else max(out.find("*** Errors:"), out.find("Exception"))
        raise TLCFailure(f"TLC failure: {out[max(0, idx - 300) : idx + 2500]}")
    if not violated and "Model checking completed. No error has been found." not in out and (
        "Finished in" not in out
    ):
        raise TLCFailure(f"TLC did not finish normally:\n{out[-3000:]}")
    if violated:
        # raw counterexample text
        start = out.find("Error:")
        res.error_trace = out[start : start + 20000].splitlines()
    res.prints = tlaval.extract_prints(lines)
    return res


def sany(module: str) -> None:
    spec = SPEC_DIR / f"{module}.tla"
    proc = subprocess.run(
        ["java", "-cp", CP, "tla2sany.SANY", str(spec)], cwd=SPEC_DIR, capture_output=True, text=True
    )
    out = proc.stdout + proc.stderr
    if "Semantic errors" in out or "***Parse Error***" in out or "Fatal" in out or proc.returncode != 0:
        raise TLCFailure(f"SANY rejects {module}:\n{out[-3000:]}")


_HDR = re.compile(r"^\\\* <(\w+)(?:\((.*)\))? line \d+, col \d+ to line \d+, col \d+ of module (\w+)>", re.M)


def parse_behaviour(text: str, with_states: bool = True) -> list[dict]:
    """One `-simulate file=` module -> [{"action", "args", "state"}]."""
    steps = []
    heads = list(_HDR.finditer(text))
    for i, h in enumerate(heads):
        body = text[h.end() : heads[i + 1].start() if i + 1 < len(heads) else len(text)]
        args = ()
        if h.group(2):
            args = tlaval.parse("<<" + h.group(2) + ">>")
        state = {}
        if with_states:
            eq = body.find("==")
            blk = body[eq + 2 :]
            blk = blk.split("\n====")[0]
            parts = re.split(r"^/\\ ", blk, flags=re.M)
            for part in parts:
                part = part.strip()
                if not part:
                    continue
                var, _, val = part.partition(" = ")
                state[var.strip()] = tlaval.parse(val.strip())
        steps.append({"action": h.group(1), "args": args, "state": state})
    return steps


def simulate(module: str, cfg_text: str, *, num: int, depth: int, seed: int, timeout: int = 600,
             with_states: bool = True, env: dict | None = None) -> list[list[dict]]:
    """Random behaviours of the specification (tlc -simulate), parsed."""
    tmp = Path(tempfile.mkdtemp(prefix="vf_sim_"))
    try:
        res = run(module, cfg_text, workers=1, simulate=f"file={tmp}/b,num={num}", depth=depth, seed=seed,
                  timeout=timeout, env=env)
        if not res.ok:
            raise TLCFailure(f"simulation of {module} reported {res.violated}")
        out = []
        for f in sorted(tmp.glob("b_*"), key=lambda p: [int(x) for x in re.findall(r"\d+", p.name)]):
            out.append(parse_behaviour(f.read_text(), with_states))
        return out
    finally:
        shutil.rmtree(tmp, ignore_errors=True)


def apalache(module: str, *, init: str, inv: str, length: int, timeout: int = 1200) -> tuple[bool, str]:
    """apalache-mc check --init --inv --length on /verif/spec/<module>.tla -> (no error found, tail of output).
    Used for inductive-invariant obligations (unbounded in the length of the history)."""
    tmp = Path(tempfile.mkdtemp(prefix="vf_apa_"))
    try:
        cmd = ["apalache-mc", "check", f"--init={init}", f"--inv={inv}", f"--length={length}", f"--out-dir={tmp}/out", f"--run-dir={tmp}/run", str(SPEC_DIR / f"{module}.tla")]
        env = dict(os.environ, TMPDIR=str(tmp))
        try:
            proc = subprocess.run(cmd, cwd=tmp, capture_output=True, text=True, timeout=timeout, env=env)
        except subprocess.TimeoutExpired as e:
            raise TLCFailure(f"apalache timed out on {module} ({init} => {inv})") from e
        out = proc.stdout + proc.stderr
        if "The outcome is: NoError" in out:
            return True, out[-400:]
        if "The outcome is: Error" in out:
            return False, out[-1500:]
        raise TLCFailure(f"apalache failed on {module}: {out[-2000:]}")
    finally:
        shutil.rmtree(tmp, ignore_errors=True)
