"""Executor of ModelOps (spec/ModelOps.tla) on REAL HelicityModels — property C17.

Run as a subprocess (`python -m vf.modelops_exec`, job JSON on stdin, result JSON on stdout)
so that each model is handled by its own interpreter, with the ampform tree selected by
PYTHONPATH (VERIF_REPO_SRC for mutation experiments).

For one real model the worker
  1. builds it (qrules reaction pickled under /verif/.cache/c17 — it does not depend on /repo),
  2. projects it to the symbol-level state of ModelOps (symbols = [name id, assumption tag]),
  3. binds the C17 map alphabet to concrete symbols of this model *by role*,
  4. lets TLC enumerate the full rename graph of ModelOps_Real on that projection
     (`-dump dot,actionlabels`) and simulate mixed histories (`-simulate`), TLC checking the
     same invariants and action laws as on the abstract model,
  5. executes every transition TLC chose on the real object, projects the result and compares
     it with the specification state of the target node / next simulated state (G / S binding),
     compares every attribute with `xreplace` of the receiver by the same symbol map (the
     property's definition, on real objects), checks the receiver object is unchanged,
  6. logs (projection before, map, projection after) records for Trace_ModelOps (T binding),
  7. evaluates renamed models numerically against the original (O, observation).
Nothing here decides the property: mismatches are reported to the driver (props/c17.py),
which lets the trace specification name the violated clause.
"""
from __future__ import annotations

import json
import logging
import os
import pickle
import random
import re
import shutil
import sys
import tempfile
import time
from pathlib import Path

ROOT = Path(__file__).resolve().parents[2]
CACHE = ROOT / ".cache" / "c17"

MODELS = {
    # name: (reaction, formalism, dynamics, stable ids, DPD reference)
    "dyn-can": ("jpsi-f0", "canonical-helicity", True, False, None),
    "stable-dyn-hel": ("jpsi-f0", "helicity", True, True, None),
    "plain-hel": ("jpsi-f0", "helicity", False, False, None),
    "plain-can": ("jpsi-f0", "canonical-helicity", False, False, None),
    "stable-plain-can": ("jpsi-f0", "canonical-helicity", False, True, None),
    "dpd-stable-dyn-can": ("jpsi-ksp", "canonical-helicity", True, True, 1),
    # an incomplete helicity set: two of the four amplitudes the intensity sums over are defined as zero (no free symbols)
    "zeroamp-hel": ("etac-ll", "helicity", False, False, None),
}
REACTIONS = {
    "jpsi-f0": dict(initial_state=[("J/psi(1S)", [-1, 1])], final_state=["gamma", "pi0", "pi0"],
                    allowed_intermediate_particles=["f(0)(980)"], allowed_interaction_types="strong"),
    "etac-ll": dict(initial_state="eta(c)(1S)", final_state=["Lambda", "Lambda~"], allowed_interaction_types="strong"),
    "jpsi-ksp": dict(initial_state=[("J/psi(1S)", [-1, 1])], final_state=["K0", "Sigma+", "p~"],
                     allowed_intermediate_particles=["Sigma(1660)~-"], allowed_interaction_types=["strong"]),
}


# ------------------------------------------------------------------------------------------
# building real models
# ------------------------------------------------------------------------------------------
def load_reaction(key: str, formalism: str):
    import qrules

    CACHE.mkdir(parents=True, exist_ok=True)
    fn = CACHE / f"{key}_{formalism}_qrules{qrules.__version__ if hasattr(qrules, '__version__') else ''}.pkl"
    if fn.exists():
        try:
            return pickle.loads(fn.read_bytes())
        except Exception:  # noqa: BLE001  (a stale / truncated cache file is simply regenerated)
            pass
    reaction = qrules.generate_transitions(formalism=formalism, **REACTIONS[key])
    tmp = fn.with_suffix(f".{os.getpid()}.tmp")
    tmp.write_bytes(pickle.dumps(reaction))
    os.replace(tmp, fn)
    return reaction


def build_model(name: str):
    from ampform import get_builder
    from ampform.dynamics.builder import create_relativistic_breit_wigner_with_ff

    rkey, formalism, dynamics, stable, dpd = MODELS[name]
    reaction = load_reaction(rkey, formalism)
    if dpd is not None:
        from ampform.helicity.align.dpd import DalitzPlotDecomposition, relabel_edge_ids

        reaction = relabel_edge_ids(reaction)
    builder = get_builder(reaction)
    if dpd is not None:
        builder.config.spin_alignment = DalitzPlotDecomposition(reference_subsystem=dpd)
    if stable:
        builder.config.stable_final_state_ids = set(reaction.final_state)
    if dynamics:
        for pname in reaction.get_intermediate_particles().names:
            builder.dynamics.assign(pname, create_relativistic_breit_wigner_with_ff)
    return builder.formulate()


# ------------------------------------------------------------------------------------------
# abstraction: real model -> symbol-level state of ModelOps
# ------------------------------------------------------------------------------------------
class Abstraction:
    """Tables real name <-> short id, assumption set <-> tag, value <-> value id."""

    def __init__(self):
        import sympy as sp

        self.sp = sp
        self.name_id: dict[str, str] = {}
        self.id_name: dict[str, str] = {}
        self.tag_of: dict[frozenset, str] = {}
        self.tag_assumptions: dict[str, dict] = {}
        self.value_id: dict[tuple, int] = {}
        self.id_value: dict[int, object] = {}
        self.amp_id: dict[str, str] = {}
        self.comp_id: dict[str, str] = {}
        for label, kw in (("none", {}), ("re", {"real": True}), ("nn", {"nonnegative": True}), ("pos", {"positive": True})):
            s = sp.Symbol("x", **kw)
            self.tag_of[frozenset(s.assumptions0.items())] = label
            self.tag_assumptions[label] = dict(s.assumptions0)

    def nid(self, name: str) -> str:
        if name not in self.name_id:
            i = f"n{len(self.name_id)}"
            self.name_id[name] = i
            self.id_name[i] = name
        return self.name_id[name]

    def tag(self, s) -> str:
        key = frozenset(s.assumptions0.items())
        if key not in self.tag_of:
            t = f"t{len(self.tag_of)}"
            self.tag_of[key] = t
            self.tag_assumptions[t] = dict(s.assumptions0)
        return self.tag_of[key]

    def sym(self, s) -> dict:
        return {"name": self.nid(s.name), "tag": self.tag(s)}

    def real_symbol(self, rec: dict):
        return self.sp.Symbol(self.id_name[rec["name"]], **self.tag_assumptions[rec["tag"]])

    def vid(self, v) -> int:
        key = (type(v).__name__, repr(v))
        if key not in self.value_id:
            i = len(self.value_id) + 1
            self.value_id[key] = i
            self.id_value[i] = v
        return self.value_id[key]

    def register_keys(self, model):
        for i, k in enumerate(model.amplitudes):
            self.amp_id[str(k)] = f"a{i}"
        for i, k in enumerate(model.components):
            self.comp_id[k] = f"c{i}"


_EXPR_CACHE: dict[int, tuple] = {}


def expression_of(model):
    """model.expression (recomputed by the property on every access) cached per object."""
    hit = _EXPR_CACHE.get(id(model))
    if hit is None or hit[0] is not model:
        hit = (model, model.expression)
        _EXPR_CACHE[id(model)] = hit
    return hit[1]


def plain_symbols(expr):
    """Free sp.Symbol atoms of an expression, without the labels of IndexedBase objects
    (the `A` of the amplitude symbols A[...] is not a symbol of the model)."""
    import sympy as sp

    labels = {b.label for b in expr.atoms(sp.IndexedBase)}
    return {s for s in expr.free_symbols if isinstance(s, sp.Symbol)} - labels


def four_momenta(model):
    from sympy.tensor.array.expressions import ArraySymbol

    out = set()
    for v in model.kinematic_variables.values():
        for a in v.atoms(ArraySymbol):
            out.add(a.name)
    return out


def _sorted(ab: Abstraction, syms) -> list:
    return sorted((ab.sym(s) for s in syms), key=lambda r: (int(r["name"][1:]), r["tag"]))


def project(model, ab: Abstraction) -> dict:
    """The abstraction function of ModelOps."""
    amps = {}
    for k, v in model.amplitudes.items():
        amps[ab.amp_id.get(str(k), "UNKNOWNKEY_" + str(len(amps)))] = _sorted(ab, plain_symbols(v))
    comps = {}
    for k, v in model.components.items():
        comps[ab.comp_id.get(k, "UNKNOWNKEY_" + str(len(comps)))] = _sorted(ab, plain_symbols(v))
    return {
        "intensity": _sorted(ab, plain_symbols(model.intensity)),
        "amps": amps,
        "comps": comps,
        "expr": _sorted(ab, plain_symbols(expression_of(model))),
        "pkeys": [ab.sym(k) for k in model.parameter_defaults],
        "pvals": [ab.vid(v) for v in model.parameter_defaults.values()],
        "kin": [{"key": ab.sym(k), "def": _sorted(ab, plain_symbols(v))} for k, v in model.kinematic_variables.items()],
        "p4": _sorted(ab, four_momenta(model)),
    }


def param_views(model, ab: Abstraction) -> dict:
    """parameter_defaults read through each of its three views (symbol, name, index);
    a lookup that raises KeyError is recorded as -1."""
    pv = model.parameter_defaults
    keys = list(pv)

    def get(k):
        try:
            return ab.vid(pv[k])
        except KeyError:
            return -1

    return {
        "symbol": [get(k) for k in keys],
        "name": [get(k.name) for k in keys],
        "index": [get(i) for i in range(len(keys))],
        "len": len(pv),
        "items": [ab.vid(v) for v in pv.values()],
    }


# canonical (hashable) forms shared by projections and parsed TLC states
def _fs(rec) -> tuple:
    if isinstance(rec, dict):
        return (("name", rec["name"]), ("tag", rec["tag"]))
    return tuple(rec)


def canon_projection(p: dict) -> dict:
    return {
        "intensity": frozenset(_fs(s) for s in p["intensity"]),
        "amps": {k: frozenset(_fs(s) for s in v) for k, v in p["amps"].items()},
        "comps": {k: frozenset(_fs(s) for s in v) for k, v in p["comps"].items()},
        "expr": frozenset(_fs(s) for s in p["expr"]),
        "pkeys": tuple(_fs(s) for s in p["pkeys"]),
        "pvals": tuple(p["pvals"]),
        "kin": {_fs(e["key"]): frozenset(_fs(s) for s in e["def"]) for e in p["kin"]},
        "p4": frozenset(_fs(s) for s in p["p4"]),
    }


def canon_spec_model(m: dict) -> dict:
    """A model record as parsed from TLC output by vf.tlaval -> same shape as canon_projection."""

    def fset(x):
        return frozenset(_fs(dict(s)) if not isinstance(s, dict) else _fs(s) for s in x) if x else frozenset()

    def fmap(x):
        if not x:
            return {}
        return {k: fset(v) for k, v in x.items()}

    kin = {}
    if m["kin"]:
        for k, v in m["kin"].items():
            kin[_fs(dict(k)) if not isinstance(k, dict) else _fs(k)] = fset(v)
    return {
        "intensity": fset(m["intensity"]),
        "amps": fmap(m["amps"]),
        "comps": fmap(m["comps"]),
        "expr": fset(m["expr"]),
        "pkeys": tuple(_fs(s) for s in m["pkeys"]),
        "pvals": tuple(m["pvals"]),
        "kin": kin,
        "p4": fset(m["p4"]),
    }


def diff_fields(a: dict, b: dict) -> list[str]:
    return [k for k in ("intensity", "amps", "comps", "expr", "pkeys", "pvals", "kin", "p4") if a[k] != b[k]]


# ------------------------------------------------------------------------------------------
# binding the map alphabet by role
# ------------------------------------------------------------------------------------------
def bind_roles(model, ab: Abstraction):
    """Choose concrete symbols of this model for the roles of the C17 alphabet.
    Returns (roles: role -> real name, maps: map id -> [(old real name, new real name)])."""
    params = list(model.parameter_defaults)
    vals = dict(model.parameter_defaults)
    expr = plain_symbols(expression_of(model))
    kindef = set()
    for v in model.kinematic_variables.values():
        kindef |= plain_symbols(v)
    kinkeys = list(model.kinematic_variables)
    in_expr = [p for p in params if p in expr]
    ghosts = [p for p in params if p not in expr and p not in kindef]
    kindef_only = [p for p in params if p not in expr and p in kindef]
    roles: dict[str, str] = {}
    maps: dict[str, list] = {}

    def pick_pair(cands, unequal: bool):
        for i, a in enumerate(cands):
            for b in cands[i + 1 :]:
                if ab.tag(a) == ab.tag(b) and ((vals[a] != vals[b]) if unequal else True):
                    return a, b
        return None

    pair = pick_pair(in_expr, True) or pick_pair(in_expr, False) or pick_pair(params, True) or pick_pair(params, False)
    if in_expr:
        a0 = in_expr[-1]  # a coefficient when there is one (parameters are sorted: C_ sorts after Gamma, d, m of the resonance)
        coefs = [p for p in in_expr if p.name.startswith("C_")]
        if coefs:
            a0 = coefs[0]
        roles["parameter_in_expression"] = a0.name
        maps["inj"] = [(a0.name, "X_{inj}")]
        maps["injback"] = [("X_{inj}", a0.name)]
        maps["ident"] = [(a0.name, a0.name)]
    if pair:
        a, b = pair
        roles["coupled_a"], roles["coupled_b"] = a.name, b.name
        maps["merge"] = [(a.name, "X_{merged}"), (b.name, "X_{merged}")]
        maps["chain"] = [(a.name, b.name)]
        maps["chain2"] = [(a.name, b.name), (b.name, "X_{w}")]
        maps["swap"] = [(a.name, b.name), (b.name, a.name)]
    masses = [p for p in in_expr if p.name.startswith("m_")]
    if masses:
        roles["mass"] = masses[0].name
    kin_in_expr = [k for k in kinkeys if k in expr]
    kv = next((k for k in kin_in_expr if k.name.startswith("m_")), None) or (kin_in_expr[0] if kin_in_expr else None)
    if kv is not None:
        roles["kinematic_variable"] = kv.name
        maps["kinv"] = [(kv.name, "X_{kin}")]
    if kindef_only:
        roles["parameter_in_kinematic_definition_only"] = kindef_only[0].name
        maps["kindef"] = [(kindef_only[0].name, "X_{kindef}")]
    elif [p for p in params if p in kindef]:
        p = [p for p in params if p in kindef][0]
        roles["parameter_in_kinematic_definition"] = p.name
        maps["kindef"] = [(p.name, "X_{kindef}")]
    # a kinematic variable that occurs in the intensity itself (alignment angles of an aligned model)
    kin_in_intensity = [k for k in kinkeys if k in plain_symbols(model.intensity)]
    if kin_in_intensity:
        roles["kinematic_variable_in_intensity"] = kin_in_intensity[0].name
        maps["kinint"] = [(kin_in_intensity[0].name, "X_{kinint}")]
    # a four-momentum symbol (occurs in the definitions of the kinematic variables only)
    p4 = sorted(four_momenta(model), key=lambda s: s.name)
    if p4:
        roles["four_momentum"] = p4[-1].name
        maps["p4"] = [(p4[-1].name, "X_{q}")]
    maps["empty"] = []
    maps["unknown"] = [("non-existent", "X_{y}")]
    # the name of an amplitude symbol's base: amplitudes are bound (keys of model.amplitudes), not symbols of the model - for
    # rename_symbols this is an unknown name like any other
    amp_bases = sorted({str(k.base) for k in model.amplitudes})
    if amp_bases:
        roles["amplitude_base_name"] = amp_bases[-1]
        maps["ampbase"] = [(amp_bases[-1], "B_{0}")]
    if ghosts:
        roles["parameter_only_in_parameter_defaults"] = ghosts[0].name
        maps["ghost"] = [(ghosts[0].name, "X_{ghost}")]
    # rename every parameter at once (the upstream test does this)
    maps["all"] = [(p.name, "{" + p.name + R"}_\mathrm{renamed}") for p in params]
    # inadmissible maps: the specification predicts exactly what they break
    for i, a in enumerate(params):
        b = next((b for b in params[i + 1 :] if ab.tag(a) != ab.tag(b)), None)
        if b is not None:
            roles["tagmerge_a"], roles["tagmerge_b"] = a.name, b.name
            maps["tagmerge"] = [(a.name, b.name)]
            break
    for p in params:
        k = next((k for k in kinkeys if ab.tag(k) == ab.tag(p)), None)
        if k is not None:
            maps["paramkin"] = [(p.name, k.name)]
            break
    return roles, maps


CORE_MAPS = ["inj", "merge", "chain", "chain2", "swap", "kinv", "kindef", "empty", "unknown", "ident", "ghost", "injback"]


# ------------------------------------------------------------------------------------------
# the property's definition on real objects
# ------------------------------------------------------------------------------------------
def all_symbols(model) -> set:
    import sympy as sp

    out = plain_symbols(model.intensity) | plain_symbols(expression_of(model))
    for v in model.amplitudes.values():
        out |= plain_symbols(v)
    for v in model.components.values():
        out |= plain_symbols(v)
    for k, v in model.kinematic_variables.items():
        out.add(k)
        out |= plain_symbols(v)
    out |= {p for p in model.parameter_defaults if isinstance(p, sp.Symbol)}
    return out


def definitional_mismatch(pre, post, renames: dict) -> dict:
    """Attributes of `post` that differ from xreplace of `pre` by the symbol map built from
    names over ALL symbols of `pre` (same assumptions): attribute -> list of (got, expected)
    expression pairs that can be adjudicated numerically, or None when the difference is not
    one between two expressions (different keys, different parameter values)."""
    import sympy as sp

    smap = {s: sp.Symbol(renames[s.name], **s.assumptions0) for s in all_symbols(pre) if s.name in renames}
    bad: dict = {}

    def cmp_map(attr, got: dict, exp: dict, same_order=None):
        if set(got) != set(exp) or (same_order is not None and not same_order):
            bad[attr] = None
        else:
            pairs = [(got[k], exp[k]) for k in exp if got[k] != exp[k]]
            if pairs:
                bad[attr] = pairs

    if post.intensity != pre.intensity.xreplace(smap):
        bad["intensity"] = []  # judged through .expression
    cmp_map("amplitudes", dict(post.amplitudes), {k: v.xreplace(smap) for k, v in pre.amplitudes.items()},
            [str(k) for k in post.amplitudes] == [str(k) for k in pre.amplitudes])
    cmp_map("components", dict(post.components), {k: v.xreplace(smap) for k, v in pre.components.items()},
            list(post.components) == list(pre.components))
    cmp_map("kinematic_variables", dict(post.kinematic_variables), {smap.get(k, k): v.xreplace(smap) for k, v in pre.kinematic_variables.items()})
    order, cands = [], {}
    for k, v in pre.parameter_defaults.items():
        nk = smap.get(k, k)
        if nk not in cands:
            order.append(nk)
            cands[nk] = []
        cands[nk].append(v)
    if set(post.parameter_defaults) != set(order) or len(post.parameter_defaults) != len(order):
        bad["parameter_defaults.keys"] = None  # (order is observed behaviour: judged as drift by the trace spec)
    elif any(post.parameter_defaults[k] not in cands[k] for k in order):
        bad["parameter_defaults.values"] = None
    exp_expr = expression_of(pre).xreplace(smap)
    if expression_of(post) != exp_expr:
        bad["expression"] = [(expression_of(post), exp_expr)]
    return bad


def numerically_equal(got, exp, seed: int, npoints: int = 5, tol: float = 1e-10) -> bool:
    """Adjudication of a structural mismatch between two expressions (DESIGN 3.6): equal
    symbols and equal values on seeded points.  Four-momentum symbols get (n, 4) arrays."""
    import warnings

    import numpy as np
    import sympy as sp
    from sympy.tensor.array.expressions import ArraySymbol

    def args_of(e):
        arrs = sorted(e.atoms(ArraySymbol), key=str)
        scal = sorted(plain_symbols(e) - {a.name for a in arrs}, key=lambda x: (x.name, sorted(map(str, x.assumptions0.items()))))
        return arrs, scal

    a1, s1 = args_of(got)
    a2, s2 = args_of(exp)
    if set(a1) != set(a2) or set(s1) != set(s2):
        return False
    rng = np.random.default_rng(seed)
    vals = {a: rng.uniform(0.1, 1.0, (npoints, 4)) + np.array([3.0, 0, 0, 0]) for a in a1}
    vals.update({x: rng.uniform(0.35, 2.9, npoints) + 0j for x in s1})
    ys = []
    with warnings.catch_warnings():
        warnings.simplefilter("ignore")
        for e in (got, exp):
            try:
                f = sp.lambdify([*a1, *s1], e.doit(), "numpy", cse=True, dummify=True)
                ys.append(np.asarray(f(*[vals[x] for x in [*a1, *s1]]), dtype=complex) * np.ones(npoints))
            except Exception:  # noqa: BLE001  (e.g. an amplitude symbol without definition: the structural mismatch stands)
                return False
    fin = np.isfinite(ys[0]) & np.isfinite(ys[1])
    if not np.array_equal(np.isfinite(ys[0]), np.isfinite(ys[1])) or not fin.any():
        return False
    scale = np.maximum(np.abs(ys[1][fin]), 1e-6 * np.abs(ys[1][fin]).max() + 1e-300)
    return bool((np.abs(ys[0][fin] - ys[1][fin]) / scale).max() <= tol)


def digest(model) -> tuple:
    """Identity-free fingerprint of every attribute of a model object."""
    return (
        hash(model.intensity),
        tuple((str(k), hash(v)) for k, v in model.amplitudes.items()),
        tuple((hash(k), repr(v)) for k, v in model.parameter_defaults.items()),
        tuple((hash(k), hash(v)) for k, v in model.kinematic_variables.items()),
        tuple((k, hash(v)) for k, v in model.components.items()),
    )


class WarningCatcher(logging.Handler):
    def __init__(self):
        super().__init__(level=logging.WARNING)
        self.msgs: list[str] = []

    def emit(self, record):
        self.msgs.append(record.getMessage())


def rename_with_warnings(model, renames):
    """model.rename_symbols(renames) with the logged warnings (the CLI disables logging)."""
    logger = logging.getLogger("ampform.helicity")
    h = WarningCatcher()
    prev_disable = logging.root.manager.disable
    logging.disable(logging.NOTSET)
    prev_level, prev_prop = logger.level, logger.propagate
    logger.addHandler(h)
    logger.setLevel(logging.WARNING)
    logger.propagate = False
    try:
        new = model.rename_symbols(renames)
    finally:
        logger.removeHandler(h)
        logger.setLevel(prev_level)
        logger.propagate = prev_prop
        logging.disable(prev_disable)
    warned = []
    for m in h.msgs:
        mo = re.match(r"There is no symbol with name (.*)$", m, re.S)
        warned.append(mo.group(1) if mo else "?" + m)
    return new, warned


# ------------------------------------------------------------------------------------------
# TLC graph (dot) parsing
# ------------------------------------------------------------------------------------------
_HEAD = re.compile(r"^(-?\d+)(?: -> (-?\d+))? \[label=\"")


def _unescape(label: str) -> str:
    return label.replace("\\n", "\n").replace('\\"', '"').replace("\\\\", "\\")


def parse_state_text(text: str) -> dict:
    from . import tlaval

    state = {}
    for part in re.split(r"^/\\ ", text, flags=re.M):
        part = part.strip()
        if not part:
            continue
        var, _, val = part.partition(" = ")
        state[var.strip()] = tlaval.parse(val.strip())
    return state


def parse_dot(path: str):
    """`tlc -dump dot,actionlabels` -> (nodes: id -> state text, edges: [(src, dst, action, args)], init id).
    Every node and every edge is one line; labels are quoted with \\n, \\" and \\\\ escapes."""
    from . import tlaval

    nodes, edges, init = {}, [], None
    with open(path) as f:
        for ln in f:
            ln = ln.rstrip("\n")
            m = _HEAD.match(ln)
            if not m:
                continue
            if m.group(2) is not None:
                end = ln.rfind('",color=')
                lab = _unescape(ln[m.end() : end])
                mo = re.match(r"(\w+)(?:\((.*)\))?$", lab, re.S)
                args = tlaval.parse("<<" + mo.group(2) + ">>") if mo.group(2) else ()
                edges.append((m.group(1), m.group(2), mo.group(1), args))
            else:
                filled = ln.endswith('",style = filled]')
                end = ln.rfind('",style = filled]') if filled else ln.rfind('"]')
                tip = ln.find('",tooltip="')  # long labels are repeated as a tooltip
                if tip >= 0:
                    end = tip
                nodes[m.group(1)] = _unescape(ln[m.end() : end])
                if filled:
                    init = m.group(1)
    return nodes, edges, init


# ------------------------------------------------------------------------------------------
# the worker
# ------------------------------------------------------------------------------------------
LAWS = """INVARIANT TypeOK
INVARIANT ClosureInv
INVARIANT ConsistentInv
INVARIANT ViewsAgreeInv
INVARIANT AliasInv
PROPERTY RenameIsImage
PROPERTY AssumptionsKept
PROPERTY UnrelatedUntouched
PROPERTY OnlyCoupling
PROPERTY AdmissibleExact
PROPERTY WarnsExactly
PROPERTY OriginalUnchanged
PROPERTY ParamGetLaw
PROPERTY ParamSetLaw
"""
REAL_CFG = """SPECIFICATION {spec}
CONSTANTS
 Model0 <- RealModel
 MapTable <- RealMaps
 ExtraSyms <- RealExtraSyms
 ExtraNames <- RealExtraNames
 SetValues <- RealValues
 MaxSteps = {steps}
 Dev <- DevNone
{laws}CHECK_DEADLOCK FALSE
"""


class Worker:
    def __init__(self, job: dict):
        import attrs

        self.attrs = attrs
        self.job = job
        self.name = job["model"]
        self.tier = job["tier"]
        self.rng = random.Random(job["seed"])
        t0 = time.time()
        self.model0 = build_model(self.name)
        self.t_build = time.time() - t0
        self.ab = Abstraction()
        self.ab.register_keys(self.model0)
        self.roles, self.maps = bind_roles(self.model0, self.ab)
        only = job.get("maps")
        if only:
            self.maps = {k: v for k, v in self.maps.items() if k in only}
        self.proj0 = project(self.model0, self.ab)
        # values offered to ParamSet: two fresh ones
        self.set_values = [self.ab.vid(0.25), self.ab.vid(complex(0.5, -1.5))]
        self.records: list[dict] = []
        self.mismatches: list[dict] = []
        self.stats = {"edges": 0, "diamonds": 0, "sim_steps": 0, "renames": 0, "pickles": 0, "gets": 0, "sets": 0,
                      "keyerrors": 0, "merges": 0, "warnings": 0, "definitional_checks": 0, "receiver_checks": 0,
                      "behaviours": 0, "stopped_after_mismatch": 0}
        self.cases: set = set()
        self.samples: list = []
        self.tlc_parts: dict = {}
        self.numeric: list[dict] = []

    # -- helpers ---------------------------------------------------------------------------
    def fresh(self):
        """The model object a history starts from: own ParameterValues, shared expressions."""
        m = self.model0
        return self.attrs.evolve(m, parameter_defaults=dict(m.parameter_defaults))

    def model_file_payload(self) -> dict:
        ab = self.ab
        maps = {mid: [[ab.nid(o), ab.nid(n)] for o, n in pairs] for mid, pairs in self.maps.items()}
        first = self.proj0["pkeys"][0] if self.proj0["pkeys"] else {"name": ab.nid("non-existent"), "tag": "none"}
        wrong_tag = {"name": first["name"], "tag": "re" if first["tag"] != "re" else "none"}
        return {
            "model": self.proj0,
            "maps": maps,
            "extra_syms": [wrong_tag, {"name": ab.nid("non-existent"), "tag": "none"}],
            "extra_names": [ab.nid("non-existent")],
            "values": self.set_values,
        }

    def log(self, rec: dict) -> int:
        rec["id"] = len(self.records) + 1
        rec["model"] = self.name
        self.records.append(rec)
        return rec["id"]

    def mismatch(self, what: str, rec_id: int, **kw):
        self.mismatches.append({"kind": what, "rec": rec_id, "model": self.name, **kw})

    def real_key(self, kind: str, key):
        if kind == "symbol":
            return self.ab.real_symbol(dict(key))
        if kind == "name":
            return self.ab.id_name[key]
        return int(key)

    # -- executing one specification action on the real object -----------------------------------
    def do_rename(self, obj, orig_obj, mid: str, pre_ref: int, spec_after: dict | None, where: str):
        """-> (new object, record id, ok)"""
        pairs = self.maps[mid]
        pairs_real = pairs
        renames = dict(pairs)
        before = digest(obj)
        new, warned = rename_with_warnings(obj, pairs)
        same = digest(obj) == before
        self.stats["renames"] += 1
        self.stats["receiver_checks"] += 1
        self.stats["warnings"] += len(warned)
        post = project(new, self.ab)
        if len(post["pkeys"]) < len(self.records[pre_ref - 1]["post"]["pkeys"]):
            self.stats["merges"] += 1
        rid = self.log({
            "op": "Rename", "mid": mid, "pairs": [[self.ab.nid(o), self.ab.nid(n)] for o, n in pairs], "pre_ref": pre_ref,
            "post": post, "warned": sorted(self.ab.nid(w) for w in warned), "recv_same": 1 if same else 0,
            "returns_self": 1 if new is obj else 0, "where": where,
        })
        ok = True
        # the property's definition on the real objects
        bad = definitional_mismatch(obj, new, renames) if renames else ({} if new == obj else {"empty-map-changed-model": None})
        self.stats["definitional_checks"] += 1
        if bad:
            ok = False
            # a structural difference between two expressions with the same symbols is adjudicated
            # numerically before it is reported (an equal formula in another shape is not a defect)
            unequal = []
            for attr, expr_pairs in bad.items():
                if expr_pairs is None or any(not numerically_equal(g, e, self.job["seed"] + 3) for g, e in expr_pairs[:6]):
                    unequal.append(attr)
            if unequal and unequal != ["intensity"]:
                self.mismatch("definition", rid, mid=mid, attributes=[a for a in bad if a in unequal or a == "intensity"], pairs=pairs_real)
            else:
                self.mismatch("definition-shape", rid, mid=mid, attributes=sorted(bad), pairs=pairs_real)
        if not same:
            ok = False
            self.mismatch("receiver-modified", rid, mid=mid, pairs=pairs)
        if spec_after is not None:
            d = diff_fields(canon_projection(post), canon_spec_model(spec_after["cur"]))
            if d:
                ok = False
                self.mismatch("spec-state", rid, mid=mid, attributes=d, pairs=pairs)
            spec_warned = sorted(spec_after["last"]["warned"]) if spec_after["last"]["warned"] else []
            if spec_warned != sorted(self.ab.nid(w) for w in warned):
                ok = False
                self.mismatch("warnings", rid, mid=mid, spec=spec_warned, impl=warned, pairs=pairs)
            if bool(spec_after["aliased"]) != (new is orig_obj):
                ok = False
                self.mismatch("aliasing", rid, mid=mid, spec=bool(spec_after["aliased"]), impl=new is orig_obj, pairs=pairs)
        return new, rid, ok

    def do_pickle(self, obj, pre_ref: int, spec_after: dict | None):
        new = pickle.loads(pickle.dumps(obj))
        self.stats["pickles"] += 1
        post = project(new, self.ab)
        rid = self.log({"op": "Pickle", "pre_ref": pre_ref, "post": post, "equal": 1 if new == obj else 0})
        ok = True
        if spec_after is not None and diff_fields(canon_projection(post), canon_spec_model(spec_after["cur"])):
            ok = False
            self.mismatch("spec-state", rid, mid="pickle", attributes=diff_fields(canon_projection(post), canon_spec_model(spec_after["cur"])))
        return new, rid, ok

    def do_param(self, obj, orig_obj, op: str, arg, pre_ref: int, spec_after: dict | None):
        kind, key = arg[0], arg[1]
        rkey = self.real_key(kind, key)
        pv = obj.parameter_defaults
        orig_before = [self.ab.vid(v) for v in orig_obj.parameter_defaults.values()]
        res = {"ok": 1, "val": 0}
        try:
            if op == "ParamGet":
                res["val"] = self.ab.vid(pv[rkey])
                self.stats["gets"] += 1
            else:
                pv[rkey] = self.ab.id_value[arg[2]]
                res["val"] = arg[2]
                self.stats["sets"] += 1
        except KeyError:
            res = {"ok": 0, "val": 0}
            self.stats["keyerrors"] += 1
        views = param_views(obj, self.ab)
        jkey = dict(key) if kind == "symbol" else key
        rec = {"op": op, "kind": kind, "pre_ref": pre_ref, "res": res, "views": views,
               "pkeys": [self.ab.sym(k) for k in pv], "orig_items": [self.ab.vid(v) for v in orig_obj.parameter_defaults.values()],
               "orig_keys": [self.ab.sym(k) for k in orig_obj.parameter_defaults],
               "orig_before": orig_before, "is_orig": 1 if obj is orig_obj else 0}
        rec["key_" + kind] = jkey
        if op == "ParamSet":
            rec["value"] = arg[2]
        # the rest of the model cannot change through ParameterValues; keep the projection chain
        post = dict(self.records[pre_ref - 1]["post"])
        post["pkeys"] = rec["pkeys"]
        post["pvals"] = views["items"]
        rec["post"] = post
        rid = self.log(rec)
        ok = True
        if spec_after is not None:
            sres = spec_after["result"]
            if (1 if sres["ok"] else 0, sres["val"]) != (res["ok"], res["val"]):
                ok = False
                self.mismatch("param-result", rid, op=op, keykind=kind, key=str(rkey), spec=[bool(sres["ok"]), sres["val"]], impl=[res["ok"], res["val"]])
            cur = canon_spec_model(spec_after["cur"])
            for view in ("symbol", "name", "index", "items"):
                exp = list(cur["pvals"])
                if view == "name":
                    # by name the FIRST key with that name answers
                    first = {}
                    for i, k in enumerate(cur["pkeys"]):
                        first.setdefault(k[0][1], i)
                    exp = [cur["pvals"][first[k[0][1]]] for k in cur["pkeys"]]
                if views[view] != exp:
                    ok = False
                    self.mismatch("param-view", rid, op=op, keykind=kind, key=str(rkey), view=view, spec=exp, impl=views[view])
            if tuple(_fs(s) for s in rec["pkeys"]) != cur["pkeys"]:
                ok = False
                self.mismatch("param-keys", rid, op=op, keykind=kind, key=str(rkey))
            so = spec_after["orig"]
            if list(so["pvals"]) != rec["orig_items"] or tuple(_fs(s) for s in so["pkeys"]) != tuple(_fs(s) for s in rec["orig_keys"]):
                ok = False
                self.mismatch("original-parameters", rid, op=op, keykind=kind, key=str(rkey), spec=list(so["pvals"]), impl=rec["orig_items"])
        return obj, rid, ok

    # -- G: the full rename graph -------------------------------------------------------------------
    def run_graph(self, tlc, env, depth: int, tmp: Path):
        dot = str(tmp / "graph.dot")
        cfg = REAL_CFG.format(spec="SpecRename", steps=depth, laws=LAWS)
        res = tlc.run("ModelOps_Real", cfg, workers=int(self.job.get("tlc_workers", 1)), env=env, dump_dot=dot, timeout=3000, keep_raw=False)
        self.tlc_parts["graph"] = {"distinct": res.distinct, "generated": res.generated, "wall_s": round(res.wall_s, 2), "cmd": res.cmd,
                                   "ok": res.ok, "violated": res.violated, "error": res.error_trace[:60]}
        if not res.ok:
            return
        nodes, edges, init = parse_dot(dot)
        os.unlink(dot)
        if init is None or len(nodes) != res.distinct:
            raise RuntimeError(f"dot graph does not match TLC's count: {len(nodes)} nodes, {res.distinct} distinct states, init={init}")
        out = {}
        for s, d, a, args in edges:
            out.setdefault(s, []).append((d, a, args))
        init_state = parse_state_text(nodes[init])
        if diff_fields(canon_projection(self.proj0), canon_spec_model(init_state["cur"])):
            raise RuntimeError("initial specification state is not the projection of the model (JSON conversion broken)")
        base = self.fresh()
        root_rec = self.log({"op": "Model", "post": self.proj0, "where": "graph"})
        live = {init: (base, root_rec, ())}  # node -> (real object, record id of its projection, path)
        parsed = {init: init_state}
        queue = [init]
        while queue:
            n = queue.pop(0)
            obj, rid, path = live[n]
            for d, a, args in out.get(n, []):
                if a != "Rename":
                    raise RuntimeError(f"unexpected action {a} in the rename graph")
                if d not in parsed:
                    parsed[d] = parse_state_text(nodes[d])
                mid = args[0]
                new, nrid, ok = self.do_rename(obj, base, mid, rid, parsed[d], "graph")
                self.stats["edges"] += 1
                self.cases.add(("edge", self.name, n, mid))
                if len(self.samples) < 2 and len(path) == 1:
                    self.samples.append({"model": self.name, "graph_path": [*path, mid], "maps": {m: self.maps[m] for m in [*path, mid]},
                                         "parameters_after": [str(k) for k in new.parameter_defaults]})
                if not ok:
                    self.stats["stopped_after_mismatch"] += 1
                    continue
                if d in live:
                    # a second path into a known node: the implementation values must be EQUAL objects
                    self.stats["diamonds"] += 1
                    other = live[d][0]
                    if not (new == other):
                        self.mismatch("diamond", nrid, mid=mid, path=[*path, mid], other_path=list(live[d][2]))
                else:
                    live[d] = (new, nrid, (*path, mid))
                    queue.append(d)

    # -- S: simulated mixed histories ------------------------------------------------------------------
    def run_sim(self, tlc, env, num: int, depth: int, steps: int):
        cfg = REAL_CFG.format(spec="Spec", steps=steps, laws="")
        t0 = time.time()
        behs = tlc.simulate("ModelOps_Real", cfg, num=num, depth=depth, seed=self.job["seed"] + 17, env=env, timeout=1800)
        self.tlc_parts["simulate"] = {"behaviours": len(behs), "wall_s": round(time.time() - t0, 2)}
        for beh in behs:
            base = self.fresh()
            obj = base
            rid = self.log({"op": "Model", "post": self.proj0, "where": "simulate"})
            self.stats["behaviours"] += 1
            shape = []
            for st in beh[1:]:
                a, args, state = st["action"], st["args"], st["state"]
                self.stats["sim_steps"] += 1
                if a == "Rename":
                    obj, rid, ok = self.do_rename(obj, base, args[0], rid, state, "simulate")
                    shape.append(("R", args[0]))
                elif a == "PickleRoundTrip":
                    obj, rid, ok = self.do_pickle(obj, rid, state)
                    shape.append(("P",))
                elif a in ("ParamGet", "ParamSet"):
                    obj, rid, ok = self.do_param(obj, base, a, args[0], rid, state)
                    shape.append((a[5], args[0][0], self.records[rid - 1]["res"]["ok"]))
                else:
                    raise RuntimeError(f"unknown action {a}")
                if not ok:
                    self.stats["stopped_after_mismatch"] += 1
                    break
            self.cases.add(("sim", self.name, tuple(shape)))
            if len(self.samples) < 4 and any(s[0] == "R" for s in shape) and any(s[0] == "S" for s in shape):
                self.samples.append({"model": self.name, "simulated_history": [list(s) for s in shape]})

    # -- hand-written histories: repeated renames, rename back, warnings ---------------------------------
    def run_scripted(self):
        base = self.fresh()
        rid0 = self.log({"op": "Model", "post": self.proj0, "where": "scripted"})
        seqs = []
        if "inj" in self.maps:
            seqs.append(["inj", "injback"])
            seqs.append(["inj", "inj", "injback", "ident"])
        if "swap" in self.maps:
            seqs.append(["swap", "swap"])
        if "merge" in self.maps and "inj" in self.maps:
            seqs.append(["merge", "unknown", "empty"])
        seqs.append(["unknown"])
        seqs.append(["ampbase"])
        if "inj" in self.maps:
            seqs.append(["inj", "ampbase", "injback"])
        seqs.append(["all"])
        for seq in seqs:
            obj, rid = base, rid0
            for mid in seq:
                if mid not in self.maps:
                    break
                obj, rid, ok = self.do_rename(obj, base, mid, rid, None, "scripted")
                if not ok:
                    break
            self.cases.add(("script", self.name, tuple(seq)))
            if seq in (["inj", "injback"], ["swap", "swap"]) and not (obj == self.model0):
                self.mismatch("rename-back", rid, path=seq)
            if seq in (["unknown"], ["ampbase"], ["inj", "ampbase", "injback"]) and all(m_ in self.maps for m_ in seq) and not (obj == self.model0):
                self.mismatch("unknown-name-changed-model", rid, path=seq)

    # -- O: numeric observation ---------------------------------------------------------------------------
    def run_numeric(self, mids: list[str], npoints: int = 6):
        """Renamed model evaluated with the carried-over parameter values vs the original model
        evaluated with the same values (coupled parameters thereby get equal values), on seeded
        points of the kinematic variables.  Every free symbol is an argument of the lambdified
        expression, so the original is compiled once."""
        import numpy as np
        import sympy as sp

        def compile_model(m):
            e = expression_of(m).doit()
            args = sorted(e.free_symbols, key=lambda s: s.name)
            return args, sp.lambdify(args, e, "numpy", cse=True)

        m0 = self.model0
        mids = [mid for mid in mids if self.maps.get(mid)]
        if not mids:
            return
        kin0 = [k for k in m0.kinematic_variables if k in plain_symbols(expression_of(m0))]
        rng = np.random.default_rng(self.job["seed"] + 5)
        points = {k: (rng.uniform(0.35, 2.9, npoints) + 0j) for k in kin0}
        a0, f0 = compile_model(m0)
        for mid in mids:
            renames = dict(self.maps[mid])
            new, _ = rename_with_warnings(m0, self.maps[mid])
            smap = {s: sp.Symbol(renames[s.name], **s.assumptions0) for s in all_symbols(m0) if s.name in renames}
            inv = {}
            for k, v in smap.items():
                inv.setdefault(v, k)
            new_pars = dict(new.parameter_defaults)
            try:
                pars0 = {p: new_pars[smap.get(p, p)] for p in m0.parameter_defaults}
                a1, f1 = compile_model(new)
                y0 = np.asarray(f0(*[points[a] if a in points else pars0[a] for a in a0]), dtype=complex) * np.ones(npoints)
                y1 = np.asarray(f1(*[points[inv.get(a, a)] if inv.get(a, a) in points else new_pars[a] for a in a1]), dtype=complex) * np.ones(npoints)
            except Exception as e:  # noqa: BLE001
                self.numeric.append({"model": self.name, "mid": mid, "error": f"{type(e).__name__}: {e}"[:300]})
                continue
            finite = np.isfinite(y0) & np.isfinite(y1)
            scale = np.maximum(np.abs(y0), 1e-6 * np.abs(y0[finite]).max() + 1e-300) if finite.any() else np.ones(npoints)
            rel = np.where(finite, np.abs(y1 - y0) / scale, 0.0)
            self.numeric.append({
                "model": self.name, "mid": mid, "points": int(npoints), "finite": int(finite.sum()),
                "nan_pattern_equal": bool(np.array_equal(np.isfinite(y0), np.isfinite(y1))),
                "max_rel": float(rel.max()) if len(rel) else 0.0,
                "intensity_sample": [float(abs(y0[0]))] if finite[0] else [],
                "pairs": self.maps[mid],
            })

    # -- main ----------------------------------------------------------------------------------------------
    def run(self) -> dict:
        sys.path.insert(0, str(ROOT / "harness"))
        from vf import tlc

        tmp = Path(tempfile.mkdtemp(prefix="vf_c17_"))
        try:
            mf = tmp / "model.ndjson"
            mf.write_text(json.dumps(self.model_file_payload(), separators=(",", ":")) + "\n")
            env = {"MODEL_FILE": str(mf)}
            t = time.time()
            self.run_graph(tlc, env, int(self.job["graph_depth"]), tmp)
            t_graph = time.time() - t
            t = time.time()
            if self.job.get("sim_num", 0):
                self.run_sim(tlc, env, int(self.job["sim_num"]), int(self.job["sim_depth"]), int(self.job["sim_steps"]))
            t_sim = time.time() - t
            self.run_scripted()
            t = time.time()
            self.run_numeric(self.job.get("numeric", []))
            t_num = time.time() - t
        finally:
            shutil.rmtree(tmp, ignore_errors=True)
        return {
            "model": self.name,
            "config": dict(zip(("reaction", "formalism", "dynamics", "stable_ids", "dpd_reference"), MODELS[self.name])),
            "roles": self.roles,
            "maps": self.maps,
            "names": self.ab.id_name,
            "tags": {t: {k: v for k, v in a.items() if v} for t, a in self.ab.tag_assumptions.items()},
            "values": {str(i): repr(v) for i, v in self.ab.id_value.items()},
            "sizes": {"symbols": len(all_symbols(self.model0)), "parameters": len(self.proj0["pkeys"]), "kinematic_variables": len(self.proj0["kin"]),
                      "amplitudes": len(self.proj0["amps"]), "components": len(self.proj0["comps"])},
            "records": self.records,
            "mismatches": self.mismatches,
            "stats": self.stats,
            "cases": sorted(map(repr, self.cases)),
            "samples": self.samples,
            "tlc": self.tlc_parts,
            "numeric": self.numeric,
            "timing": {"build": round(self.t_build, 2), "graph": round(t_graph, 2), "simulate": round(t_sim, 2), "numeric": round(t_num, 2)},
        }


def main():
    job = json.loads(sys.stdin.read())
    logging.disable(logging.CRITICAL)
    out = Worker(job).run()
    sys.stdout.write("\nC17RESULT:" + json.dumps(out, default=str) + "\n")


if __name__ == "__main__":
    main()
