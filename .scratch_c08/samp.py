import sys
sys.path.insert(0, "/verif/harness")
from vf import core
from vf.props import c08
import numpy as np
mx = {}
for seed in range(6):
    chk = core.Check("C08", "thorough", seed, "model_checking")
    rec = c08.Recorder(); gen = c08.Gen(chk, rec)
    gen.sampled(40)
    for r in rec.records:
        bg = rec.meta[r["id"]]["key"]
        cur = mx.setdefault(bg, [0]*5)
        mx[bg] = [max(a,b) for a,b in zip(cur, r["r"])]
for k,v in mx.items(): print(k, v)
