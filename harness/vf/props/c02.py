"""C02 — the model intensity is the helicity formula evaluated on the transitions.

spec/Amplitude.tla generates, from the abstract transitions alone, the expected chain terms
(conj-Wigner-D per node with the angle pair named after the helicity child, two
Clebsch-Gordan factors in the canonical basis), the amplitude symbols and which chains each
one sums coherently (incl. symmetrisation over identical final-state particles);
spec/Trace_Amplitude.tla compares with the projection of the real model; a numeric
adjudication/observation layer evaluates model.expression against an independent
evaluation of the formula on seeded points."""
from __future__ import annotations

import random

import numpy as np
import sympy as sp

from .. import ampl_universe as U
from .. import ampl, ampl_run, trace
from ..core import Machinery

LEVEL = "model_checking"
META = {
    "technique": "TLA+ term generator Amplitude.tla (helicity formula from Topo) + TLC trace validation (Trace_Amplitude) of the "
    "projected chain terms / amplitude sums of real HelicityModels over a synthetic reaction universe and real qrules "
    "reactions; numeric observation law against an independent evaluation of the formula",
    "text": "The specification recomputes every Wigner-D and Clebsch-Gordan factor, the amplitude keys and the coherent groups "
    "from the abstract transitions and TLC compares them, as bags, with what the builder emitted, for hundreds of "
    "synthetic reactions with arbitrary spins/topologies/helicity sets in both formalisms. A swapped D index, wrong CG "
    "argument, dropped transition or doubled symmetrisation term changes the bag. The continuous part (all numeric "
    "points) is sampled by the observation law.",
    "note": "Trusted: TLC; the projection of flat Mul terms (vf/ampl.py); sympy's WignerD/CG evaluation for the numeric law; "
    "identification of a transition's chain through the model's named component. Bounds: <=4 final states, spins <=5/2, "
    "<=120 transitions per reaction.",
    "design_ref": "DESIGN.md §4 C02",
}


def configs(rng, reaction, label):
    yield {}
    if rng.random() < 0.3:
        yield {"insert_parent_helicities": 1}
    if rng.random() < 0.2:
        yield {"insert_child_helicities": 0}


# ---- independent numeric evaluation of the formula ---------------------------------------------------
def _wigner_d_small(j2, m2, mp2, theta):
    """Wigner small-d d^j_{m,m'}(theta) by Wigner's explicit sum (independent of sympy):
    sqrt((j+m)!(j-m)!(j+m')!(j-m')!) sum_s (-1)^(m-m'+s) cos^(2j+m'-m-2s) sin^(m-m'+2s)
    / ((j+m'-s)! s! (m-m'+s)! (j-m-s)!)   (doubled arguments)."""
    from math import factorial

    def f(x2):  # factorial of x2/2, x2 even and >= 0
        return factorial(x2 // 2)

    tot = 0.0
    for s in range(0, j2 + 1):
        a2, c2, d2 = j2 + mp2 - 2 * s, m2 - mp2 + 2 * s, j2 - m2 - 2 * s
        if a2 < 0 or c2 < 0 or d2 < 0:
            continue
        sign = -1 if ((m2 - mp2) // 2 + s) % 2 else 1
        tot += sign * np.cos(theta / 2) ** ((2 * j2 + mp2 - m2 - 4 * s) // 2) * np.sin(theta / 2) ** ((m2 - mp2 + 4 * s) // 2) / (f(a2) * factorial(s) * f(c2) * f(d2))
    return np.sqrt(f(j2 + m2) * f(j2 - m2) * f(j2 + mp2) * f(j2 - mp2)) * tot


def numeric_law(chk, cases, rng, npts):
    """model.expression vs sum over outer tuples |sum_chains coef * sign * prod D * CG|^2 computed
    from the abstract transitions with an independent Wigner-D (sympy only for CG values)."""
    from sympy.physics.quantum.cg import CG

    worst = 0.0
    done = 0
    for label, reaction, cfg, model, rec in cases:
        if model is None or cfg or done >= npts:
            continue
        if len(reaction.transitions) > 40:
            continue
        # identical final-state particles are symmetrised: covered structurally, skip numerically
        names = [s.particle.name for s in (reaction.transitions[0].states[i] for i in reaction.final_state)]
        if len(set(names)) < len(names):
            continue
        expr = model.expression
        if expr.atoms(sp.Indexed):
            continue  # undefined amplitude symbols left in the expression: C01's concern
        done += 1
        free = sorted(expr.free_symbols, key=str)
        vals = {}
        for s in free:
            if s.name.startswith("phi"):
                vals[s] = rng.uniform(-3.1, 3.1)
            elif s.name.startswith("theta"):
                vals[s] = rng.uniform(0.1, 3.0)
            elif s.name.startswith(("C_", "H_")):
                vals[s] = complex(rng.uniform(-1, 1), rng.uniform(-1, 1))
            else:
                vals[s] = rng.uniform(0.5, 2.0)
        lhs = complex(sp.N(expr.xreplace({k: (sp.Float(v) if not isinstance(v, complex) else sp.Float(v.real) + sp.I * sp.Float(v.imag)) for k, v in vals.items()}).doit()))
        # independent evaluation from rec
        byname = {s.name: v for s, v in vals.items()}
        groups = {}
        for k, tr in enumerate(rec["trs"]):
            c = rec["chains"][k]
            if not c["found"]:
                break
            amp = c["sign_num"] / c["sign_den"]
            for nm in c["coef"]:
                amp *= byname[nm]
            edges = {tuple(e["set"]): e for e in tr["edges"]}
            tree = [tuple(e["set"]) for e in tr["edges"]]
            for nd in tr["nodes"]:
                P = tuple(nd["parent"])
                kids = [s for s in tree if set(s) < set(P) and not any(set(s) < set(o) < set(P) for o in tree)]
                kids.sort()
                c1, c2 = kids
                J2, m2 = edges[P]["spin2"], edges[P]["hel2"]
                dl = edges[c1]["hel2"] - edges[c2]["hel2"]
                # angle name: helicity child, then ancestors below the root
                chain = []
                cur = P
                root = max(tree, key=len)
                while cur != root:
                    chain.append(cur)
                    cur = min((s for s in tree if set(cur) < set(s)), key=len)
                suffix = "".join(map(str, c1)) + ("^" + ",".join("".join(map(str, s)) for s in chain) if chain else "")
                phi, theta = byname["phi_" + suffix], byname["theta_" + suffix]
                amp *= np.exp(1j * (m2 / 2) * phi) * _wigner_d_small(J2, m2, dl, theta)
                if rec["canonical"]:
                    amp *= float(CG(sp.Rational(nd["L2"], 2), 0, sp.Rational(nd["S2"], 2), sp.Rational(dl, 2), sp.Rational(J2, 2), sp.Rational(dl, 2)).doit())
                    amp *= float(CG(sp.Rational(edges[c1]["spin2"], 2), sp.Rational(edges[c1]["hel2"], 2), sp.Rational(edges[c2]["spin2"], 2), sp.Rational(-edges[c2]["hel2"], 2), sp.Rational(nd["S2"], 2), sp.Rational(dl, 2)).doit())
            root = max(tree, key=len)
            leaves = sorted(s for s in tree if len(s) == 1)
            key = (edges[root]["hel2"],) + tuple(edges[s]["hel2"] for s in leaves)
            groups[key] = groups.get(key, 0) + amp
        else:
            rhs = sum(abs(a) ** 2 for a in groups.values())
            rel = abs(lhs.real - rhs) / max(abs(rhs), 1e-12)
            worst = max(worst, rel)
            chk.count(1)
            if rel > 1e-7 or abs(lhs.imag) > 1e-9 * max(1, abs(lhs.real)):
                chk.violation(
                    f"intensity-differs-from-helicity-formula:{'canonical' if rec['canonical'] else 'helicity'}",
                    f"{label}: model.expression = {lhs} but the helicity formula evaluated on the transitions gives {rhs} (rel {rel:.2e})",
                    {"label": label, "values": {str(k): str(v) for k, v in vals.items()}},
                )
    return worst, done


PER_KEY_CLAUSES = ("amplitude-keys", "zero-amplitudes-only-where-no-transition-exists", "amplitude-is-coherent-sum-of-its-chains", "intensity-component-is-partial-sum")


def unequal_identical(trs) -> bool:
    """some transition gives different projections to two final-state particles with the same name"""
    for tr in trs:
        leaves = [e for e in tr["edges"] if len(e["set"]) == 1]
        by = {}
        for e in leaves:
            by.setdefault(e["part"], set()).add(e["hel2"])
        if any(len(v) > 1 for v in by.values()):
            return True
    return False


def run(chk, replay=None):
    tier = chk.tier
    rng = random.Random(chk.seed)
    chk.assume("TLC/SANY", "projection of chain terms in vf/ampl.py", "sympy CG/WignerD numeric evaluation (numeric law only)",
               "a transition's chain is identified through the model component named by the library's name generator")
    # identical final-state particles WITH spin on different nodes (two photons): the symmetrisation has to respect which particle
    # carries which projection
    real = (ampl_run.REAL_THOROUGH if tier == "thorough" else ampl_run.REAL_QUICK) + [("psi2s_ggjpsi", "helicity")]
    cases = ampl_run.build_cases(chk, n_synth=600 if tier == "thorough" else 36, configs=configs, real=real, which={"formula"}, budget_s=900 if tier == "thorough" else 40)
    for label, reaction, cfg, model, rec in cases:
        if model is None:
            chk.violation(f"formulate-raises:{rec['error'].split(':')[0]}", f"formulate() failed for {label} cfg={cfg}: {rec['error']}", {"label": label})
    tv, drifts, byid = ampl_run.validate(chk, cases)
    ok_cases = [c for c in cases if c[3] is not None]
    chk.count(len(ok_cases))
    for c in ok_cases:
        rec = c[4]
        chk.nontrivial((rec["canonical"], len(rec["trs"]), ampl.digest(rec["trs"])))
    chk.sample({"label": ok_cases[0][0], "n_transitions": len(ok_cases[0][4]["trs"]), "first_chain": ok_cases[0][4]["chains"][0], "first_transition": ok_cases[0][4]["trs"][0]})
    chk.part("universe", models=len(ok_cases), chains=tv.stats.get("chains", 0),
             by_kind={k: sum(1 for c in ok_cases if c[0].startswith(k)) for k in ("real", "synth")})
    if tv.stats.get("chains", 0) == 0:
        raise Machinery("vacuous: no chain compared")
    for clause, rid, info in tv.rejects:
        label = byid[rid][0] if rid in byid else "?"
        kind = label.split(":")[0]
        sig = f"{clause}:{'canonical' if byid[rid][4]['canonical'] else 'helicity'}"
        if clause in PER_KEY_CLAUSES and unequal_identical(byid[rid][4]["trs"]):
            # the per-key clauses on a reaction whose identical spinful particles carry unequal projections: identified by the reaction
            # (one signature for the four per-key clauses: they describe one grouping)
            sig = f"coherent-sum-mixes-distinct-projections-of-identical-particles:{label.split(':')[1] if kind == 'real' else ampl.digest(byid[rid][4]['trs'])}:{'canonical' if byid[rid][4]['canonical'] else 'helicity'}"
        chk.violation(sig, f"{clause} rejected for {label} cfg={byid[rid][2]}: {str(info)[:700]}", {"label": label, "cfg": byid[rid][2], "record": byid[rid][4]})
    for d in drifts:
        chk.spec_drift(f"{d[1]} ({byid[d[2]][0] if d[2] in byid else d[2]})")
    # identical final-state particles WITH spin, synthetic: two final-state ids carry one particle.  The per-key clauses are not
    # judged there (the unchanged tree fails them for the reason of the listed psi(2S) finding); the chain clauses and the
    # completeness of every coherence class are.
    def twin_spec(r):
        return U.synth_spec(r, nfs=r.choice([3, 3, 4]), identical=True, maxspin2=2, ntop=1, name_by="set")

    tcases = ampl_run.build_cases(chk, n_synth=30 if tier == "thorough" else 4, configs=lambda r, re_, l: iter([{}]), real=[], which={"formula"},
                                  budget_s=300 if tier == "thorough" else 25, spec_fn=twin_spec)
    tcases = [c for c in tcases if c[3] is not None and len(c[4]["trs"]) <= 48]
    if tier == "thorough":
        # five final states (four decay nodes): beyond the bound of the statement's "1..3 decay nodes", judged with every clause
        fcases = ampl_run.build_cases(chk, n_synth=12, configs=lambda r, re_, l: iter([{}]), real=[], which={"formula"}, budget_s=200,
                                      spec_fn=lambda r: U.synth_spec(r, nfs=5, maxspin2=2, ntop=1, helset=r.choice(["restricted", "full"])))
        fcases = [c for c in fcases if c[3] is not None and len(c[4]["trs"]) <= 60]
        if fcases:
            tvf, _, fbyid = ampl_run.validate(chk, fcases, name="trace_amplitude_five_body")
            for clause, rid, info in tvf.rejects:
                chk.violation(f"{clause}:{'canonical' if fbyid[rid][4]['canonical'] else 'helicity'}:five-body",
                              f"{clause} rejected for {fbyid[rid][0]}: {str(info)[:600]}", {"label": fbyid[rid][0], "record": fbyid[rid][4]})
            chk.count(len(fcases))
            chk.part("five_body", models=len(fcases), chains=tvf.stats.get("chains", 0))
    if tcases:
        tvt, tdrifts, tbyid = ampl_run.validate(chk, tcases, name="trace_amplitude_identical_particles_with_spin")
        not_judged = 0
        for clause, rid, info in tvt.rejects:
            rec_ = tbyid[rid][4]
            if clause in PER_KEY_CLAUSES and unequal_identical(rec_["trs"]):
                not_judged += 1
                continue
            chk.violation(f"{clause}:{'canonical' if rec_['canonical'] else 'helicity'}:identical-particles-with-spin",
                          f"{clause} rejected for {tbyid[rid][0]} (two final-state ids carry one particle with spin): {str(info)[:600]}", {"label": tbyid[rid][0], "record": rec_})
        chk.count(len(tcases))
        for c in tcases:
            chk.nontrivial(("twin", c[4]["canonical"], len(c[4]["trs"]), ampl.digest(c[4]["trs"])))
        chk.part("identical_particles_with_spin", models=len(tcases), chains=tvt.stats.get("chains", 0),
                 per_key_rejects_in_the_domain_of_the_listed_finding_not_judged=not_judged,
                 judged="chain-wignerD, chain-clebsch-gordan, symmetrised-chains-complete-per-coherence-class, closure")
    # the universe TLC enumerates for Amplitude_MC (three final states, spins <= 1, every tree, eta = +-1, full helicity sets):
    # exhaustive in the thorough tier, every 12th reaction in the quick tier
    ucases = ampl_run.universe_cases(chk, stride=1 if tier == "thorough" else 12, offset=0, which={"formula"})
    # ... and four final states (all 15 trees, spins 0 and 1/2, eta = +-1 at the three nodes: 1920 reactions)
    ucases += ampl_run.universe_cases(chk, stride=4 if tier == "thorough" else 80, offset=0, which={"formula"}, maxspin2=1, nfs=4, name="universe4")
    # ... and the same trees and spins in the canonical basis: every (L, S) combination at every node (chain-clebsch-gordan on
    # every chain; the solver's projections are set in edge-id order)
    ucases += ampl_run.universe_cases(chk, stride=1 if tier == "thorough" else 12, offset=chk.seed % 12 if tier != "thorough" else 0, which={"formula"},
                                      formalism="canonical-helicity", name="universe_canonical")
    for label, reaction, cfg, model, rec in ucases:
        if model is None:
            chk.violation(f"formulate-raises:{rec['error'].split(':')[0]}:universe", f"formulate() failed for {label}: {rec['error']}", {"label": label})
    ucases = [c for c in ucases if c[3] is not None]
    if ucases:
        tvu, _, ubyid = ampl_run.validate(chk, ucases, name="trace_amplitude_universe")
        for clause, rid, info in tvu.rejects:
            chk.violation(f"{clause}:{'canonical' if ubyid[rid][4]['canonical'] else 'helicity'}:universe", f"{clause} rejected for {ubyid[rid][0]} ({ubyid[rid][4]['trs'][0]['edges']}): {str(info)[:500]}", {"label": ubyid[rid][0], "record": ubyid[rid][4]})
        chk.count(len(ucases))
        for c in ucases:
            chk.nontrivial(("universe", ampl.digest(c[4]["trs"])))
    if tier == "thorough":
        # design level: the term generator is internally consistent on every reaction of the (smaller) universe
        from .. import tlc as _tlc

        resu = _tlc.run("Amplitude_MC", ampl_run.UNIVERSE_CFG.format(maxspin2=1, etas="EtaGiven", leafs="{0, 1, 2}", invariants=ampl_run.UNIVERSE_INVARIANTS), workers=2, timeout=2400)
        chk.add_tlc("amplitude_generator_invariants", resu)
        if not resu.ok:
            raise Machinery(f"Amplitude.tla violates its own consistency invariants on the universe: {resu.violated}")
    # the assigned lineshape is part of the formula: every node of every chain carries the builder's
    # expression on its own variables (tagged builders; Trace_Dynamics recomputes the expectation)
    from . import c13

    drecs, tid = [], 0
    seen = set()
    for label, reaction, cfg, model, rec in cases:
        if model is None or cfg or id(reaction) in seen or len(reaction.transitions) > 60:
            continue
        seen.add(id(reaction))
        try:
            drecs += c13.all_assigned_records(reaction, tid)
        except ampl.AmpProjectionError as ex:
            chk.spec_drift(f"dynamics factor shape not understood ({label}): {ex}")
            continue
        tid += 1
        if tid >= (60 if tier == "thorough" else 10):
            break
    tvd = trace.validate("Trace_Dynamics", drecs, timeout=1500)
    chk.add_tlc("trace_lineshape_factors", tvd.res, traces=tid)
    if tvd.stats.get("nodes-with-dynamics", 0) == 0:
        raise Machinery("vacuous: no lineshape factor compared")
    for clause, t, info in tvd.rejects:
        chk.violation(f"lineshape-factor:{clause}", f"{clause}: {str(info)[:600]}", {"records": [r for r in drecs if r["tid"] == t and r["ev"] != "Start"]})
    # the reaction-level operators the coherent / incoherent structure rests on (group_by_spin_projection, group_by_topology,
    # get_outer_state_ids, get_prefactor, get_helicity_info, get_sorted_states), judged by Trace_Reaction
    from .. import reaction_ops

    rrecs, rlabel, seen_r = [], {}, set()
    for label, reaction, cfg, model, rec in cases:
        if id(reaction) in seen_r or len(reaction.transitions) > 150:
            continue
        seen_r.add(id(reaction))
        rlabel[len(rrecs)] = label
        rrecs.append(reaction_ops.reaction_record(len(rrecs), reaction))
    tvr = trace.validate("Trace_Reaction", rrecs, timeout=1500)
    chk.add_tlc("trace_reaction_operators", tvr.res, traces=len(rrecs))
    chk.part("reaction_operators", reactions=len(rrecs), stats=tvr.stats)
    if tvr.stats.get("coherent-groups-with-several-members", 0) == 0 or tvr.stats.get("topology-groups", 0) <= len(rrecs):
        raise Machinery(f"vacuous: no coherent group with several members / no reaction with several topologies ({tvr.stats})")
    for clause, rid, info in tvr.rejects:
        lbl = rlabel.get(rid) or "?"
        if clause == "spin-projection-groups-are-the-classes-of-the-outer-states" and unequal_identical(rrecs[rid]["trs"]):
            sig = f"coherent-sum-mixes-distinct-projections-of-identical-particles:{lbl.split(':')[1] if lbl.startswith('real') else ampl.digest(rrecs[rid]['trs'])}:{'canonical' if 'canonical' in lbl else 'helicity'}"
        else:
            sig = f"reaction-operator:{clause}"
        chk.violation(sig, f"{clause} rejected for {lbl}: {str(info)[:500]}", {"label": lbl})
    worst, n = numeric_law(chk, cases, rng, 12 if tier == "thorough" else 4)
    chk.part("numeric_law", models=n, worst_rel=worst)
    # binding demonstration: flip one observed D index -> must be rejected
    import copy

    bad = copy.deepcopy(next(c[4] for c in ok_cases if c[4]["chains"] and c[4]["chains"][0].get("found")))
    bad.pop("label", None)
    bad["cfg"] = ""
    bad["id"] = 987654
    bad["chains"][0]["D"][0][2] = bad["chains"][0]["D"][0][2] + 2
    tvb = trace.validate("Trace_Amplitude", [bad])
    if not any(r[0] == "chain-wignerD" for r in tvb.rejects):
        raise Machinery("binding demonstration failed: corrupted Wigner-D index accepted")
    chk.part("binding_demo", corrupted="chains[0].D[0].m'", rejected_by=sorted({r[0] for r in tvb.rejects}))
    chk.cov["rule"] = ("cases = formulated models: synthetic reactions (random spins<=5/2, 2..4 final states on canonical and relabelled "
                       "topologies, full/restricted/non-product helicity sets, both formalisms, 1-2 resonances per intermediate edge) x naming-flag "
                       "configurations, plus real qrules reactions; distinct = distinct abstract transition lists")
