--------------------------- MODULE Trace_ModelOps ---------------------------
(* Validates records logged from REAL HelicityModel operations (vf/modelops_exec.py) against
   ModelOps.  Every record carries the projection of the model after the operation ("post");
   "pre_ref" is the number of the record whose "post" is the receiver of this operation, so
   the specification recomputes the expected result itself: for a Rename record TLC evaluates
   ImageOf(pre, pairs) and the other rename laws on (pre, post), for ParamGet/ParamSet it
   resolves the key on the logged parameter mapping, for Pickle it demands the identity.
   A failing clause is reported with its name (and, for the image law, the attributes that
   differ and whether the result is what the named deviation CollectExprKinOnly predicts),
   and the trace goes on, so every rejection of a batch is reported. *)
EXTENDS ModelOps, ModelOps_Json, Json, IOUtils, TLCExt

Log == ndJsonDeserialize(IOEnv.TRACE_FILE)
\* constants of ModelOps are not used by the trace (only its operators are)
TraceModel0 == JModel(Log[1].post)
TraceMaps == [m \in {"none"} |-> <<>>]
TraceNone == {}
TraceValues == {0}

VARIABLE l
Rec == Log[l]
Pre == JModel(Log[Rec.pre_ref].post)
Post == JModel(Rec.post)

Clause(name, ok, info) == IF ok THEN TRUE ELSE PrintT(<<"REJECT", name, Rec.id, info>>)
Stat(name, cond) == IF cond THEN PrintT(<<"STAT", name, 1>>) ELSE TRUE

Fields == {"intensity", "amps", "comps", "expr", "pkeys", "pvals", "kin", "p4"}
Differing(a, b) == {f \in Fields : a[f] # b[f]}
ParMap(M) == {<<M.pkeys[i], M.pvals[i]>> : i \in DOMAIN M.pkeys}

CheckRename ==
  LET pre == Pre
      post == Post
      pairs == Rec.pairs
      img == ImageOf(pre, pairs)
      devm == IF post = RenameImpl(pre, pairs, {"CollectExprKinOnly"}) THEN "CollectExprKinOnly" ELSE "-"
  IN
  /\ Clause("KinInjective", KinInjective(pre, pairs), <<Rec.mid>>)     \* outside the specified domain
  \* the image law; order of parameter_defaults and the value a coupled parameter takes among
  \* unequal defaults are observed behaviour (ModelOps header), judged by OnlyCoupling and
  \* reported as drift when they change
  /\ Clause("RenameIsImage",
            /\ \A f \in Fields \ {"pkeys", "pvals"} : post[f] = img[f]
            /\ SeqSet(post.pkeys) = SeqSet(img.pkeys) /\ Len(post.pkeys) = Len(img.pkeys),
            <<Rec.mid, Differing(post, img), devm>>)
  /\ IF post.pkeys = img.pkeys \/ SeqSet(post.pkeys) # SeqSet(img.pkeys) THEN TRUE
     ELSE PrintT(<<"DRIFT", "ParameterOrder", Rec.id, Rec.mid>>)
  /\ IF ParMap(post) = ParMap(img) \/ SeqSet(post.pkeys) # SeqSet(img.pkeys) \/ Len(post.pkeys) # Len(post.pvals) THEN TRUE
     ELSE PrintT(<<"DRIFT", "MergeValuePolicy", Rec.id, Rec.mid>>)
  /\ Clause("AssumptionsKept", LawAssumptions(pre, post, pairs), <<Rec.mid>>)
  /\ Clause("UnrelatedUntouched", LawUnrelated(pre, post, pairs), <<Rec.mid>>)
  /\ Clause("OnlyCoupling", LawCoupling(pre, post, pairs), <<Rec.mid>>)
  /\ Clause("ClosureKept", LawAdmissible(pre, post, pairs), <<Rec.mid, Admissible(pre, pairs)>>)
  /\ Clause("Consistent", ExprConsistent(post) /\ ParamsWellFormed(post), <<Rec.mid>>)
  /\ Clause("WarnsExactly", LawWarned(pre, pairs, JSet(Rec.warned)), <<Rec.mid, JSet(Rec.warned)>>)
  /\ Clause("OriginalUnchanged", Rec.recv_same = 1, <<Rec.mid>>)
  /\ IF (Rec.returns_self = 1) = (pairs = <<>>) THEN TRUE ELSE PrintT(<<"DRIFT", "EmptyReturnsSelf", Rec.id, Rec.mid>>)
  /\ Stat("rename", TRUE)
  /\ Stat("couples", Len(post.pkeys) < Len(pre.pkeys))
  /\ Stat("couples_unequal_defaults",
          \E i, j \in DOMAIN pre.pkeys : i # j /\ RenSym(pairs, pre.pkeys[i]) = RenSym(pairs, pre.pkeys[j]) /\ pre.pvals[i] # pre.pvals[j])
  /\ Stat("closure_antecedent", Closure(pre) /\ WellNamed(pre) /\ Admissible(pre, pairs))
  /\ Stat("inadmissible", Closure(pre) /\ WellNamed(pre) /\ ~Admissible(pre, pairs))
  /\ Stat("warned", Rec.warned # <<>>)
  /\ Stat("changed", post # pre)

Key == CASE Rec.kind = "symbol" -> Rec.key_symbol
         [] Rec.kind = "name" -> Rec.key_name
         [] Rec.kind = "index" -> Rec.key_index
Res == [ok |-> Rec.res.ok = 1, val |-> Rec.res.val]
\* what the three views must show for a parameter mapping
ViewOf(M, kind) ==
  [i \in DOMAIN M.pkeys |->
     M.pvals[Resolve(M, kind, IF kind = "symbol" THEN M.pkeys[i] ELSE IF kind = "name" THEN M.pkeys[i].name ELSE i - 1, {})]]
CheckViews(M) ==
  /\ Clause("ViewsAgree", ViewsAgree(M), <<Rec.kind>>)
  /\ Clause("ViewBySymbol", Rec.views.symbol = ViewOf(M, "symbol"), <<Rec.kind>>)
  /\ Clause("ViewByName", Rec.views.name = ViewOf(M, "name"), <<Rec.kind>>)
  /\ Clause("ViewByIndex", Rec.views.index = ViewOf(M, "index"), <<Rec.kind>>)
  /\ Clause("ViewLen", Rec.views.len = Len(M.pkeys) /\ Rec.views.items = M.pvals, <<Rec.kind>>)

\* the model the rename was called on is another object unless the rename returned the receiver itself: whatever is
\* done to the parameter mapping of the result, the original's mapping stays what it was
CheckOriginal ==
  Clause("OriginalParametersIndependent",
         IF Rec.is_orig = 1 THEN Rec.orig_items = Rec.post.pvals ELSE Rec.orig_items = Rec.orig_before,
         <<Rec.kind, Rec.is_orig, Rec.orig_before, Rec.orig_items>>)

CheckGet ==
  LET pre == Pre
      idx == Resolve(pre, Rec.kind, Key, {})
  IN /\ Clause("ParamGet", LawGet(pre, idx, Res), <<Rec.kind, idx, Res>>)
     /\ Clause("ParamGetPure", Post = pre, <<Rec.kind>>)
     /\ CheckViews(pre)
     /\ CheckOriginal
     /\ Stat("get", TRUE) /\ Stat("get_keyerror", idx = 0)

CheckSet ==
  LET pre == Pre
      post == Post
      idx == Resolve(pre, Rec.kind, Key, {})
      want == IF idx = 0 THEN pre ELSE [pre EXCEPT !.pvals[idx] = Rec.value]
  IN /\ Clause("ParamSet", LawSet(pre, post, idx, Res) /\ post = want, <<Rec.kind, idx, Res, Differing(post, want)>>)
     /\ CheckViews(want)
     /\ CheckOriginal
     /\ Stat("set", TRUE) /\ Stat("set_on_other_object", Rec.is_orig = 0) /\ Stat("set_keyerror", idx = 0)

CheckPickle ==
  /\ Clause("PickleIdentity", Post = Pre /\ Rec.equal = 1, <<Differing(Post, Pre)>>)
  /\ Stat("pickle", TRUE)

CheckModel ==
  LET m == Post IN
  /\ Clause("InitialClosure", Closure(m) /\ WellNamed(m) /\ ExprConsistent(m) /\ ParamsWellFormed(m), <<Rec.model>>)
  /\ Stat("model", TRUE)

Step ==
  /\ l <= Len(Log)
  /\ CASE Rec.op = "Model" -> CheckModel
       [] Rec.op = "Rename" -> CheckRename
       [] Rec.op = "ParamGet" -> CheckGet
       [] Rec.op = "ParamSet" -> CheckSet
       [] Rec.op = "Pickle" -> CheckPickle
       [] OTHER -> Clause("KnownOp", FALSE, <<Rec.op>>)
  /\ l' = l + 1
  /\ UNCHANGED vars

\* the state variables of ModelOps are not used: every record is judged on its own
TraceInit == /\ l = 1 /\ orig = 0 /\ cur = 0 /\ aliased = FALSE /\ adm = TRUE /\ last = 0 /\ result = 0 /\ steps = 0
TraceSpec == TraceInit /\ [][Step]_<<l, vars>>
TraceAccepted == TLCGet("stats").diameter = Len(Log) + 1
=============================================================================
