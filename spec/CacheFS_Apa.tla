--------------------------- MODULE CacheFS_Apa ---------------------------
(* Apalache instance of CacheFS (Dev = {}): an inductive invariant that implies ReturnsDoit,
   NeverRaises and KeyFilesComplete for histories of ANY length (any number of calls and
   crashes) on 2 processes, 3 expressions (two colliding keys) and MaxInodes inodes:
     apalache-mc check --init=IndInit --inv=IndInv --length=1 CacheFS_Apa.tla      (step)
     apalache-mc check --init=Init --inv=IndInv --length=0 CacheFS_Apa.tla         (base) *)
EXTENDS Integers, FiniteSets

VARIABLES
  \* @type: Str -> Int;
  link,
  \* @type: Int -> { src: Str, len: Int };
  ino,
  \* @type: Int;
  nino,
  \* @type: Int -> Str;
  pc,
  \* @type: Int -> Str;
  arg,
  \* @type: Int -> Str;
  res,
  \* @type: Int -> Int;
  rfd,
  \* @type: Int -> Int;
  wfd,
  \* @type: Int -> Int;
  woff,
  \* @type: Int;
  calls,
  \* @type: Int;
  crashes,
  \* @type: Bool;
  dir,
  \* @type: Int -> Bool;
  dseen,
  \* @type: Int -> (Str -> Str);
  memo

Procs == {1, 2}
Exprs == {"e1", "e2", "e3"}
Keys == {"k1", "k2"}
KeyOf == [x \in Exprs |-> IF x = "e3" THEN "k2" ELSE "k1"]
TmpOf == [p \in Procs |-> IF p = 1 THEN "t1" ELSE "t2"]
NChunks == 2
MaxInodes == 4
\* no bound on the length of the history: the guards calls < MaxCalls, crashes < MaxCrashes never block
MaxCalls == 1000000
MaxCrashes == 1000000
\* @type: Set(Str);
Dev == {}

INSTANCE CacheFS

PCs == {"idle", "mkdir", "mkdir2", "stat", "openr", "load", "doit", "openw", "write", "replace", "ret"}
Srcs == Exprs \cup {None, "foreign"}

TypeInv ==
  /\ link \in [Names -> 0..MaxInodes]
  /\ ino \in [1..MaxInodes -> [src: Srcs, len: 0..NChunks]]
  /\ nino \in 0..MaxInodes
  /\ pc \in [Procs -> PCs]
  /\ arg \in [Procs -> Exprs \cup {None}]
  /\ res \in [Procs -> Exprs \cup {None, RAISED}]
  /\ rfd \in [Procs -> 0..MaxInodes]
  /\ wfd \in [Procs -> 0..MaxInodes]
  /\ woff \in [Procs -> 0..NChunks]
  /\ calls \in 0..MaxCalls /\ crashes \in 0..MaxCrashes
  /\ dir \in BOOLEAN /\ dseen \in [Procs -> BOOLEAN]
  /\ memo = [p \in Procs |-> [k \in Keys |-> None]]     \* (nothing is ever remembered by the intended algorithm)

\* structure of the file system: only allocated inodes are linked or open; a key file that is a cache
\* entry is complete and stored under the key of its expression; an inode reachable through a key name
\* is never open for writing; the private temporary file belongs to the call in flight
FsInv ==
  /\ \A n \in Names : link[n] <= nino
  /\ \A p \in Procs : rfd[p] <= nino /\ wfd[p] <= nino
  /\ \A k \in Keys : link[k] # 0 =>
        /\ ino[link[k]].src # None
        /\ (ino[link[k]].src \in Exprs => ino[link[k]].len = NChunks /\ KeyOf[ino[link[k]].src] = k)
        /\ \A p \in Procs : wfd[p] # link[k]
  \* an inode a reader holds was reached through a key name: it never changes again
  /\ \A p \in Procs : rfd[p] # 0 =>
        /\ ino[rfd[p]].src # None
        /\ (ino[rfd[p]].src \in Exprs => ino[rfd[p]].len = NChunks)
        /\ \A q \in Procs : wfd[q] # rfd[p]
  \* two writers never share an inode; a writer's inode is its own temporary file
  /\ \A p, q \in Procs : (p # q /\ wfd[p] # 0) => wfd[p] # wfd[q]
  /\ \A p \in Procs : wfd[p] # 0 => link[Tmp(p)] = wfd[p]
  /\ \A p, q \in Procs : (p # q /\ link[Tmp(p)] # 0) => link[Tmp(p)] # link[Tmp(q)]
  /\ \A p \in Procs, k \in Keys : link[Tmp(p)] # 0 => link[Tmp(p)] # link[k]
  /\ \A p, q \in Procs : (link[Tmp(p)] # 0 /\ rfd[q] # 0) => link[Tmp(p)] # rfd[q]

\* per program counter
PcInv ==
  \A p \in Procs :
    /\ pc[p] # "idle" => arg[p] \in Exprs
    /\ pc[p] \in {"idle", "mkdir", "mkdir2", "stat", "openr", "doit", "openw", "write", "replace", "ret"} => rfd[p] = 0
    /\ pc[p] = "load" => rfd[p] # 0
    /\ pc[p] \in {"idle", "mkdir", "mkdir2", "stat", "openr", "load", "doit", "openw", "ret"} => wfd[p] = 0
    /\ pc[p] \in {"idle", "mkdir", "mkdir2", "stat", "openr", "load", "doit", "openw", "ret"} => link[Tmp(p)] = 0
    /\ pc[p] # "mkdir2"          \* (only the deviation CheckThenMkdir goes there)
    /\ pc[p] = "write" => /\ wfd[p] # 0
                          /\ ino[wfd[p]].src = arg[p]
                          /\ ino[wfd[p]].len = woff[p]
    /\ pc[p] = "replace" => /\ wfd[p] = 0 /\ link[Tmp(p)] # 0
                            /\ ino[link[Tmp(p)]].src = arg[p]
                            /\ ino[link[Tmp(p)]].len = NChunks
    /\ pc[p] = "ret" => res[p] = arg[p]
    /\ pc[p] \in {"mkdir", "stat", "openr", "load", "doit", "openw", "write", "replace"} => res[p] = None
    /\ res[p] # RAISED

IndInv == TypeInv /\ FsInv /\ PcInv /\ DirHoldsFiles
IndInit == IndInv
\* the properties follow from the inductive invariant
Props == ReturnsDoit /\ NeverRaises /\ KeyFilesComplete /\ DirHoldsFiles
=============================================================================
