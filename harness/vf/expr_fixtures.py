"""Fixture expression classes for C14 / C15, importable by name in a fresh interpreter
(pickle needs the defining module).  LegacyExpr is built with the deprecated, still public
API of ampform.sympy (UnevaluatedExpression, create_expression, implement_doit_method)."""
from __future__ import annotations

import warnings

import sympy as sp

with warnings.catch_warnings():
    warnings.simplefilter("ignore")
    from ampform.sympy import UnevaluatedExpression, create_expression, implement_doit_method, make_commutative

    @make_commutative
    @implement_doit_method
    class LegacyExpr(UnevaluatedExpression):
        def __new__(cls, a, b, **hints):
            return create_expression(cls, a, b, **hints)

        def evaluate(self) -> sp.Expr:
            a, b = self.args
            return a**2 + sp.sqrt(b)
