---------------------------- MODULE Builder_MC ----------------------------
EXTENDS Builder
DevNone == {}
DevPinned == {"DpdCacheAliasing"}
DevNoReset == {"NoReset"}
DevResetAtEnd == {"ResetAtEnd"}
DevSharedNameMap == {"SharedNameMap"}
\* bound the configuration space explored exhaustively: at most one builder has assigned dynamics
=============================================================================
