"""C06 — formulate() is a pure function of (reaction, configuration).

spec/Builder.tla: builder objects sharing a reaction as a state machine; TLC checks `Pure`,
`Agree`, `Isolation` exhaustively on a small alphabet and shows that the pinned-tree
deviations (DpdCacheAliasing, NoReset) break them.  Binding: behaviours of the specification
(tlc -simulate + all ordered pairs of configurations) are replayed on real builders, one
forked child per behaviour; the digest of every formulated model (six attributes, dictionary
order included) must equal the reference digest of its key, computed in fresh processes under
several PYTHONHASHSEED values — which must agree among themselves."""
from __future__ import annotations

import itertools
import json
import random
import subprocess
import sys
from concurrent.futures import ThreadPoolExecutor

from .. import tlc
from ..core import Machinery, child_env

LEVEL = "model_checking"
META = {
    "technique": "TLA+ state machine Builder.tla (2 builder objects, configuration/dynamics/adapter actions, process-global DPD cache, "
    "ingredients) model-checked with TLC (Pure, Agree, Isolation; deviations shown to violate them); tlc -simulate behaviours "
    "and all ordered configuration pairs replayed on real builders in forked children, model digests compared with "
    "fresh-process references under several PYTHONHASHSEED values",
    "text": "Purity over histories is exactly what a state-machine model explores: TLC enumerates operation sequences on two "
    "builders; every Formulate edge of every replayed behaviour is executed on the real objects and must reproduce the "
    "digest that a fresh process (any hash seed) computes for the same (reaction, configuration, dynamics, adapter) key.",
    "note": "Trusted: TLC; srepr/repr digests as model identity (dictionary order included); fork gives each behaviour clean "
    "process-global caches. Bounds: 2 builders, 3 reactions, alphabet of 4 alignments x 3 stable-id choices x flags x 3 "
    "dynamics tags, histories <= 14 operations; hash seeds {random, 0, 1, 12345}.",
    "design_ref": "DESIGN.md §4 C06",
}

MC_CFG = """SPECIFICATION Spec
CONSTANTS
 Builders = {builders}
 RxOf <- RxMap
 Aligns = {aligns}
 Stables = {stables}
 Names = {names}
 Tags = {tags}
 MaxOps = {ops}
 Dev <- {dev}
{props}CHECK_DEADLOCK FALSE
"""
PROPS = "INVARIANT Pure\nINVARIANT Agree\nPROPERTY Isolation\n"
ATTRS = ["intensity", "amplitudes", "parameter_defaults", "kinematic_variables", "components", "reaction_info"]


def spec_actions(beh):
    acts = []
    for st in beh[1:]:
        a = [st["action"], *st["args"]]
        a = [int(x) if isinstance(x, bool) else x for x in a]
        acts.append(a)
    return acts


def keys_along(acts):
    """Python replica of Builder!Key along a behaviour: key at every Formulate."""
    cfg, choice, perm = {}, {}, {}
    out = []
    for i, a in enumerate(acts):
        n, b = a[0], a[1]
        c = cfg.setdefault(b, {"align": "none", "stable": "none", "scalar": 0, "coup": 0, "naming": {"parent": 0, "child": 0, "ls": 0}, "rx": "sub" if b == 3 else "relab" if b == 4 else "full"})
        ch = choice.setdefault(b, {})
        perm.setdefault(b, 0)
        if n == "SetAlign":
            c["align"] = a[2]
        elif n == "SetStable":
            c["stable"] = a[2]
        elif n == "SetScalar":
            c["scalar"] = int(a[2])
        elif n == "SetCoup":
            c["coup"] = int(a[2])
        elif n == "SetNameFlag":
            c["naming"][a[2]] = int(a[3])
        elif n == "Assign":
            ch[a[2]] = a[3]
        elif n == "Permutate":
            perm[b] = 1
        elif n == "Formulate":
            out.append((i, [dict(c, naming=dict(c["naming"])), {k: v for k, v in sorted(ch.items()) if v != "none"}, perm[b]]))
    return out


def kstr(key):
    return json.dumps(key, sort_keys=True)


def pair_histories(alphabet, thin=None):
    """thin = None: three histories per ordered pair; thin = k (quick tier): the single-builder history A, B, A and the shortest-path
    history for every pair, the two-builder history for half of the pairs (which half: k)."""
    hs = []
    for (ia, A), (ib, B) in itertools.product(enumerate(alphabet), repeat=2):
        if A == B:
            continue
        half = None if thin is None else (ia + ib + thin) % 2

        def conf(b, K, order=("parent", "child", "ls")):
            cfg, choice, perm = K
            acts = [["SetAlign", b, cfg["align"]], ["SetStable", b, cfg["stable"]], ["SetScalar", b, cfg["scalar"]], ["SetCoup", b, cfg["coup"]],
                    *[["SetNameFlag", b, f, cfg["naming"][f]] for f in order]]
            acts += [["Assign", b, n, choice.get(n, "none")] for n in ("R1", "R2")]
            if perm:
                acts.append(["Permutate", b])
            return acts

        # one builder: A, B, A again;  two builders interleaved: 1 under A, 2 under B, 1 again
        # (the naming flags are assigned in another order the second time)
        hs.append(conf(1, A) + [["Formulate", 1]] + conf(1, B, order=("ls", "child", "parent")) + [["Formulate", 1]] + conf(1, A) + [["Formulate", 1]])
        if half in (None, 0):
            hs.append(conf(1, A) + conf(2, B) + [["Formulate", 2], ["Formulate", 1], ["Formulate", 2]])
        # the shortest way from A to B: only the options that differ are assigned before the model is formulated again
        fa, fb = conf(1, A), conf(1, B)
        delta = [y for x, y in zip(fa, fb) if x != y] + ([["Permutate", 1]] if B[2] and not A[2] else [])
        if not (A[2] and not B[2]) and len(fa) - A[2] == len(fb) - B[2]:
            hs.append(fa + [["Formulate", 1]] + delta + [["Formulate", 1]])
    # two reactions over the same particles in one process: builder 3 works on the decay with a restricted helicity set
    def conf3(b, K):
        cfg, choice, perm = K
        return ([["SetAlign", b, cfg["align"]], ["SetStable", b, cfg["stable"]], ["SetScalar", b, cfg["scalar"]], ["SetCoup", b, cfg["coup"]],
                 *[["SetNameFlag", b, f, cfg["naming"][f]] for f in ("parent", "child", "ls")]] + [["Assign", b, n, choice.get(n, "none")] for n in ("R1", "R2")] + ([["Permutate", b]] if perm else []))

    for A in alphabet:
        hs.append(conf3(3, A) + [["Formulate", 3]] + conf3(1, A) + [["Formulate", 1], ["Formulate", 3]])
        hs.append(conf3(1, A) + [["Formulate", 1]] + conf3(3, A) + [["Formulate", 3], ["Formulate", 1]])
    # ... and builder 4 on the reaction with other particle labels (equal transitions for qrules)
    for A in alphabet[:4]:
        hs.append(conf3(4, A) + [["Formulate", 4]] + conf3(1, A) + [["Formulate", 1], ["Formulate", 4]])
        hs.append(conf3(1, A) + [["Formulate", 1]] + conf3(4, A) + [["Formulate", 4], ["Formulate", 1]])
    return hs


def run_exec(job, hashseed):
    p = subprocess.run([sys.executable, "-m", "vf.builder_exec"], input=json.dumps(job), capture_output=True, text=True, env=child_env(hashseed), timeout=3600)
    if p.returncode != 0:
        raise Machinery(f"builder executor failed: {p.stderr[-2000:]}")
    return json.loads(p.stdout)


def run(chk, replay=None):
    tier = chk.tier
    rng = random.Random(chk.seed)
    chk.assume("TLC/SANY", "sympy.srepr / repr digests identify a model (dictionary order included)", "fork gives clean process-global caches per behaviour")
    # 1. design
    small = dict(aligns='{"none", "dpd1"}', stables='{"none", "all", "bogus"}', names='{"R1"}', tags='{"none", "bwff"}')
    res = tlc.run("Builder_MC", MC_CFG.format(**small, builders="{1, 2}", ops=7 if tier == "thorough" else 6, dev="DevNone", props=PROPS), workers=12, coverage=True, fast_start=False, timeout=1500)
    chk.add_tlc("design_exhaustive", res)
    if not res.ok:
        raise Machinery(f"Builder design violates {res.violated}")
    if any(res.coverage.get(a, 0) == 0 for a in ("SetAlign", "SetStable", "SetScalar", "SetCoup", "SetNameFlag", "Assign", "Permutate", "Formulate")):
        raise Machinery(f"vacuous: action coverage {res.coverage}")
    for dev in ("DevPinned", "DevNoReset", "DevResetAtEnd", "DevSharedNameMap", "DevLazyNameMapOnLs", "DevCrossReactionCache", "DevProcessWideMemo"):
        r = tlc.run("Builder_MC", MC_CFG.format(**small, builders="{1, 3}" if dev == "DevCrossReactionCache" else "{1, 4}" if dev == "DevProcessWideMemo" else "{1, 2}", ops=6, dev=dev, props="INVARIANT Pure\n"), workers=4, timeout=600)
        if r.ok:
            raise Machinery(f"Builder model insensitive to deviation {dev}")
    chk.part("deviation_sensitivity", DpdCacheAliasing="violates Pure", NoReset="violates Pure", ResetAtEnd="violates Pure", SharedNameMap="violates Pure", LazyNameMapOnLs="violates Pure", CrossReactionCache="violates Pure", ProcessWideMemo="violates Pure")

    # 2. behaviours
    big = dict(aligns='{"none", "axis", "dpd1", "dpd2"}', stables='{"none", "all", "one", "bogus"}', names='{"R1", "R2"}', tags='{"none", "bw", "bwff", "bwc", "bwa"}')
    nsim = 60 if tier == "thorough" else 12
    behs = tlc.simulate("Builder_MC", MC_CFG.format(**big, builders="{1, 2, 3, 4}", ops=14, dev="DevNone", props=""), num=nsim, depth=15, seed=chk.seed + 3, with_states=False)
    histories = [spec_actions(b) for b in behs]
    def nm(**kw):
        return {"parent": 0, "child": 0, "ls": 0, **kw}

    base = {"align": "none", "stable": "none", "scalar": 0, "coup": 0, "naming": nm()}
    alphabet = [
        [dict(base), {}, 0],
        [dict(base, align="dpd1"), {}, 0],
        [dict(base, align="dpd1", stable="all"), {}, 0],
        [dict(base, align="dpd2"), {}, 0],   # another reference subsystem (shares module-level state with dpd1)
        [dict(base, align="dpd1", stable="all", scalar=1), {"R1": "bwff"}, 0],
        [dict(base, align="axis", stable="one"), {}, 0],
        [dict(base, stable="all", coup=1), {"R1": "bw"}, 0],
        [dict(base), {}, 1],
        [dict(base), {"R1": "bwc"}, 0],             # Breit-Wigner with form factor and constant width (no convenience function builds it)
        [dict(base), {"R1": "bw", "R2": "bwa"}, 0],
        [dict(base, naming=nm(parent=1)), {}, 0],       # naming options of the amplitude name generator
        [dict(base, naming=nm(child=1), coup=1), {}, 0],
        [dict(base, naming=nm(ls=1)), {}, 0],
        [dict(base, naming=nm(child=1, ls=1)), {}, 0],
        [dict(base, stable="bogus", coup=1), {"R1": "bwff"}, 0],   # formulate() raises half-way
    ]
    if tier == "thorough":
        alphabet += [[dict(base, align="dpd2", scalar=1), {"R1": "bw", "R2": "bwff"}, 0], [dict(base, align="axis", coup=1), {"R2": "bwff"}, 0],
                     [dict(base, align="dpd1", stable="one"), {"R1": "bwff"}, 1]]
    histories += pair_histories(alphabet, thin=None if tier == "thorough" else chk.seed)
    reactions = [("jpsi_ksp_sigma", "helicity"), ("synth:11", "canonical-helicity"), ("jpsi_gpp_f0", "canonical-helicity"), ("jpsi_ksp_sigma@orig", "helicity"), ("jpsi_gpp_omega@orig", "helicity")] + ([("jpsi_3pi_rho", "helicity"), ("synth:5", "helicity")] if tier == "thorough" else [])
    seeds = [None, 0, 12345] + ([1] if tier == "thorough" else [])

    hk = [keys_along(h) for h in histories]
    keys = {}
    for ks in hk:
        for _, k in ks:
            keys.setdefault(kstr(k), k)
    keylist = list(keys.values())

    nchunks = 5
    nref = 3   # the fresh-process references of one (reaction, hash seed) are computed in nref parallel children
    chunks = [list(range(c, len(histories), nchunks)) for c in range(nchunks)]
    jobs = []
    for rname, formalism in reactions:
        for c in range(nchunks):
            jobs.append(("replay", rname, formalism, None, c))
        for s in seeds:
            for c in range(nref):
                jobs.append(("ref", rname, formalism, s, c))

    def do(job):
        mode, rname, formalism, s, c = job
        payload = {"reaction": rname, "formalism": formalism, "mode": mode}
        if mode == "ref":
            payload["keys"] = keylist[c::nref]
        else:
            payload["behaviours"] = [histories[i] for i in chunks[c]]
        return job, run_exec(payload, s)

    with ThreadPoolExecutor(max_workers=min(len(jobs), 16)) as ex:
        outs = dict(ex.map(do, jobs))
    # reassemble the chunked replay results per reaction
    for rname, formalism in reactions:
        merged = [None] * len(histories)
        for c in range(nchunks):
            for i, r in zip(chunks[c], outs[("replay", rname, formalism, None, c)]["results"]):
                merged[i] = r
        outs[("replay", rname, formalism, None)] = {"results": merged}
        for s in seeds:
            mergedr = [None] * len(keylist)
            for c in range(nref):
                for i, r in zip(range(c, len(keylist), nref), outs[("ref", rname, formalism, s, c)]["results"]):
                    mergedr[i] = r
            outs[("ref", rname, formalism, s)] = {"results": mergedr}

    total_formulates = 0
    for rname, formalism in reactions:
        refs = {}
        for s in seeds:
            o = outs[("ref", rname, formalism, s)]
            for k, r in zip(keylist, o["results"]):
                if "fail" in r:
                    raise Machinery(f"reference child failed: {r['fail']}")
                refs.setdefault(kstr(k), {})[s] = r["ok"]
        # cross-process / cross-seed clause
        for ks, per in refs.items():
            first = per[seeds[0]]
            for s in seeds[1:]:
                if per[s] != first:
                    if "error" in first or "error" in per[s]:
                        attrs = ["formulate-raises"]
                    else:
                        attrs = [a for a in ATTRS if per[s].get(a) != first.get(a)]
                    k = json.loads(ks)
                    chk.violation(
                        f"hash-seed-dependent-model:{'+'.join(attrs)}:align={k[0]['align']}",
                        f"{rname}/{formalism}: fresh processes under PYTHONHASHSEED={seeds[0]} and {s} give different {attrs} for key {ks}",
                        {"reaction": rname, "formalism": formalism, "key": k, "seeds": [seeds[0], s]},
                    )
        o = outs[("replay", rname, formalism, None)]
        for hi, (h, res_h) in enumerate(zip(histories, o["results"])):
            if "fail" in res_h:
                raise Machinery(f"replay child failed: {res_h['fail']}")
            got = {i: d for i, d in res_h["ok"]}
            prev = []
            for i, k in hk[hi]:
                total_formulates += 1
                ref = refs[kstr(k)][0] if 0 in refs[kstr(k)] else refs[kstr(k)][seeds[0]]
                d = got.get(i)
                chk.count(1)
                chk.nontrivial((rname, kstr(k), tuple(kstr(x) for x in prev[-2:])))
                if d != ref:
                    if d is None or "error" in d or "error" in ref:
                        attrs = ["formulate-raises" if (d and "error" in d) else "missing"]
                    else:
                        attrs = [a for a in ATTRS if d.get(a) != ref.get(a)]
                    # attributes that already differ between hash seeds are reported by the clause above
                    seed_dep = {a for s in seeds for a in ATTRS if refs[kstr(k)][s].get(a) != refs[kstr(k)][seeds[0]].get(a)}
                    attrs = [a for a in attrs if a not in seed_dep]
                    if attrs:
                        chk.violation(
                            f"history-dependent-model:{'+'.join(attrs)}:align={k[0]['align']}:stable={k[0]['stable']}:after={'same-builder' if any(a[0] == 'Formulate' and a[1] == h[i][1] for a in h[:i]) else 'other-builder' if any(a[0] == 'Formulate' for a in h[:i]) else 'none'}",
                            f"{rname}/{formalism}: model formulated after history {json.dumps(h[:i + 1])[:600]} differs from the fresh-process model of its key in {attrs}",
                            {"reaction": rname, "formalism": formalism, "history": h[: i + 1], "key": k},
                        )
                prev.append(k)
    chk.cov["traces_validated_against_impl"] = len(histories) * len(reactions)
    chk.part("replay", behaviours=len(histories), simulated=len(behs), pair_histories=len(histories) - len(behs), reactions=[r for r, _ in reactions],
             formulate_edges=total_formulates, distinct_keys=len(keylist), hash_seeds=[("random" if s is None else s) for s in seeds])
    chk.sample({"history": histories[0], "keys": [k for _, k in hk[0]]})
    chk.cov["rule"] = ("cases = Formulate edges of replayed Builder.tla behaviours (tlc -simulate, depth 15, 2 builders) and of all ordered pairs of a "
                       "6-8 configuration alphabet (A,B,A on one builder; interleaved on two), on 2-4 reactions; distinct = distinct (reaction, key, two previous keys)")
