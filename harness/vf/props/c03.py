"""C03 — parity partners carry exactly the parity sign of the flipped nodes.

The law (Trace_Amplitude!ParityClauses, Amplitude!PartnerChains/FlippedNodes/ProdEta): two
chains that carry the same coefficient symbols and are node-wise equal or daughter-reversed
differ by the product of eta over exactly the reversed nodes.  TLC evaluates it on every
pair of chains of every model of a synthetic universe with 1-3 parity-constrained nodes and
independent eta per node."""
from __future__ import annotations

import random

from .. import ampl, ampl_run, trace
from .. import ampl_universe as U
from ..core import Machinery

LEVEL = "model_checking"
META = {
    "technique": "TLA+ parity law (Amplitude.tla: PartnerChains, FlippedNodes, ProdEta) evaluated by TLC on every pair of chains sharing a "
    "coefficient in real HelicityModels over synthetic reactions with 1-3 parity-constrained nodes and independent eta "
    "per node (plus real reactions), under all naming flags that change coefficient sharing; every other model is the second "
    "formulate() of its builder after one under the opposite parent-helicity flag (history independence of the law)",
    "text": "The sign relation between chains that share a coefficient is a discrete law over pairs of chains; the specification "
    "derives, from the abstract transitions, which nodes are reversed and the required product of parity factors, and "
    "TLC checks every pair. The suite only counts parameters for one constrained node; here eta is varied independently "
    "on several nodes, which is what exposes a prefactor taken over the wrong node set.",
    "note": "Trusted: TLC; projection of chain terms (sign, coefficient symbols); premise 'share a coefficient' is taken from the "
    "observed model. The 'canonical vs helicity intensities agree' reading is not separately evaluated. Bounds: <=4 final "
    "states, spins <=5/2.",
    "design_ref": "DESIGN.md §4 C03",
}


def _name_order_disagrees(spec) -> bool:
    """some eta = -1 node whose daughters, both with non-zero projections of opposite sign, are ordered differently by particle
    name (what the coefficient naming uses) and by attached final state (what decides the helicity / opposite-helicity child)"""
    from .. import topo

    for tr in spec["transitions"]:
        t = tr["topology"]
        for n, nd in tr["nodes"].items():
            if nd["eta"] != -1:
                continue
            ch = [e for e, ed in t.edges.items() if ed.originating_node_id == n]
            if len(ch) != 2:
                continue
            (n0, h0), (n1, h1) = tr["states"][ch[0]], tr["states"][ch[1]]
            if h0 * h1 >= 0:
                continue
            by_name = min(ch, key=lambda e: tr["states"][e][0])
            by_set = min(ch, key=lambda e: tuple(topo.attached(t, e)))
            if by_name != by_set:
                return True
    return False


def _twin_siblings_parity_odd(spec) -> bool:
    """two daughters of ONE node are the same particle (with spin), the node is parity-odd, and some transition gives them opposite
    non-zero projections: the chain and its parity partner differ only by which of the two identical daughters carries which projection"""
    twin = spec["meta"].get("twin")
    if not twin:
        return False
    for tr in spec["transitions"]:
        t = tr["topology"]
        for n, nd in tr["nodes"].items():
            ch = sorted(e for e, ed in t.edges.items() if ed.originating_node_id == n)
            if nd["eta"] == -1 and ch == sorted(twin) and tr["states"][ch[0]][1] * tr["states"][ch[1]][1] < 0:
                return True
    return False


_TARGETED = {"n": 0}


def spec_fn(rng):
    # the first reactions are searched for: the two child orders of a parity-odd node disagree
    if _TARGETED["n"] < 3:
        _TARGETED["n"] += 1
        for _ in range(3000):
            # (opposite-sign projections of two integer-spin daughters need a parent of spin >= 2)
            spec = U.synth_spec(rng, nfs=3, formalism="helicity", helset="full", maxspin2=4, ntop=1)
            if spec and len(spec["transitions"]) <= 60 and _name_order_disagrees(spec):
                return spec
    if _TARGETED["n"] < 5:
        _TARGETED["n"] += 1
        for _ in range(3000):
            spec = U.synth_spec(rng, nfs=3, formalism="helicity", helset="full", maxspin2=4, ntop=1, identical=True, name_by="set")
            if spec and len(spec["transitions"]) <= 60 and _twin_siblings_parity_odd(spec):
                return spec
    return U.synth_spec(rng, nfs=rng.choice([2, 3, 3, 4]), formalism="helicity", helset=rng.choice(["full", "full", "restricted"]))


def configs(rng, reaction, label):
    yield {}
    if rng.random() < 0.5:
        yield {"insert_parent_helicities": 1}


def cg_expansion_records(chk, name, tier):
    """The 'equivalently' reading of C03: expand random canonical LS coefficients with the Clebsch-Gordan factors
    into helicity couplings; all helicity chains that share one coefficient symbol must then require the SAME value
    (up to the sign the model attaches).  Uses only the abstract transitions of the canonical reaction and sympy's CG
    values; eta from qrules does not enter."""
    import ampform
    import sympy as sp
    from sympy.physics.quantum.cg import CG

    rh = ampl.real_reaction(name, "helicity")
    rc = ampl.real_reaction(name, "canonical-helicity")
    mh = ampform.get_builder(rh).formulate()
    rec_h = U.model_record(0, rh, mh, do_formula=False, do_parity=True, do_closure=False)
    rng = random.Random(chk.seed + 77)

    def chain_key(tr):   # states of all edges: what identifies a helicity configuration of a chain
        return tuple(sorted((tuple(e["set"]), e["part"], e["hel2"]) for e in tr["edges"]))

    def ls_key(tr):      # which canonical coefficient: particles and (L, S) of every node
        return tuple(sorted((tuple(n["parent"]), n["L2"], n["S2"]) for n in tr["nodes"])) + tuple(sorted((tuple(e["set"]), e["part"]) for e in tr["edges"] if len(e["set"]) > 1))

    def cg_product(tr):
        edges = {tuple(e["set"]): e for e in tr["edges"]}
        tree = list(edges)
        prod = sp.Integer(1)
        for n in tr["nodes"]:
            P = tuple(n["parent"])
            kids = sorted(c for c in tree if set(c) < set(P) and not any(set(c) < set(o) < set(P) for o in tree))
            c1, c2 = edges[kids[0]], edges[kids[1]]
            d = sp.Rational(c1["hel2"] - c2["hel2"], 2)
            prod *= CG(sp.Rational(n["L2"], 2), 0, sp.Rational(n["S2"], 2), d, sp.Rational(edges[P]["spin2"], 2), d).doit()
            prod *= CG(sp.Rational(c1["spin2"], 2), sp.Rational(c1["hel2"], 2), sp.Rational(c2["spin2"], 2), sp.Rational(-c2["hel2"], 2), sp.Rational(n["S2"], 2), d).doit()
        return complex(sp.N(prod))

    a = {}
    val = {}
    for tr in ampl.abstract_reaction(rc)["trs"]:
        k = ls_key(tr)
        if k not in a:
            a[k] = complex(rng.uniform(-1, 1), rng.uniform(-1, 1))
        val[chain_key(tr)] = val.get(chain_key(tr), 0) + a[k] * cg_product(tr)
    recs = []
    chains = rec_h["chains"]
    trs = rec_h["trs"]
    by_coef = {}
    for i, (tr, ch) in enumerate(zip(trs, chains)):
        if ch.get("found") and ch["coef"]:
            by_coef.setdefault(tuple(ch["coef"]), []).append(i)
    scale = max([abs(v) for v in val.values()] + [1e-9])
    for coef, idx in by_coef.items():
        ref = idx[0]
        for j in idx[1:]:
            vi, vj = val.get(chain_key(trs[ref])), val.get(chain_key(trs[j]))
            if vi is None or vj is None:
                continue
            si, sj = chains[ref]["sign_num"], chains[j]["sign_num"]
            d = abs(si * vj - sj * vi) / scale   # C = val_i / s_i must be the same for all chains of the class
            recs.append({"kind": "cgexp", "id": f"cgexp:{name}:{ref}:{j}", "diff_q": int(min(round(d * 1e9), 2_000_000_000)),
                         "nonzero": int(abs(vi) > 1e-9 * scale or abs(vj) > 1e-9 * scale)})
    return recs


def run(chk, replay=None):
    tier = chk.tier
    _TARGETED["n"] = 0
    chk.assume("TLC/SANY", "projection of chain terms (vf/ampl.py)", "coefficient sharing is read off the observed model")
    real = [("lc_pkpi", "helicity"), ("jpsi_ksp_sigma", "helicity")] + ([("jpsi_ksp_two", "helicity"), ("jpsi_gpp_f2", "helicity"), ("jpsi_3pi_rho", "helicity")] if tier == "thorough" else [])
    cases = ampl_run.build_cases(chk, n_synth=500 if tier == "thorough" else 60, configs=configs, real=real, which={"parity"}, budget_s=900 if tier == "thorough" else 40, spec_fn=spec_fn, prehistory=True)
    # the TLC-enumerated universe of Amplitude_MC (every tree, spins <= 1, eta = +-1 at both nodes): parity clause on every pair
    cases = cases + ampl_run.universe_cases(chk, stride=1 if tier == "thorough" else 12, offset=4, which={"parity"})
    cases = cases + ampl_run.universe_cases(chk, stride=4 if tier == "thorough" else 80, offset=1, which={"parity"}, maxspin2=1, nfs=4, name="universe4")
    tv, drifts, byid = ampl_run.validate(chk, cases)
    ok_cases = [c for c in cases if c[3] is not None]
    chk.count(len(ok_cases))
    pairs = tv.stats.get("parity-pairs", 0)
    chk.part("universe", models=len(ok_cases), partner_pairs_checked=pairs, shared_coefficient_pairs_checked=tv.stats.get("shared-coefficient-pairs", 0))
    if pairs == 0:
        raise Machinery("vacuous: no pair of parity-partner chains sharing a coefficient was found")
    for c in ok_cases:
        etas = tuple(sorted((tuple(n["parent"]), n["eta"]) for n in c[4]["trs"][0]["nodes"]))
        if any(e for _, e in etas):
            chk.nontrivial((ampl.digest(c[4]["trs"]), str(c[4]["cfg"])))
    s = next((c[4] for c in ok_cases if any(n["eta"] for n in c[4]["trs"][0]["nodes"])), ok_cases[0][4])
    chk.sample({"label": s["label"], "nodes": s["trs"][0]["nodes"], "chains": [{k: ch[k] for k in ("sign_num", "coef")} for ch in s["chains"][:4] if ch.get("found")]})
    for clause, rid, info in tv.rejects:
        label, reaction, cfg, model, rec = byid[rid]
        if clause == "coefficient-shared-only-by-related-chains":
            chk.violation(f"{clause}:{'canonical' if rec['canonical'] else 'helicity'}",
                          f"{label} cfg={rec['cfg']}: chains {info[0]} and {info[1]} carry the same coefficient {info[2]} although they are neither equal nor "
                          f"parity partners (node-wise equal or reversed daughters / the same LS combination)", {"label": label, "cfg": rec["cfg"], "trs": [rec["trs"][info[0] - 1], rec["trs"][info[1] - 1]]})
            continue
        n_constrained = sum(1 for n in rec["trs"][0]["nodes"] if n["eta"])
        etas = sorted({n["eta"] for n in rec["trs"][0]["nodes"] if n["eta"]})
        sig = f"{clause}:constrained-nodes={min(n_constrained, 2)}{'+' if n_constrained > 2 else ''}:{'unlike-eta' if len(etas) > 1 else 'like-eta'}"
        chk.violation(sig, f"{label} cfg={rec['cfg']}: chains {info[0]} and {info[1]} share a coefficient, signs {info[2]}, {info[3]}, required product of eta over the reversed nodes {info[4]}", {"label": label, "cfg": rec["cfg"], "trs": [rec["trs"][info[0] - 1], rec["trs"][info[1] - 1]]})
    # the 'equivalently' clause speaks of THE Clebsch-Gordan expansion: the canonical chains have to carry exactly the documented
    # factors CG(L,0;S,lambda|J,lambda) CG(s1,l1;s2,-l2|S,lambda) with lambda = l1 - l2 in the daughter order of the helicity
    # chain (Amplitude.tla: ChainCG) - judged on a reaction whose isobars are on either side of the bachelor
    ccases = ampl_run.build_cases(chk, n_synth=0, configs=lambda r, re_, l: iter([{}]), real=[("jpsi_3pi_rho", "canonical-helicity")], which={"formula"}, budget_s=120)
    ccases = [c for c in ccases if c[3] is not None]
    if ccases:
        tvx, _, xbyid = ampl_run.validate(chk, ccases, name="trace_amplitude_cg_factors")
        for clause, rid, info in tvx.rejects:
            chk.violation(f"{clause}:canonical:cg-expansion-factors", f"{clause} rejected for {xbyid[rid][0]}: {str(info)[:500]}", {"label": xbyid[rid][0], "record": xbyid[rid][4]})
        chk.count(len(ccases))
        chk.part("cg_expansion_factors", models=len(ccases), chains=tvx.stats.get("chains", 0))
    # the 'equivalently' clause on real reactions available in both formalisms (observation law)
    cg = []
    for nm in (["jpsi_ksp_sigma"] + (["jpsi_gpp_f2", "jpsi_gpp_f0"] if tier == "thorough" else [])):
        cg += cg_expansion_records(chk, nm, tier)
    if cg:
        tvc = trace.validate("Trace_Observe", cg)
        chk.add_tlc("trace_cg_expansion", tvc.res, traces=len(cg))
        chk.part("cg_expansion", pairs=len(cg), stats=tvc.stats)
        for clause, rid, info in tvc.rejects:
            chk.violation(f"{clause}:{rid.split(':')[1]}", f"{rid}: chains sharing one coefficient require different coupling values under the Clebsch-Gordan expansion of random LS coefficients: {info}", {"record": rid})
    import copy

    # binding demonstration: flip one observed sign in a model that has partner pairs
    for c in ok_cases:
        rec = c[4]
        if any(n["eta"] for n in rec["trs"][0]["nodes"]) and len({tuple(ch.get("coef", [])) for ch in rec["chains"]}) < len(rec["chains"]):
            bad = copy.deepcopy(rec)
            bad.pop("label", None)
            bad["cfg"] = ""
            bad["id"] = 987656
            tv0 = trace.validate("Trace_Amplitude", [bad])
            if tv0.stats.get("parity-pairs", 0) == 0:
                continue
            bad["chains"][0]["sign_num"] *= -1
            j = next((i for i, ch in enumerate(bad["chains"]) if i and ch.get("coef") == bad["chains"][0].get("coef")), None)
            tvb = trace.validate("Trace_Amplitude", [bad])
            if j is not None and not tvb.rejects and tv0.rejects == []:
                continue
            if tvb.rejects:
                # ... and give a chain that is NOT related to chain 0 the coefficient of chain 0
                bad2 = copy.deepcopy(rec)
                bad2.pop("label", None)
                bad2["cfg"], bad2["id"] = "", 987657
                c0 = bad2["chains"][0].get("coef")
                k = next((i for i, ch in enumerate(bad2["chains"]) if i and ch.get("found") and ch.get("coef") and ch.get("coef") != c0), None)
                rej2 = []
                if k is not None and c0:
                    bad2["chains"][k]["coef"] = c0
                    rej2 = sorted({r[0] for r in trace.validate("Trace_Amplitude", [bad2]).rejects})
                    if "coefficient-shared-only-by-related-chains" not in rej2:
                        # (a reaction whose parity factors are not a function of the decay: the clause makes no claim there) - next model
                        continue
                chk.part("binding_demo", corrupted="chains[0].sign; chains[k].coef := chains[0].coef", rejected_by=sorted({r[0] for r in tvb.rejects} | set(rej2)))
                break
    else:
        raise Machinery("binding demonstration failed: no flipped sign was rejected")
    chk.cov["rule"] = ("cases = models of synthetic helicity-formalism reactions (2..4 final states, spins<=5/2) with eta in {none,+1,-1} chosen "
                       "independently per node, x naming flags, plus real reactions; the law is evaluated on every pair of chains; distinct = "
                       "distinct (transitions, flags) with at least one constrained node")
