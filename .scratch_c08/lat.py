import sympy, itertools, math
print(sympy.isprime(46337), 46337**2 < 2**31)
# quadruples with integer mass, sorted by m*(E+m)
res=[]
for E in range(2,40):
    for x in range(0,E):
        for y in range(x,E):
            for z in range(y,E):
                m2 = E*E-x*x-y*y-z*z
                if m2<=0: continue
                m = math.isqrt(m2)
                if m*m!=m2: continue
                if math.gcd(math.gcd(E,x),math.gcd(y,z))!=1: continue
                den = m*(E+m)//math.gcd(m*(E+m), math.gcd(math.gcd(x*x,y*y),math.gcd(z*z, math.gcd(x*y, math.gcd(x*z,y*z))))) if (x or y or z) else 1
                res.append((m*(E+m), m, E, x,y,z))
res.sort()
for r in res[:60]: print(r)
