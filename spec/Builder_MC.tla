---------------------------- MODULE Builder_MC ----------------------------
EXTENDS Builder
DevNone == {}
DevPinned == {"DpdCacheAliasing"}
DevNoReset == {"NoReset"}
DevResetAtEnd == {"ResetAtEnd"}
DevSharedNameMap == {"SharedNameMap"}
DevCrossReactionCache == {"CrossReactionCache"}
\* builders 1 and 2 work on the reaction as generated ("full"), builder 3 on the same decay with a restricted
\* helicity set of the initial state ("sub")
RxMap == [b \in Builders |-> IF b = 3 THEN "sub" ELSE "full"]
\* bound the configuration space explored exhaustively: at most one builder has assigned dynamics
=============================================================================
