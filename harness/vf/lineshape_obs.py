"""Projection of SymPy / numpy values to the exact integers that spec/Lineshape.tla works on
(shared by props/c11.py and props/c12.py).

  small rational  [n, d]             gcd-normalised, d > 0, |n|, d < 2^31   (Lineshape!R..)
  natural  N      [l0, l1, ...]      little-endian limbs base 1000, [] = 0  (LineshapeBig)
  integer  Z      [N_pos, N_neg]     value = pos - neg
  rational Q      [Z_num, Z_den]
  observation     {"st": "exact"|"num"|"undef", "sq": Q, "quad": "pr|pi|nr|ni|zero|none",
                   "re": Z, "im": Z}   re/im = round(x * 10^12) of a 50-digit evaluation
"""
from __future__ import annotations

import math

import sympy as sp

from .core import Machinery

BASE = 1000
SCALE = 10**12
DIGITS = 50
Z0 = [[], []]
Q0 = [[[], []], [[1], []]]


def nat(n: int) -> list[int]:
    assert n >= 0
    out = []
    while n:
        n, r = divmod(n, BASE)
        out.append(r)
    return out


def bigz(n: int) -> list:
    n = int(n)
    return [nat(n), []] if n >= 0 else [[], nat(-n)]


def bigq(r) -> list:
    r = sp.Rational(r)
    return [bigz(r.p), bigz(r.q)]


def unz(z) -> int:
    f = lambda limbs: sum(int(x) * BASE**i for i, x in enumerate(limbs))
    return f(z[0]) - f(z[1])


def rat(x) -> list[int]:
    r = sp.Rational(x)
    if abs(r.p) >= 2**31 or r.q >= 2**31:
        raise OverflowError(f"{r} does not fit a 32-bit rational")
    return [int(r.p), int(r.q)]


def is_undefined(v) -> bool:
    v = sp.sympify(v)
    if v.has(sp.nan, sp.zoo, sp.oo, -sp.oo):
        return True
    return False


def quantise(x) -> int:
    """round(x * 10^12) of a real SymPy number evaluated to 50 digits."""
    r = sp.N(x, DIGITS)
    if r.has(sp.nan, sp.zoo, sp.oo, -sp.oo) or not r.is_number:
        raise ValueError(f"not a finite number: {x}")
    if r.is_real is False:
        raise ValueError(f"not real: {x}")
    return int(sp.floor(r * SCALE + sp.Rational(1, 2)))


def reim50(v):
    """(re, im) of v evaluated to 50 digits; tiny spurious parts (< 1e-40) are noise of evalf."""
    n = sp.N(v, DIGITS)
    re, im = n.as_real_imag()
    return re, im


UNDEF = {"st": "undef", "sq": Q0, "quad": "none", "re": Z0, "im": Z0}


def observe(v, want_exact: bool = True) -> dict:
    """Observation record of an exact SymPy value.  `exact`: v^2 is a rational number (v is a
    rational times a square root, possibly times I) -> log the square and the quadrant."""
    try:
        v = sp.sympify(v)
        if is_undefined(v) or not v.is_number:
            return dict(UNDEF)
        re, im = reim50(v)
        if is_undefined(re) or is_undefined(im):
            return dict(UNDEF)
        o = {"st": "num", "sq": Q0, "quad": "none", "re": bigz(quantise(re)), "im": bigz(quantise(im))}
    except (TypeError, ValueError, ZeroDivisionError):
        return dict(UNDEF)
    if want_exact:
        try:
            sq = sp.expand(v * v)
            if not sq.is_Rational:
                sq = sp.radsimp(sp.simplify(sq))
            if sq.is_Rational:
                if sq == 0:
                    quad = "zero"
                elif sq > 0:
                    quad = "pr" if re > 0 else "nr"
                else:
                    quad = "pi" if im > 0 else "ni"
                # the quadrant is only meaningful if v really sits on an axis
                on_axis = abs(im) < sp.Float("1e-40") if sq >= 0 else abs(re) < sp.Float("1e-40")
                if on_axis:
                    o.update(st="exact", sq=bigq(sq), quad=quad)
        except (TypeError, ValueError):
            pass
    return o


def observe_float(z) -> dict:
    """Observation of a numpy / python complex or float (double precision)."""
    try:
        z = complex(z)
    except (TypeError, ValueError):
        return dict(UNDEF)
    if math.isnan(z.real) or math.isnan(z.imag) or math.isinf(z.real) or math.isinf(z.imag):
        return dict(UNDEF)
    q = lambda x: int(sp.floor(sp.Rational(x) * SCALE + sp.Rational(1, 2)))
    return {"st": "num", "sq": Q0, "quad": "none", "re": bigz(q(z.real)), "im": bigz(q(z.imag))}


def show(o: dict) -> str:
    if o["st"] == "undef":
        return "undefined"
    re, im = unz(o["re"]), unz(o["im"])
    s = f"{re / SCALE:.12g}{im / SCALE:+.12g}i"
    if o["st"] == "exact":
        n, d = unz(o["sq"][0]), unz(o["sq"][1])
        s += f" (square {sp.Rational(n, d)}, quadrant {o['quad']})"
    return s


def fits32(x) -> bool:
    try:
        rat(x)
        return True
    except (OverflowError, TypeError, ValueError):
        return False


def need(cond, msg):
    if not cond:
        raise Machinery(msg)
