import sys; sys.path.insert(0,"/verif/harness")
import sympy as sp, time
from vf.lorentz_exact import *
I = Impl(); lz, ae = I.lz, I.ae
R = sp.Rational
env = {I.p: (5,1,2,4), I.q:(3,2,1,0), I.b: R(3,5), I.a1: (R(3,5),R(4,5)), I.a2:(R(0),R(1))}
t=time.time()
print(I.exact_mat(lz.BoostMatrix(I.p), env))
print(I.exact_mat(lz.BoostMatrix(lz.NegativeMomentum(I.p)), env))
print(I.exact_vec(lz.NegativeMomentum(I.p), env))
print(I.exact_mat(lz.BoostZMatrix(I.b, lz.ArraySize(I.b)), env))
print(I.exact_mat(lz.RotationYMatrix(-I.a1, lz.ArraySize(I.a1)), env))
print(I.exact_mat(lz.RotationZMatrix(I.a2, lz.ArraySize(I.a2)), env))
e = lz.BoostMatrix(ae.ArrayMultiplication(lz.BoostMatrix(I.q), I.p))
print(I.exact_mat(e, env))
print(I.exact_vec(ae.ArrayMultiplication(lz.BoostMatrix(I.p), I.p), env))
print(I.exact_args(lz.BoostMatrix(I.p), env), I.exact_args(lz.BoostZMatrix(I.b, lz.ArraySize(I.b)), env), I.exact_args(lz.RotationYMatrix(-I.a1, lz.ArraySize(I.a1)), env))
print(time.time()-t)
print(len(momentum_lattice(30, 40)), momentum_lattice(12, 20))
