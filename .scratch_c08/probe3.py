import sympy as sp, numpy as np
from ampform.kinematics.lorentz import BoostMatrix
from ampform.sympy._array_expressions import ArraySymbol
p = ArraySymbol("p", shape=[])
f = sp.lambdify([p], BoostMatrix(p).doit(), cse=False)
try:
    f(np.array([[25.0, 2, 3, 6]]))
except Exception as e:
    print(type(e).__name__, e)
