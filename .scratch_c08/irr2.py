import sys
sys.path.insert(0, "/verif/harness")
from vf import core
from vf.props import c08
chk = core.Check("C08", "thorough", 0, "model_checking")
rec = c08.Recorder(); gen = c08.Gen(chk, rec)
gen.numeric(10)
for r in rec.records:
    if r["k"] == "approx": print(r, rec.meta[r["id"]])
print(len(rec.records))
