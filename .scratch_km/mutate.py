"""mutation runner (scratch; not part of the deliverable): python mutate.py <name> [C09|C10|both]"""
import subprocess, sys, re, json, os, time
WT="/tmp/wt_km"; F=WT+"/src/ampform/dynamics/kmatrix.py"
M={
 # --- C09-oriented
 "krho_order": ("t_hat = k_matrix * (sp.eye(n_channels) - sp.I * rho * k_matrix).inv()", "t_hat = k_matrix * (sp.eye(n_channels) - sp.I * k_matrix * rho).inv()"),
 "no_sqrt": ("t_matrix = sqrt_rho_conj * t_hat * sqrt_rho\n", "t_matrix = rho * t_hat * rho\n"),
 "no_conj": ("        sqrt_rho_conj = sp.conjugate(sqrt_rho)\n        k_matrix = create_symbol_matrix(\"K\", n_channels, n_channels)\n        t_hat", "        sqrt_rho_conj = sqrt_rho\n        k_matrix = create_symbol_matrix(\"K\", n_channels, n_channels)\n        t_hat"),
 "residue_gi_gi_rel": ("        parametrization = (g_i * g_j) / (pole_position[pole_id] ** 2 - s)\n        return sp.Sum(parametrization, (pole_id, 1, n_poles))\n\n\nclass NonRelativisticKMatrix",
                       "        parametrization = (g_i * g_i) / (pole_position[pole_id] ** 2 - s)\n        return sp.Sum(parametrization, (pole_id, 1, n_poles))\n\n\nclass NonRelativisticKMatrix"),
 "ma_j_in_channel_i": ("                    m_a=m_a[i],\n                    m_b=m_b[i],\n                    angular_momentum=angular_momentum,", "                    m_a=m_a[j],\n                    m_b=m_b[i],\n                    angular_momentum=angular_momentum,"),
 "transposed_asym": ("        if return_t_hat:\n            return t_hat, k_matrix\n        t_matrix = sqrt_rho_conj * t_hat * sqrt_rho\n        return t_matrix, k_matrix", "        if return_t_hat:\n            return t_hat, k_matrix\n        t_matrix = sqrt_rho_conj * t_hat * sqrt_rho\n        t_matrix = sp.Matrix(t_matrix); t_matrix[0, n_channels - 1] = 2 * t_matrix[0, n_channels - 1]\n        return t_matrix, k_matrix"),
 "nonrel_plus_i": ("t_matrix = k_matrix * (sp.eye(n_channels) - sp.I * k_matrix).inv()", "t_matrix = k_matrix * (sp.eye(n_channels) + sp.I * k_matrix).inv()"),
 "nonrel_no_i": ("t_matrix = k_matrix * (sp.eye(n_channels) - sp.I * k_matrix).inv()", "t_matrix = k_matrix * (sp.eye(n_channels) - k_matrix).inv()"),
 "rho_wrong_channel": ("            sp.Symbol(f\"rho{i}\"): phsp_factor(s, m_a[i], m_b[i])\n            for i in range(n_channels)\n        })\n\n    @staticmethod\n    def parametrization(  # noqa: PLR0917\n        i,\n        j,", "            sp.Symbol(f\"rho{i}\"): phsp_factor(s, m_a[0], m_b[i])\n            for i in range(n_channels)\n        })\n\n    @staticmethod\n    def parametrization(  # noqa: PLR0917\n        i,\n        j,"),
 "kmap_ii": ("            k_matrix[i, j]: cls.parametrization(\n                i=i,\n                j=j,\n                s=s,", "            k_matrix[i, j]: cls.parametrization(\n                i=i,\n                j=i,\n                s=s,"),
 "nr_residue_sqrt_dropped": ("            return residue_constant[pole_id, i] * sp.sqrt(\n                pole_position[pole_id] * pole_width[pole_id, i]\n            )", "            return residue_constant[pole_id, i] * (\n                pole_position[pole_id] * pole_width[pole_id, i]\n            )"),
 "t_hat_flag_ignored": ("        if return_t_hat:\n            return t_hat, k_matrix\n        t_matrix = sqrt_rho_conj", "        if False:\n            return t_hat, k_matrix\n        t_matrix = sqrt_rho_conj"),
 "relk_transposed_equivalent": ("        t_matrix = sqrt_rho_conj * t_hat * sqrt_rho\n        return t_matrix, k_matrix", "        t_matrix = (sqrt_rho_conj * t_hat * sqrt_rho).T\n        return t_matrix, k_matrix"),
 "relk_cache_without_flag": ("        t_matrix, k_matrix = cls._create_matrices(n_channels, return_t_hat)\n", "        _memo = globals().setdefault(\"_vf_memo\", {})\n        if n_channels not in _memo:\n            _memo[n_channels] = cls._create_matrices(n_channels, return_t_hat)\n        t_matrix, k_matrix = _memo[n_channels]\n"),
 # --- C10-oriented
 "phsp_not_forwarded": ("                    meson_radius=meson_radius,\n                    phsp_factor=phsp_factor,\n                )\n                for i in range(n_channels)\n                for j in range(n_channels)\n            })\n            .xreplace({\n                p_vector[i]", "                    meson_radius=meson_radius,\n                )\n                for i in range(n_channels)\n                for j in range(n_channels)\n            })\n            .xreplace({\n                p_vector[i]"),
 "cache_without_flag": ("    @staticmethod\n    @functools.cache\n    def _create_matrices(\n        n_channels, return_f_hat: bool = False\n    )", "    @staticmethod\n    def _create_matrices(n_channels, return_f_hat: bool = False):\n        return RelativisticPVector._create_matrices_cached(n_channels) if n_channels in RelativisticPVector._seen else RelativisticPVector._first(n_channels, return_f_hat)\n\n    _seen: dict = {}\n\n    @staticmethod\n    def _first(n_channels, return_f_hat):\n        RelativisticPVector._seen[n_channels] = RelativisticPVector._create_matrices_impl(n_channels, return_f_hat)\n        return RelativisticPVector._seen[n_channels]\n\n    @staticmethod\n    def _create_matrices_cached(n_channels):\n        return RelativisticPVector._seen[n_channels]\n\n    @staticmethod\n    def _create_matrices_impl(\n        n_channels, return_f_hat: bool = False\n    )"),
 "pvec_gamma_wrong_index": ("        beta = beta_constant[pole_id]\n        gamma = residue_constant[pole_id, i]\n        mass0 = pole_position[pole_id]", "        beta = beta_constant[pole_id]\n        gamma = residue_constant[pole_id, 0]\n        mass0 = pole_position[pole_id]"),
 "f_hat_ignored": ("        if return_f_hat:\n            return f_hat, k_matrix, p_vector", "        if False:\n            return f_hat, k_matrix, p_vector"),
 "inplace_edit_nrp": ("        return f_vector.xreplace({\n            k_matrix[i, j]: NonRelativisticKMatrix.parametrization(", "        for _r in range(n_channels):\n            f_vector[_r, 0] = f_vector[_r, 0].xreplace({k_matrix[i, j]: NonRelativisticKMatrix.parametrization(i=i, j=j, s=s, pole_position=pole_position, pole_width=pole_width, residue_constant=residue_constant, n_poles=n_poles, pole_id=pole_id) for i in range(n_channels) for j in range(n_channels)})\n        return f_vector.xreplace({\n            k_matrix[i, j]: NonRelativisticKMatrix.parametrization("),
 "nrp_f_transposed_inverse": ("f_vector = (sp.eye(n_channels) - sp.I * k_matrix).inv() * p_vector", "f_vector = (sp.eye(n_channels) + sp.I * k_matrix).inv() * p_vector"),
 "relp_khat_rho_order": ("f_hat = (sp.eye(n_channels) - sp.I * k_hat * rho).inv() * p_vector", "f_hat = (sp.eye(n_channels) - sp.I * rho * k_hat).inv() * p_vector"),
 "relp_L_not_forwarded_to_ff": ("        form_factor = FormFactor(s, m_a[i], m_b[i], angular_momentum, meson_radius)", "        form_factor = FormFactor(s, m_a[i], m_b[i], 0, meson_radius)"),
 "relp_radius_not_forwarded": ("                    angular_momentum=angular_momentum,\n                    meson_radius=meson_radius,\n                    phsp_factor=phsp_factor,\n                )\n                for i in range(n_channels)\n                for j in range(n_channels)\n            })\n            .xreplace({\n                p_vector[i]", "                    angular_momentum=angular_momentum,\n                    phsp_factor=phsp_factor,\n                )\n                for i in range(n_channels)\n                for j in range(n_channels)\n            })\n            .xreplace({\n                p_vector[i]"),
 "relp_f_no_sqrt_rho": ("        f_vector = sqrt_rho * f_hat\n", "        f_vector = rho * f_hat\n"),
 "relp_ff_dropped": ("            beta * gamma * mass0 * width * form_factor / (mass0**2 - s),", "            beta * gamma * mass0 * width / (mass0**2 - s),"),
}
def run(name, props):
    subprocess.run(["git","-C",WT,"checkout","-q","--","src/ampform/dynamics/kmatrix.py"],check=True)
    src=open(F).read(); old,new=M[name]
    if src.count(old)!=1: print(name,"PATTERN COUNT",src.count(old)); return
    open(F,"w").write(src.replace(old,new))
    out={}
    for p in props:
        t=time.time()
        r=subprocess.run(["/verif/bin/vcheck",p,"--tier","quick"],capture_output=True,text=True,env=dict(os.environ,VERIF_REPO_SRC=WT+"/src"),cwd="/verif")
        sigs=re.findall(r"signature: (.*)",r.stdout); drift=re.findall(r"SPEC-DRIFT: (.*)",r.stdout); mach=re.findall(r"MACHINERY-FAILURE.*",r.stdout)
        out[p]=dict(exit=r.returncode,sigs=sigs,drift=[d[:160] for d in drift[:3]],mach=[m[:300] for m in mach],t=round(time.time()-t))
        print(name,p,json.dumps(out[p]),flush=True)
    subprocess.run(["git","-C",WT,"checkout","-q","--","src/ampform/dynamics/kmatrix.py"],check=True)
    return out
if __name__=="__main__":
    names=sys.argv[1].split(","); props=["C09","C10"] if len(sys.argv)<3 or sys.argv[2]=="both" else [sys.argv[2]]
    if names==["all"]: names=list(M)
    for n in names: run(n,props)
