--------------------------- MODULE KMatrixLattice ---------------------------
(***************************************************************************)
(* The finite lattice of exact K-matrix inputs shared by the reference     *)
(* model (KMatrixRef) and the trace specification (Trace_KMatrix).         *)
(*                                                                         *)
(*   K_ij  in {-1, 0, 1/2, 1, 2}        real, symmetric (upper triangle)   *)
(*   rho_i in {1/4, 1, 4, 9/25}         positive squares of rationals      *)
(*   rho_i in {i/2, 2i, 8i}             below threshold (purely imaginary  *)
(*                                      with Gaussian-rational principal   *)
(*                                      square roots (1+i)/2, 1+i, 2+2i);  *)
(*                                      used only for the mechanism law    *)
(*                                      T = sqrt(rho)* T^ sqrt(rho)        *)
(*   P     three linearly independent complex vectors per n                *)
(*                                                                         *)
(* A lattice point of dimension n is identified by index vectors           *)
(*   kx in [1..Tri(n) -> 1..5] (upper triangle, row major), rx in [1..n -> *)
(*   1..4] (1..7 with the sub-threshold values), px in 1..3,               *)
(* or by its ordinal  ord in 0..LatticeSize(n)-1  (mixed radix, K digits   *)
(* least significant), px = ord % 3 + 1.                                   *)
(***************************************************************************)
EXTENDS KMatrixLaw

KVals == << <<-1, 1>>, <<0, 1>>, <<1, 2>>, <<1, 1>>, <<2, 1>> >>
NK == Len(KVals)
\* positive rho with rational roots, then sub-threshold rho with Gaussian roots
RhoVals == << GR(<<1, 4>>), GR(<<1, 1>>), GR(<<4, 1>>), GR(<<9, 25>>),
              <<RZero, <<1, 2>>>>, <<RZero, <<2, 1>>>>, <<RZero, <<8, 1>>>> >>
SqVals ==  << GR(<<1, 2>>), GR(<<1, 1>>), GR(<<2, 1>>), GR(<<3, 5>>),
              << <<1, 2>>, <<1, 2>> >>, <<ROne, ROne>>, << <<2, 1>>, <<2, 1>> >> >>
NRho == 4            \* the first NRho values are real and positive (the property's domain)
NRhoAll == Len(RhoVals)
PEntries == << GOne, <<RZero, <<1, 2>>>>, << <<-1, 1>>, <<2, 1>> >> >>
NP == Len(PEntries)

ASSUME \A r \in 1..NRhoAll : GMul(SqVals[r], SqVals[r]) = RhoVals[r]
ASSUME \A r \in 1..NRho : GIsReal(RhoVals[r]) /\ RPos(RhoVals[r][1]) /\ GIsReal(SqVals[r]) /\ RPos(SqVals[r][1])
\* principal branch below threshold: Re sqrt > 0
ASSUME \A r \in (NRho + 1)..NRhoAll : RPos(SqVals[r][1]) /\ ~GIsReal(RhoVals[r])

Tri(n) == (n * (n + 1)) \div 2
TriIdx(n, i, j) ==                       \* 1 <= i <= j <= n
  (i - 1) * n - ((i - 1) * (i - 2)) \div 2 + (j - i) + 1
Min(a, b) == IF a < b THEN a ELSE b
Max(a, b) == IF a < b THEN b ELSE a

RECURSIVE Pow(_, _)
Pow(b, e) == IF e = 0 THEN 1 ELSE b * Pow(b, e - 1)

\* rational symmetric K, Gaussian rho / sqrt(rho) / P of a lattice point
KOf(n, kx) == Mk(n, n, LAMBDA i, j : KVals[kx[TriIdx(n, Min(i, j), Max(i, j))]])
RhoOf(n, rx) == MkV(n, LAMBDA i : RhoVals[rx[i]])
SqOf(n, rx) == MkV(n, LAMBDA i : SqVals[rx[i]])
POf(n, px) == MkV(n, LAMBDA i : PEntries[((px + i - 2) % NP) + 1])
AboveThreshold(n, rx) == \A i \in 1..n : rx[i] <= NRho

LatticeSize(n) == Pow(NK, Tri(n)) * Pow(NRho, n)        \* the property's domain (real positive rho)
KxOfOrd(n, ord) == [e \in 1..Tri(n) |-> ((ord \div Pow(NK, e - 1)) % NK) + 1]
RxOfOrd(n, ord) == [i \in 1..n |-> ((ord \div (Pow(NK, Tri(n)) * Pow(NRho, i - 1))) % NRho) + 1]
PxOfOrd(ord) == (ord % NP) + 1
=============================================================================
