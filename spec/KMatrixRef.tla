----------------------------- MODULE KMatrixRef -----------------------------
(***************************************************************************)
(* Reference model for C09/C10: a walk over the whole lattice of           *)
(* KMatrixLattice for n <= MaxN <= 2.  In every state the amplitudes are   *)
(* computed inside TLA+ by Cramer's rule and every law of KMatrixLaw is an *)
(* invariant: the laws are consistent, they characterise the solution, and *)
(* unitarity and symmetry follow for every real symmetric K and positive   *)
(* rho of the lattice.                                                     *)
(*                                                                         *)
(* Dev selects a named deviation of the reference (sensitivity of the      *)
(* laws; each must make TLC report a violated invariant):                  *)
(*   "KRhoOrder"   T^ = K (1 - i K rho)^-1                                 *)
(*   "RhoNotSqrt"  T = rho T^ rho                                          *)
(***************************************************************************)
EXTENDS KMatrixLattice

CONSTANTS MaxN, Dev,
          WithP      \* FALSE: the production vector stays at its first lattice value (C09 does not need it)

VARIABLES n, kx, rx, px
vars == <<n, kx, rx, px>>

Init == /\ n \in 1..MaxN
        /\ kx = [e \in 1..Tri(n) |-> 1]
        /\ rx = [i \in 1..n |-> 1]
        /\ px = 1
SetK(e, v) == kx[e] # v /\ kx' = [kx EXCEPT ![e] = v] /\ UNCHANGED <<n, rx, px>>
SetRho(i, v) == rx[i] # v /\ rx' = [rx EXCEPT ![i] = v] /\ UNCHANGED <<n, kx, px>>
SetP(v) == WithP /\ px # v /\ px' = v /\ UNCHANGED <<n, kx, rx>>
Next == \/ \E e \in 1..Tri(n), v \in 1..NK : SetK(e, v)
        \/ \E i \in 1..n, v \in 1..NRho : SetRho(i, v)
        \/ \E v \in 1..NP : SetP(v)
Spec == Init /\ [][Next]_vars

K == MReal(KOf(n, kx))
Rho == RhoOf(n, rx)
Sq == SqOf(n, rx)
P == Col(POf(n, px))

That == IF Dev = "KRhoOrder" THEN MMul(K, Inverse(OneMinusIKD(Rho, K))) ELSE RefThat(K, Rho)
T == IF Dev = "RhoNotSqrt" THEN MMul(MMul(MDiag(Rho), That), MDiag(Rho))
     ELSE MMul(MMul(MDiag(VConj(Sq)), That), MDiag(Sq))
Tnr == RefTnr(K)

TypeOK == /\ n \in 1..MaxN
          /\ RealSymmetric(KOf(n, kx))
          /\ PositiveRho([i \in 1..n |-> Rho[i][1]], [i \in 1..n |-> Sq[i][1]])
          /\ \A i \in 1..n : GIsReal(Rho[i]) /\ GIsReal(Sq[i])

\* C09 -----------------------------------------------------------------------
RelLaws == RelThatLaw(That, K, Rho) /\ RelTLaw(T, That, Sq)
RelSymmetric == Symmetric(T) /\ Symmetric(That)
RelUnitary == InBudget(T) => Unitary(T)

\* All laws in one invariant: every matrix is computed once per state (LET values are
\* cached by TLC); a failing law is named by a PrintT.
Named(name, ok) == IF ok THEN TRUE ELSE PrintT(<<"LAW-VIOLATED", name, n, kx, rx, px>>) /\ FALSE
AllLaws ==
  LET k == K  rho == Rho  sq == Sq  p == P
      that == RefThat(k, rho)
      t == MMul(MMul(MDiag(VConj(sq)), that), MDiag(sq))
      tnr == RefTnr(k)
      f == RefF(k, p)
      fhat == RefFhat(k, rho, sq, p)
      frel == MMul(MDiag(sq), fhat)
      ks == MMul(MMul(MDiag(sq), k), MDiag(sq))
      ct == CommonDen(t)  ctnr == CommonDen(tnr)
  IN
  \* C09: the mechanism laws characterise T^, T ...
  /\ Named("RelThatLaw", RelThatLaw(that, k, rho))
  /\ Named("RelTLaw", RelTLaw(t, that, sq))
  /\ Named("NonRelLaw", NonRelLaw(tnr, k))
  \* ... T = K'(1 - iK')^-1 for K' = sqrt(rho) K sqrt(rho): the two formulations agree ...
  /\ Named("RelIsNonRelOfScaledK", NonRelLaw(t, ks))
  \* ... and unitarity and symmetry follow for every real symmetric K and positive rho
  /\ Named("RelSymmetric", Symmetric(t) /\ Symmetric(that))
  /\ Named("NonRelSymmetric", Symmetric(tnr))
  /\ Named("RelUnitary", ct <= CMax => Unitary(t))
  /\ Named("NonRelUnitary", ctnr <= CMax => Unitary(tnr))
  \* the integer form of unitarity agrees with the Gaussian-rational form (small denominators only)
  /\ Named("UnitaryFormsAgree", /\ ctnr <= 150 => (Unitary(tnr) <=> UnitaryRat(tnr))
                                /\ ct <= 150 => (Unitary(t) <=> UnitaryRat(t)))
  \* C10
  /\ Named("NonRelFLaw", NonRelFLaw(f, k, p))
  /\ Named("FViaT", FViaT(f, tnr, p))
  /\ Named("RelFhatLaw", RelFhatLaw(fhat, k, sq, p))
  /\ Named("RelFLaw", RelFLaw(frel, fhat, sq))
  /\ Named("FrelClosed", MMul(OneMinusIK(k), frel) = MMul(MDiag(sq), p))      \* (1 - iK) F = sqrt(rho) P

\* how many lattice states have matrices inside the integer budget of Unitary (reported)
InBudgetBoth == InBudget(T) /\ InBudget(Tnr)
=============================================================================
