--------------------------- MODULE PhaseSpace3 ---------------------------
(* Three-body kinematics over the integers: the reference ("oracle") side of C20 and C19.

   Conventions (those of ampform.kinematics.phasespace / .angles and of the DPD paper):
     particle 0 decays to 1, 2, 3;   M = <<m0^2, m1^2, m2^2, m3^2>>  (squared masses: M[i+1]),
     S = <<s1, s2, s3>> with s_k the invariant mass squared of the pair NOT containing k
     (s1 = m23^2, s2 = m13^2, s3 = m12^2),  s1 + s2 + s3 = m0^2 + m1^2 + m2^2 + m3^2.
   Four-vectors are <<E, x, y, z>> over Int with metric (+,-,-,-).  Masses enter only squared, so
   integer four-vector events (whose masses are square roots of integers) are exact lattice points.

   A cosine is never computed: a value n / sqrt(d) (d > 0) is kept as the canonical pair
   Cos(n, d) = << sign n, n^2/d in lowest terms >> ("sign and square"), so that equality of
   cosines is equality of TLA+ values.  Everything stays below 2^31 for m0^2 <= 81 (bounds are
   derived in harness/vf/ps3_common.py next to the lattice generators).                         *)
EXTENDS Integers, Sequences, FiniteSets

Abs(x) == IF x < 0 THEN -x ELSE x
Sgn(x) == IF x > 0 THEN 1 ELSE IF x < 0 THEN -1 ELSE 0

RECURSIVE GCD(_, _)
GCD(a, b) == IF b = 0 THEN a ELSE GCD(b, a % b)                 \* a, b >= 0

\* n/d in lowest terms with positive denominator (d # 0)
Red(n, d) == LET g == GCD(Abs(n), Abs(d)) IN <<(Sgn(d) * n) \div g, Abs(d) \div g>>

\* a*b = c*d decided without forming the products (a/c = d/b in lowest terms)
ProdEq(a, b, c, d) ==
  IF a = 0 \/ b = 0 \/ c = 0 \/ d = 0 THEN (a = 0 \/ b = 0) <=> (c = 0 \/ d = 0)
  ELSE Red(a, c) = Red(d, b)

\* compare a/b with c/d (a, c >= 0; b, d > 0) by continued fractions: -1, 0, 1
RECURSIVE RatCmp(_, _, _, _)
RatCmp(a, b, c, d) ==
  LET qa == a \div b  qc == c \div d  ra == a % b  rc == c % d IN
  IF qa # qc THEN (IF qa < qc THEN -1 ELSE 1)
  ELSE IF ra = 0 /\ rc = 0 THEN 0
  ELSE IF ra = 0 THEN -1
  ELSE IF rc = 0 THEN 1
  ELSE -RatCmp(b, ra, d, rc)

\* ---- cosines and signed angles --------------------------------------------------------
MaxNum == 46340                                                  \* floor(sqrt(2^31 - 1))
Cos(n, d) == <<Sgn(n), Red(n * n, d)>>                           \* n / sqrt(d),  d > 0, |n| <= MaxNum
CosNeg(c) == <<-c[1], c[2]>>
CosOne == <<1, <<1, 1>>>>
\* a signed angle  sg * arccos(c), sg \in {1,-1};  the angle 0 has one representation
AngZero == <<"zero">>
Ang(sg, c) == IF c = CosOne THEN AngZero ELSE <<"acos", sg, c>>
AngNeg(a) == IF a = AngZero THEN a ELSE <<"acos", -a[2], a[3]>>

\* n_B/sqrt(d_B) + n_C/sqrt(d_C) >= 0   (d > 0), decided by sign and square
SumOfCosNonNeg(nB, dB, nC, dC) ==
  IF nB >= 0 /\ nC >= 0 THEN TRUE
  ELSE IF nB <= 0 /\ nC <= 0 THEN nB = 0 /\ nC = 0
  ELSE IF nB > 0 THEN RatCmp(nB * nB, dB, nC * nC, dC) >= 0     \* |cos B| >= |cos C|
  ELSE RatCmp(nC * nC, dC, nB * nB, dB) >= 0

\* ---- four-vectors ---------------------------------------------------------------------
Dot(p, q) == p[1] * q[1] - p[2] * q[2] - p[3] * q[3] - p[4] * q[4]
VAdd(p, q) == <<p[1] + q[1], p[2] + q[2], p[3] + q[3], p[4] + q[4]>>
Total(P) == VAdd(P[1], VAdd(P[2], P[3]))                         \* P = <<p1, p2, p3>>
\* Gram determinant: (three-vector dot product of a and b in the rest frame of q) * (-q.q)
Gram(q, a, b) == Dot(q, a) * Dot(q, b) - Dot(q, q) * Dot(a, b)
MassesOf(P) == <<Dot(Total(P), Total(P)), Dot(P[1], P[1]), Dot(P[2], P[2]), Dot(P[3], P[3])>>
PairsOf(P) == <<Dot(VAdd(P[2], P[3]), VAdd(P[2], P[3])),
                Dot(VAdd(P[1], P[3]), VAdd(P[1], P[3])),
                Dot(VAdd(P[1], P[2]), VAdd(P[1], P[2]))>>

\* ---- C20: Kallen, Kibble, third Mandelstam, PDG Dalitz limits ---------------------------
Kallen(x, y, z) == x * x + y * y + z * z - 2 * x * y - 2 * y * z - 2 * z * x
KallenFactored(x, b, c) == (x - (b + c) * (b + c)) * (x - (b - c) * (b - c))   \* y = b^2, z = c^2

ThirdMandelstam(s1, s2, M) == M[1] + M[2] + M[3] + M[4] - s1 - s2
Kibble(s1, s2, s3, M) ==
  Kallen(Kallen(s2, M[3], M[1]), Kallen(s3, M[4], M[1]), Kallen(s1, M[2], M[1]))
KibbleOf(s1, s2, M) == Kibble(s1, s2, ThirdMandelstam(s1, s2, M), M)

(* PDG kinematics review, Dalitz plot: at fixed s1 = m23^2, in the (23) rest frame
     E3' = a / (2 sqrt s1),  a = s1 - m2^2 + m3^2;     E1' = b / (2 sqrt s1),  b = m0^2 - s1 - m1^2;
     s2(max/min) = (E1' + E3')^2 - (sqrt(E3'^2 - m3^2) -/+ sqrt(E1'^2 - m1^2))^2
                 = ( (a+b)^2 - L1 - L2  +/-  2 sqrt(L1 L2) ) / (4 s1),
     L1 = Kallen(s1, m2^2, m3^2) = 4 s1 (E3'^2 - m3^2),  L2 = Kallen(m0^2, s1, m1^2) = 4 s1 (E1'^2 - m1^2).
   With the square root multiplied out:  s2min <= s2 <= s2max  <=>  Disc <= 0.                  *)
PdgL1(s1, M) == Kallen(s1, M[3], M[4])
PdgL2(s1, M) == Kallen(M[1], s1, M[2])
PdgMid4(s1, M) == LET ab == M[1] - M[2] - M[3] + M[4] IN ab * ab - PdgL1(s1, M) - PdgL2(s1, M)
PdgDisc(s1, s2, M) ==
  LET t == 4 * s1 * s2 - PdgMid4(s1, M) IN t * t - 4 * PdgL1(s1, M) * PdgL2(s1, M)
PdgDefined(s1, M) == s1 > 0 /\ PdgL1(s1, M) >= 0 /\ PdgL2(s1, M) >= 0
InsidePDG(s1, s2, M) == PdgDefined(s1, M) /\ PdgDisc(s1, s2, M) <= 0
\* bounding box, integer masses m = <<m0, m1, m2, m3>>
Sq(x) == x * x
SqAll(m) == <<Sq(m[1]), Sq(m[2]), Sq(m[3]), Sq(m[4])>>
InBox(s1, s2, m) == /\ Sq(m[3] + m[4]) <= s1 /\ s1 <= Sq(m[1] - m[2])
                    /\ Sq(m[2] + m[4]) <= s2 /\ s2 <= Sq(m[1] - m[3])

\* ---- C19: indices -----------------------------------------------------------------------
Nxt(i) == (i % 3) + 1                                            \* 1 -> 2 -> 3 -> 1
Prv(i) == ((i + 1) % 3) + 1
Third(i, j) == 6 - i - j
Cyclic(i, j) == i \in 1..3 /\ j = Nxt(i)                         \* (1,2), (2,3), (3,1)
Ids == 0..3

\* theta-hat_{i(j)}: angle between p_i and p_j in the parent rest frame, + for cyclic (i,j)
HatRaises(i, j) == i = 0 \/ j = 0
HatZero(i, j) == ~HatRaises(i, j) /\ i = j
HatSign(i, j) == IF Cyclic(i, j) THEN 1 ELSE -1
\* theta_{ij}: defined for i # j in 1..3 (the library lets all six through)
ScatRaises(i, j) == i = 0 \/ j = 0 \/ i = j
ScatGuarded(i, j) == ~ScatRaises(i, j) /\ Cyclic(j, i)           \* theta_21, theta_32, theta_13
\* zeta^i_{j(k)}: reference 0 means the chain of particle i itself; zeta^0_{j(k)} = theta-hat_{j(k)}
ZResolve(i, j, k) == IF i # 0 /\ k = 0 THEN <<i, j, i>> ELSE <<i, j, k>>
ZRaises(i, j, k) == j = 0 \/ (i = 0 /\ k = 0)
ZZero(i, j, k) == ~ZRaises(i, j, k) /\ LET t == ZResolve(i, j, k) IN t[2] = t[3]
\* position of chain l for particle i in the order  prev(i) < i < next(i)
ZPos(i, l) == IF l = Prv(i) THEN 0 ELSE IF l = i THEN 1 ELSE 2
ZSign(i, j, k) ==                                                \* for defined, non-zero entries
  LET t == ZResolve(i, j, k) IN
  IF i = 0 THEN HatSign(t[2], t[3]) ELSE IF ZPos(i, t[2]) > ZPos(i, t[3]) THEN 1 ELSE -1

\* ---- C19: cosines from invariants ---------------------------------------------------------
\* 4 * Gram(P, p_i, p_j), expressed in invariants
HatNum(i, j, M, S) ==
  (M[1] + M[i + 1] - S[i]) * (M[1] + M[j + 1] - S[j]) - 2 * M[1] * (S[Third(i, j)] - M[i + 1] - M[j + 1])
HatKs(i, j, M, S) == <<Kallen(M[1], M[j + 1], S[j]), Kallen(M[1], S[i], M[i + 1])>>
\* -4 * Gram(p_i + p_j, p_i, p_k): helicity angle of i in the (ij) frame measured from the flight
\* direction of (ij), i.e. from the direction opposite to the spectator k
ThetaNum(i, j, M, S) ==
  LET k == Third(i, j) IN
  2 * S[k] * (S[j] - M[i + 1] - M[k + 1]) - (S[k] + M[i + 1] - M[j + 1]) * (M[1] - S[k] - M[k + 1])
ThetaKs(i, j, M, S) ==
  LET k == Third(i, j) IN <<Kallen(M[1], M[k + 1], S[k]), Kallen(S[k], M[i + 1], M[j + 1])>>
\* chain l of particle i: l = i, particle i comes straight from the parent (direction of P seen from
\* i); l # i, particle i comes from the pair l = (i, o), o = Third(i, l) (direction of p_o seen from i).
\* Kf = 4 * Gram(p_i, V_l, V_l):
Kf(i, l, M, S) == IF l = i THEN Kallen(M[1], M[i + 1], S[i])
                  ELSE Kallen(S[l], M[i + 1], M[Third(i, l) + 1])
ZetaKs(i, j, k, M, S) == <<Kf(i, j, M, S), Kf(i, k, M, S)>>       \* resolved triple, i # 0, j # k
\* 4 * Gram(p_i, V_a, V_b) in invariants (a # b in 1..3)
ZetaRefNum(i, a, b, M, S) ==
  IF a # i /\ b # i
  THEN (S[a] - M[i + 1] - M[Third(i, a) + 1]) * (S[b] - M[i + 1] - M[Third(i, b) + 1])
       - 2 * M[i + 1] * (S[i] - M[a + 1] - M[b + 1])
  ELSE LET l == IF a = i THEN b ELSE a   o == Third(i, l) IN
       (M[1] + M[i + 1] - S[i]) * (S[l] - M[i + 1] - M[o + 1]) - 2 * M[i + 1] * (M[1] + M[o + 1] - S[o])

\* the same from four-vectors (P = <<p1,p2,p3>>)
ChainVec(i, l, P) == IF l = i THEN Total(P) ELSE P[Third(i, l)]
HatGram(i, j, P) == <<Gram(Total(P), P[i], P[j]), Gram(Total(P), P[j], P[j]), Gram(Total(P), P[i], P[i])>>
ThetaGram(i, j, P) ==
  LET k == Third(i, j)  q == VAdd(P[i], P[j]) IN <<-Gram(q, P[i], P[k]), Gram(q, P[k], P[k]), Gram(q, P[i], P[i])>>
ZetaGram(i, a, b, P) ==
  <<Gram(P[i], ChainVec(i, a, P), ChainVec(i, b, P)),
    Gram(P[i], ChainVec(i, a, P), ChainVec(i, a, P)), Gram(P[i], ChainVec(i, b, P), ChainVec(i, b, P))>>

(* ---- C19: the addition theorem in polynomial form ---------------------------------------
   A, B, C in [0, pi] with cos A = nA / sqrt(ka kb), cos B = nB / sqrt(k0 ka), cos C = nC / sqrt(k0 kb)
   (all k > 0, all |cos| <= 1).  A = B + C  <=>
       nB nC - nA k0 = sqrt( (k0 ka - nB^2)(k0 kb - nC^2) )        [cos A = cos(B+C), sines >= 0]
   and cos B + cos C >= 0                                           [B + C <= pi].             *)
AdditionTheorem(nA, nB, nC, k0, ka, kb) ==
  LET L == nB * nC - nA * k0
      X == k0 * ka - nB * nB
      Y == k0 * kb - nC * nC IN
  /\ L >= 0
  /\ IF X = 0 \/ Y = 0 THEN L = 0 ELSE L > 0 /\ Red(L, X) = Red(Y, L)
  /\ SumOfCosNonNeg(nB, ka, nC, kb)                                \* the common 1/sqrt(k0) dropped
=============================================================================
