import sys
sys.path.insert(0, "/verif/harness")
from vf import trace
from vf.props import c08
tv = trace.validate("Trace_Lorentz", [{'k': 'approx', 'r': [0], 'finite': 0, 'id': 1}], cfg=c08.TRACE_CFG)
print(tv.rejects, tv.stats)
print(tv.res.raw[-1500:])
