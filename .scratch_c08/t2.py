import sys; sys.path.insert(0,"/verif/harness")
import sympy as sp, time, numpy as np
from vf.lorentz_exact import *
I = Impl(); lz, ae = I.lz, I.ae
e = lz.BoostMatrix(ae.ArrayMultiplication(lz.BoostMatrix(I.q), I.p))
print(e.free_symbols, e.atoms(ae.ArraySymbol), lz.RotationYMatrix(-I.a1, lz.ArraySize(I.a1)).free_symbols)
n = lz.ArraySize(I.b)
exprs = {
 "hel": ae.MatrixMultiplication(lz.BoostZMatrix(I.b, n), lz.RotationYMatrix(-I.a1, n), lz.RotationZMatrix(-I.a2, n)),
 "BBp": lz.BoostMatrix(ae.ArrayMultiplication(lz.BoostMatrix(I.q), I.p)),
 "4": ae.ArrayMultiplication(lz.BoostZMatrix(I.b, n), lz.RotationYMatrix(I.a1, n), lz.RotationZMatrix(I.a2, n), I.p),
 "neg": lz.NegativeMomentum(I.p),
}
P = np.array([[5.,1,2,4],[2,1,1,1]]); Q = np.array([[3.,2,1,0],[5,0,0,3]]); B = np.array([.6,-.8]); A1 = np.array([0.3,1.2]); A2=np.array([-2.,0.5])
for k,e in exprs.items():
    for cse in (False, True):
        t=time.time(); f = sp.lambdify([I.p,I.q,I.b,I.a1,I.a2], e.doit(), cse=cse); t1=time.time()-t
        out = f(P,Q,B,A1,A2)
        print(k, cse, round(t1,3), out.shape)
