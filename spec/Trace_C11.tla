------------------------------ MODULE Trace_C11 ------------------------------
(***************************************************************************)
(* C11 - the IMPLEMENTATION's values (vf/props/c11.py evaluates            *)
(* X(s,m1,m2).doit() exactly / to 50 digits and logs one ndjson record per *)
(* lattice point) judged against Lineshape: TLC recomputes q^2, rho_X^2    *)
(* and the quadrant of rho_X itself and evaluates the four sentences of    *)
(* the property on the logged values.                                      *)
(*                                                                         *)
(* Record kinds (field k):                                                 *)
(*  "pt"    s, m1, m2 (small rationals), q2, q2sw = q^2 with masses        *)
(*          swapped ([st, v]), and one observation per variant             *)
(*          ([st, sq, quad, re, im], see Lineshape!ObsMatches); swapped =  *)
(*          the same five observations with the masses exchanged           *)
(*  "thr"   one-sided approach to threshold: m1, m2, side, kexp            *)
(*          (s = s_thr + side 10^-kexp), sw, eq (values there) and sw0,    *)
(*          eq0 (values at threshold)                                      *)
(*  "zero"  m1 # m2, kexp, plus / minus = S-wave value at s = +-10^-kexp     *)
(*  "csqrt" ComplexSqrt(x) through a lambdify printer: printer, dtype, x,  *)
(*          o = observation                                                *)
(*  "lam"   lambdified X at a lattice point: X, dtype, s, m1, m2, o, ref   *)
(*          (ref = the 50-digit value of the same expression)              *)
(* Clauses (a failing clause prints REJECT and the record is still         *)
(* consumed, so every disagreement of a batch is reported):                *)
(*  Q2Value, Q2Symmetric, Q2VanishesAtThreshold           sentence 4       *)
(*  AboveThreshold (all five variants)                    sentence 1       *)
(*  Between                                               sentence 2       *)
(*  EqualMassVsChewMandelstam, ContinuityAtThreshold,     sentence 3       *)
(*  ThresholdValue                                        (observation law)*)
(*  ComplexSqrtPrinting, LambdifyMatchesExact,            numpy printing   *)
(*  ComplexDefinedForReal                                                  *)
(*  MassSwapSymmetry: X(s,m1,m2) = X(s,m2,m1) for all five variants - a    *)
(*  derived law (a two-body phase space does not know which decay product  *)
(*  is called 1; for Re rho above threshold it follows from sentences 1+4) *)
(*  RegularAtZero: derived law for the S-wave variant, see ZeroClauses      *)
(*  RhoValue: the algebraic variants outside the regions the property      *)
(*  speaks about (implementation-shaped part: a mismatch is SPEC-DRIFT)    *)
(***************************************************************************)
EXTENDS Lineshape, Json, IOUtils

Log == ndJsonDeserialize(IOEnv.TRACE_FILE)

VARIABLES l, cnt
Rec == Log[l]

Tol == 3          \* units of 1e-12 for 50-digit values rounded to 12 digits
TolF == 2000      \* 2e-9 absolute for double-precision (lambdified) values

Clause(name, ok, info) == IF ok THEN TRUE ELSE PrintT(<<"REJECT", name, Rec.id, info>>)

AllVariants == <<PSF, PSFAbs, PSFComplex, PSFSWave, PSFEqual>>
Defined(o) == o.st # "undef"
SameValue(o1, o2, tol) == Near(o1.re, o2.re, tol) /\ Near(o1.im, o2.im, tol)

\* ---- "pt" -------------------------------------------------------------------
PtClauses ==
  LET s == Rec.s  m1 == Rec.m1  m2 == Rec.m2
      r == Region(s, m1, m2)
  IN
  IF r = "pole" THEN TRUE       \* q^2 has a pole at s = 0: whatever is returned is an observation
  ELSE
  /\ Clause("Q2Value", Rec.q2.st = "exact" /\ Rec.q2.v = Q2(s, m1, m2), <<r, Rec.q2>>)
  /\ Clause("Q2Symmetric", Rec.q2.st = Rec.q2sw.st /\ Rec.q2.v = Rec.q2sw.v, <<r, Rec.q2, Rec.q2sw>>)
  /\ Clause("Q2VanishesAtThreshold", r \in {"pth", "thr"} => Rec.q2.st = "exact" /\ Rec.q2.v = R(0), <<r, Rec.q2>>)
  /\ \A X \in Algebraic :
       Clause(IF r = "above" THEN "AboveThreshold" ELSE "RhoValue",
              ObsMatches(Rec[X], QOfR(Rho2(X, s, m1, m2)), RhoQuad(X, s, m1, m2), Tol),
              <<X, r>>)
  /\ \A X \in Transcendental :
       /\ Clause("AboveThreshold",
                 r = "above" => /\ Defined(Rec[X]) /\ ZSign(Rec[X].re) > 0
                                /\ Bracket(Rec[X].re, QOfR(RefRho2(s, m1, m2)), Tol),
                 <<X, r>>)
       /\ Clause("ThresholdValue",
                 r = "thr" => Defined(Rec[X]) /\ Small(Rec[X].re, Tol) /\ Small(Rec[X].im, Tol),
                 <<X, r>>)
  /\ Clause("Between",
            r = "mid" =>
               LET c == Rec[PSFComplex]  a == Rec[PSFAbs] IN
               /\ Defined(c) /\ Defined(a)
               /\ IF c.st = "exact" /\ a.st = "exact"
                  THEN QEq(c.sq, QNeg(a.sq)) /\ c.quad = QuadMul("pi", a.quad)
                  ELSE Near(c.re, ZNeg(a.im), Tol) /\ Near(c.im, a.re, Tol),       \* i (x + iy) = -y + ix
            <<r>>)
  /\ \A i \in 1..Len(AllVariants) :
       LET X == AllVariants[i]  o == Rec[X]  w == Rec.swapped[X] IN
       Clause("MassSwapSymmetry",
              m1 # m2 => /\ Defined(o) = Defined(w)
                         /\ (Defined(o) => /\ SameValue(o, w, Tol)
                                           /\ (o.st = "exact" /\ w.st = "exact" => QEq(o.sq, w.sq) /\ o.quad = w.quad)),
              <<X, r>>)
  /\ Clause("EqualMassVsChewMandelstam",
            m1 = m2 =>
               LET e == Rec[PSFEqual]  w == Rec[PSFSWave] IN
               IF ~Defined(e) /\ ~Defined(w) THEN TRUE       \* NaN on both sides: an observation, not compared
               ELSE Defined(e) /\ Defined(w) /\ SameValue(e, w, Tol),
            <<r>>)

\* ---- "thr": |f(s_thr +- 10^-k) - f(s_thr)|^2 <= 2 (s_thr - s_pth)/s_thr^2 10^-k ------------
\* (rho behaves as sqrt(eps (s_thr - s_pth))/s_thr next to threshold; the bound leaves a factor sqrt 2)
Pow10(k) == NPow(<<10>>, k)
CloseToThresholdValue(o, o0, m1, m2, k) ==
  LET t == Thr(m1, m2)
      g == RSub(t, PThr(m1, m2))
      d2 == NAdd(NMul(ZAbsN(ZSub(o.re, o0.re)), ZAbsN(ZSub(o.re, o0.re))),
                 NMul(ZAbsN(ZSub(o.im, o0.im)), ZAbsN(ZSub(o.im, o0.im))))
  IN /\ Defined(o) /\ Defined(o0)
     /\ NLe(NMul(NMul(d2, NOf(g[2] * t[1] * t[1])), Pow10(k)),
            NShift(NOf(2 * g[1] * t[2] * t[2]), 2 * ScaleLimbs))
ThrClauses ==
  /\ Clause("ContinuityAtThreshold", CloseToThresholdValue(Rec.sw, Rec.sw0, Rec.m1, Rec.m2, Rec.kexp),
            <<PSFSWave, Rec.side, Rec.kexp>>)
  /\ Clause("ContinuityAtThreshold", CloseToThresholdValue(Rec.eq, Rec.eq0, Rec.m1, Rec.m2, Rec.kexp),
            <<PSFEqual, Rec.side, Rec.kexp>>)
  /\ Clause("ThresholdValue", Defined(Rec.sw0) /\ Small(Rec.sw0.re, Tol) /\ Small(Rec.sw0.im, Tol), <<PSFSWave, "thr">>)
  /\ Clause("ThresholdValue", Defined(Rec.eq0) /\ Small(Rec.eq0.re, Tol) /\ Small(Rec.eq0.im, Tol), <<PSFEqual, "thr">>)
  /\ Clause("EqualMassVsChewMandelstam",
            Rec.m1 = Rec.m2 => Defined(Rec.sw) /\ Defined(Rec.eq) /\ SameValue(Rec.eq, Rec.sw, Tol),
            <<IF Rec.side > 0 THEN "above" ELSE "mid">>)

\* ---- "zero": the S-wave Chew-Mandelstam factor is regular at s = 0 for unequal masses (the 1/s terms of
\* its two logarithms cancel): |f(+10^-k) - f(-10^-k)| <= 10^-k.  A derived law, not a sentence of C11.
ZeroClauses ==
  Clause("RegularAtZero",
         /\ Defined(Rec.plus) /\ Defined(Rec.minus)
         /\ NLe(NMul(NAdd(ZAbsN(ZSub(Rec.plus.re, Rec.minus.re)), ZAbsN(ZSub(Rec.plus.im, Rec.minus.im))), Pow10(Rec.kexp)),
                NShift(<<1>>, ScaleLimbs)),
         <<PSFSWave, Rec.kexp>>)

\* ---- "csqrt" ----------------------------------------------------------------
CsqrtClauses ==
  Clause("ComplexSqrtPrinting",
         Rec.o.st = "num" /\ NumMatches(Rec.o.re, Rec.o.im, QOfR(Rec.x), CSqrtQuad(Rec.x), TolF),
         <<Rec.printer, Rec.dtype, RSign(Rec.x)>>)

\* ---- "lam" ------------------------------------------------------------------
FarFromThresholds(s, m1, m2) ==
  /\ ~RLt(RAbs(RSub(s, Thr(m1, m2))), <<1, 1000>>)
  /\ ~RLt(RAbs(RSub(s, PThr(m1, m2))), <<1, 1000>>)
LamClauses ==
  LET s == Rec.s  m1 == Rec.m1  m2 == Rec.m2  X == Rec.X
      r == Region(s, m1, m2)
  IN
  \* s <= 0 sits on the branch cut of sqrt(s), and within 1e-3 of a threshold a double-precision s is not the
  \* lattice point (sqrt amplifies its rounding error to 1e-8): observations only
  IF r \in {"pole", "neg"} \/ ~FarFromThresholds(s, m1, m2) THEN TRUE
  ELSE
  /\ Clause("ComplexDefinedForReal", X = PSFComplex => Rec.o.st = "num", <<X, Rec.dtype, r>>)
  /\ Clause("LambdifyMatchesExact",
            Rec.o.st = "num" =>
               IF X \in Algebraic
               THEN NumMatches(Rec.o.re, Rec.o.im, QOfR(Rho2(X, s, m1, m2)), RhoQuad(X, s, m1, m2), TolF)
               ELSE Rec.ref.st = "num" => SameValue(Rec.o, Rec.ref, TolF),
            <<X, Rec.dtype, r>>)

Bump(key) == cnt' = [cnt EXCEPT ![key] = @ + 1]
Keys == {"pole", "neg", "low", "pth", "mid", "thr", "above", "approach", "csqrt", "lam", "lam_nan", "lam_observed_only"}
Key == CASE Rec.k = "pt" -> Region(Rec.s, Rec.m1, Rec.m2)
         [] Rec.k = "thr" -> "approach"
         [] Rec.k = "zero" -> "approach"
         [] Rec.k = "csqrt" -> "csqrt"
         [] Rec.k = "lam" -> IF Rec.o.st # "num" THEN "lam_nan"
                             ELSE IF RSign(Rec.s) <= 0 \/ ~FarFromThresholds(Rec.s, Rec.m1, Rec.m2) THEN "lam_observed_only"
                             ELSE "lam"

Step ==
  /\ l <= Len(Log)
  /\ CASE Rec.k = "pt" -> PtClauses
       [] Rec.k = "thr" -> ThrClauses
       [] Rec.k = "zero" -> ZeroClauses
       [] Rec.k = "csqrt" -> CsqrtClauses
       [] Rec.k = "lam" -> LamClauses
  /\ Bump(Key)
  /\ (l = Len(Log) => \A key \in Keys : PrintT(<<"STAT", key, cnt'[key]>>))
  /\ l' = l + 1

TraceInit == l = 1 /\ cnt = [key \in Keys |-> 0]
TraceSpec == TraceInit /\ [][Step]_<<l, cnt>>
TraceAccepted == TLCGet("stats").diameter = Len(Log) + 1
=============================================================================
