--------------------------- MODULE ModelOps_Json ---------------------------
(* Conversion of the JSON projection of a real HelicityModel (vf/modelops_exec.py) into
   the model record of ModelOps.  JSON arrays arrive as sequences, objects as records:
     {"intensity":[sym..], "expr":[sym..], "amps":{"a0":[sym..],..}, "comps":{"c0":[sym..],..},
      "pkeys":[sym..], "pvals":[int..], "kin":[{"key":sym,"def":[sym..]},..], "p4":[sym..]}
   with sym = {"name":"n7","tag":"nn"}.  Names are short ids assigned by the harness (the
   table id -> LaTeX name is kept on the Python side), values are ids of the distinct
   parameter values. *)
EXTENDS Sequences
JSet(s) == {s[i] : i \in DOMAIN s}
JModel(j) ==
  [ intensity |-> JSet(j.intensity),
    amps  |-> [k \in DOMAIN j.amps |-> JSet(j.amps[k])],
    comps |-> [k \in DOMAIN j.comps |-> JSet(j.comps[k])],
    expr  |-> JSet(j.expr),
    pkeys |-> j.pkeys,
    pvals |-> j.pvals,
    kin   |-> [k \in {j.kin[i].key : i \in DOMAIN j.kin} |->
                 JSet((CHOOSE e \in JSet(j.kin) : e.key = k).def)],
    p4    |-> JSet(j.p4) ]
=============================================================================
