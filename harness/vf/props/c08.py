"""C08 — boost and rotation matrix expressions are proper Lorentz transformations.

spec/Lorentz.tla: exact 4x4 rational matrices, eta-orthogonality, determinant, reference
boosts/rotations, and a small state machine (accumulated M, transported p) whose invariants and
action properties are the laws of the property; model-checked exhaustively by TLC over the
Pythagorean lattices of spec/Lorentz_MC.tla.

spec/Trace_Lorentz.tla: consumes ndjson records that carry the IMPLEMENTATION's exact matrices
(lattice points substituted into as_explicit()/evaluate(), see vf/lorentz_exact.py); TLC evaluates
every law on them and compares them with its own reference; the floating-point output of the
generated numpy code is logged in two 6-digit limbs and TLC evaluates the closeness law against
the exact product of the implementation's explicit matrices.
"""
from __future__ import annotations

import itertools
import math
import random
import time
from concurrent.futures import ThreadPoolExecutor
from fractions import Fraction as F

import numpy as np
import sympy as sp

from .. import lorentz_exact as lx
from .. import tlc, trace
from ..core import Machinery

LEVEL = "model_checking"
META = {
    "technique": "TLA+ spec Lorentz (exact 4x4 rational matrices as gcd-normalised <<num,den>>, eta-orthogonality, determinant, "
    "reference boosts/rotations; state machine M,p with ApplyBoostZ/ApplyRotY/ApplyRotZ/ApplyBoost/ToRest/Negate) "
    "model-checked exhaustively with TLC over Pythagorean lattices; Trace_Lorentz validates with TLC the "
    "implementation's exact matrices (lattice points substituted into as_explicit()/evaluate()) and the quantised "
    "output of the generated numpy code (lambdify(doit()), cse on/off, batches 1/2/17)",
    "text": "TLC decides: (a) the laws L^T eta L = eta, det = 1, L00 >= 1, B(p)p = (m,0,0,0), B(-p) = B(p)^-1, BoostZ = B along z, "
    "R(a)R(b) = R(a+b) hold for the reference transformations on every chain of <= 3 steps over the lattice (exhaustive); "
    "(b) every matrix the implementation produces on the lattice, and every chain product of them, satisfies the same laws "
    "exactly and equals TLC's reference; (c) the floating-point result of the generated code (BoostMatrix, BoostZMatrix, "
    "RotationY/ZMatrix, NegativeMomentum, Array/MatrixMultiplication einsum chains of 2-4 factors) is within 1e-12 "
    "(relative to the largest entry) of the exact product TLC forms from the implementation's explicit matrices.",
    "note": "Exact arithmetic is confined to rational lattice points (Pythagorean beta and (cos, sin), integer four-momenta with "
    "integer mass, chains whose entries fit 32-bit arithmetic); general real momenta/angles are covered only through the "
    "floating-point observation law, and beta*gamma up to 1e4 is sampled in float only (residuals normalised by eps*gamma^2). "
    "p at rest (|p| = 0) is a removable singularity of BoostMatrix (0/0) and is excluded. That Energy/FourMomentumX.. pick "
    "columns 0..3 is C07's clause (here it is exercised only through the numeric comparison). Trusted: TLC, SymPy's exact "
    "substitution and Rational arithmetic, numpy, the harness projections (exercised by the corruption self-test).",
    "design_ref": "DESIGN.md §4 C08",
}

# ----------------------------------------------------------------------------------------------
# exhaustive model checking of the specification
# ----------------------------------------------------------------------------------------------
MC_CFG = """SPECIFICATION Spec
CONSTANTS
 Betas <- Betas{lat}
 Angles <- Angles{lat}
 Moms <- Moms{lat}
 Starts <- Starts{lat}
 MaxDepth = {depth}
 Cap = 2000
 RestCap = 60
 Dev = {dev}
INVARIANT TypeOK
INVARIANT InvEta
INVARIANT InvDet
INVARIANT InvOrthochronous
INVARIANT InvTransport
INVARIANT InvMass
INVARIANT InvInverse
PROPERTY LawRest
PROPERTY LawInverse
PROPERTY LawParity
PROPERTY LawNegate
PROPERTY LawZAgree
PROPERTY LawRotCompose
CHECK_DEADLOCK FALSE
"""
GAMMA_MAX = 8      # numeric closeness (1e-12) is claimed for factors with entries <= GAMMA_MAX only
MC_ACTIONS = ["ApplyBoostZ", "ApplyRotY", "ApplyRotZ", "ApplyBoost", "ToRest", "Negate"]

TRACE_CFG = """SPECIFICATION TraceSpec
CONSTANTS
 Betas <- EmptySet
 Angles <- EmptySet
 Moms <- EmptySet
 Starts <- EmptySet
 MaxDepth = 3
 Cap <- BigCap
 RestCap <- BigCap
 Dev <- EmptySet
INVARIANT TraceInvariants
POSTCONDITION TraceAccepted
CHECK_DEADLOCK FALSE
"""

LAW_CLAUSES = {
    "EtaOrthogonal", "DetOne", "Orthochronous", "RestFrame", "BoostInverse", "NegKeepsEnergy", "ZAgree", "RotCompose",
    "NumericCodeRuns", "NumericFinite", "NumericAgrees", "NumericAgreesPy", "SampledLaws",
    "ExplicitLawsNumerically",
}
CHAIN_CLAUSES = {"ChainMatchesReference", "Transport"}


def model_check(lat: str, depth: int, workers: int, dev: str = "{}", invariants: bool = True):
    cfg = MC_CFG.format(lat=lat, depth=depth, dev=dev)
    if not invariants:      # laws (action properties) only: shows that they are sensitive on their own
        cfg = "\n".join(ln for ln in cfg.splitlines() if not ln.startswith("INVARIANT")) + "\n"
    return tlc.run("Lorentz_MC", cfg, workers=workers, coverage=True, fast_start=False, timeout=2400)


# ----------------------------------------------------------------------------------------------
# record generation
# ----------------------------------------------------------------------------------------------
def _exc_text(e: BaseException) -> str:
    """Exception text for a record.  TLC echoes it in the REJECT line, and the TLC runner treats
    any output containing 'Error:' / 'Exception' as a tool failure, hence the abbreviation."""
    import re

    return re.sub(r"Error|Exception", lambda m: m.group(0)[:3] + ".", f"{type(e).__name__} {str(e)[:80]}").replace('"', "'").replace("\\", "/")


class Recorder:
    def __init__(self):
        self.records: list[dict] = []
        self.meta: dict[int, dict] = {}
        self.skipped32 = 0

    def add(self, rec: dict, **meta) -> int:
        rid = len(self.records) + 1
        rec["id"] = rid
        self.records.append(rec)
        self.meta[rid] = meta
        return rid


R = sp.Rational


def _cs(a):
    return (R(a[0], a[2]), R(a[1], a[2]))


def _scaled(q, s=1):
    return tuple(R(c) * s for c in q[1:])


class Gen:
    """Drives the implementation and builds the records."""

    def __init__(self, chk, rec: Recorder, only_key: str | None = None, seed: int | None = None, tier: str | None = None):
        self.chk, self.rec, self.only = chk, rec, only_key
        self.seed = chk.seed if seed is None else seed
        self.tier = tier or chk.tier
        self.I = lx.Impl()
        lz = self.I.lz
        I = self.I
        self.e_boost = lz.BoostMatrix(I.p)
        self.e_boost_neg = lz.BoostMatrix(lz.NegativeMomentum(I.p))
        self.e_neg = lz.NegativeMomentum(I.p)
        self.e_bz = lz.BoostZMatrix(I.b, n_events=lz.ArraySize(I.b))
        self.e_ry = lz.RotationYMatrix(I.a1, n_events=lz.ArraySize(I.a1))
        self.e_rz = lz.RotationZMatrix(I.a1, n_events=lz.ArraySize(I.a1))
        self.e_eta = lz.MinkowskiMetric(I.p)
        self._memo: dict = {}
        self.skipped_ill = 0
        self.skipped_rest = 0
        self.truncated_chains = 0
        self.worst_ratio = 0.0
        quick = self.tier == "quick"
        self.betas = lx.beta_lattice(65)
        self.angles = lx.angle_lattice(65)
        base = lx.momentum_lattice(30, 40)
        self.moms_base = base
        self.moms = [o for q in base for o in lx.orientations(q)]
        # small-denominator sublattices for chains of three
        self.betas_s = lx.beta_lattice(17)
        self.angles_s = lx.angle_lattice(17)
        self.moms_s = [o for q in lx.momentum_lattice(13, 15) for o in lx.orientations(q)]
        self.quick = quick

    def want(self, key: str) -> bool:
        return self.only is None or key == self.only

    def rng_for(self, tag: str) -> random.Random:
        """One generator per family and case, so that a replay of one case draws the same parameters."""
        return random.Random(f"{self.seed}|{tag}")

    def approx(self, exc, subject: str, key: str, what: str, pvec=None):
        """The implementation's explicit matrix is not rational at a lattice point: log the
        residuals of the laws evaluated in floating point (units 1e-12) for Trace_Lorentz!TApprox."""
        self.n_irrational = getattr(self, "n_irrational", 0) + 1
        seen = self._approx_seen = getattr(self, "_approx_seen", {})
        if seen.get(subject, 0) >= 4:
            return
        seen[subject] = seen.get(subject, 0) + 1
        m = exc.args[0] if exc.args else None
        r, finite = [0], 0
        try:
            L = np.array(sp.Matrix(m).evalf(30), dtype=complex)
            if L.shape == (4, 4) and np.all(np.isfinite(L)) and np.max(np.abs(L.imag)) == 0:
                L = L.real
                eta = np.diag([1.0, -1, -1, -1])
                res = [np.max(np.abs(L.T @ eta @ L - eta)), abs(np.linalg.det(L) - 1.0), max(0.0, 1.0 - L[0, 0])]
                if pvec is not None:
                    pf = np.array([float(c) for c in pvec])
                    m2 = pf[0] ** 2 - pf[1] ** 2 - pf[2] ** 2 - pf[3] ** 2
                    if m2 > 0:
                        res.append(np.max(np.abs(L @ pf - np.array([math.sqrt(m2), 0, 0, 0]))) / pf[0])
                scale = max(1.0, float(np.max(np.abs(L))) ** 2)
                r = [min(int(math.ceil(x / scale * 1e12)), 10**9) for x in res]
                finite = 1
        except Exception:  # noqa: BLE001  (not even numerically evaluable: finite = 0 is the observation)
            pass
        self.rec.add({"k": "approx", "r": r, "finite": finite}, kind="approx", subject=subject, key=key,
                     input=f"{what}: entries not rational on the lattice, e.g. {str(m)[:200]}")

    # ---- exact implementation matrices (memoised per lattice point) ----------------------
    def mat(self, expr, **env):
        I = self.I
        full = {getattr(I, k): v for k, v in env.items()}
        key = (expr, tuple(sorted((k, tuple(v) if isinstance(v, (tuple, list)) else v) for k, v in env.items())))
        if key not in self._memo:
            self._memo[key] = I.exact_mat(expr, full)
        return self._memo[key]

    def L_impl(self, a: str, par, pv=None):
        """(implementation matrix, subject) of one chain step."""
        if a == "BoostZ":
            return self.mat(self.e_bz, b=R(par[0], par[2])), "BoostZMatrix.as_explicit"
        if a == "RotY":
            return self.mat(self.e_ry, a1=_cs(par)), "RotationYMatrix.as_explicit"
        if a == "RotZ":
            return self.mat(self.e_rz, a1=_cs(par)), "RotationZMatrix.as_explicit"
        if a == "Boost":
            return self.mat(self.e_boost, p=_scaled(par)), "BoostMatrix.as_explicit"
        if a == "ToRest":
            return self.mat(self.e_boost, p=tuple(pv)), "BoostMatrix.as_explicit"
        raise AssertionError(a)

    # ---- mirror references (only to predict 32-bit overflow of the TLC evaluation) --------
    @staticmethod
    def ref_step(a: str, par, mass=None, pv=None):
        one, zero = (1, 1), (0, 1)
        if a == "BoostZ":
            beta, gamma = lx._q(par[0], par[2]), lx._q(par[2], par[1])
            gb = lx.t_mul(gamma, beta)
            return [[gamma, zero, zero, lx.t_neg(gb)], [zero, one, zero, zero], [zero, zero, one, zero], [lx.t_neg(gb), zero, zero, gamma]]
        if a in ("RotY", "RotZ"):
            c, s = lx._q(par[0], par[2]), lx._q(par[1], par[2])
            if a == "RotY":
                return [[one, zero, zero, zero], [zero, c, zero, s], [zero, zero, one, zero], [zero, lx.t_neg(s), zero, c]]
            return [[one, zero, zero, zero], [zero, c, lx.t_neg(s), zero], [zero, s, c, zero], [zero, zero, zero, one]]
        if a == "Boost":
            return lx.t_ref_boost((par[0], 1), [(c, 1) for c in par[1:]])
        if a == "ToRest":
            return lx.t_ref_boost(mass, pv)
        raise AssertionError(a)

    # ---- chains -----------------------------------------------------------------------------
    def chains(self, reps: int):
        kinds = ["BoostZ", "RotY", "RotZ", "Boost", "ToRest", "Negate"]
        rec = self.rec
        eta = self.I.exact_mat(self.e_eta, {self.I.p: (1, 0, 0, 0)})
        seqs = [s for n in (1, 2, 3) for s in itertools.product(kinds, repeat=n)]
        made = 0
        for seq in seqs:
            for rep in range(reps):
                rng = self.rng_for(f"chain:{seq}:{rep}")
                for attempt in range(6):
                    small = len(seq) == 3 or attempt >= 3
                    betas, angles, moms = (self.betas_s, self.angles_s, self.moms_s) if small else (self.betas, self.angles, self.moms)
                    q0 = rng.choice(self.moms_s if small else self.moms)
                    pars = [rng.choice(betas) if a == "BoostZ" else rng.choice(angles) if a in ("RotY", "RotZ")
                            else rng.choice(moms) if a == "Boost" else () for a in seq]
                    key = f"chain:{q0}:" + ";".join(f"{a}{tuple(p)}" for a, p in zip(seq, pars))
                    if not self.want(key):
                        continue
                    recs = self._chain_records(q0, seq, pars, eta, key)
                    if recs is None:
                        rec.skipped32 += 1
                        continue
                    cid = None
                    for r, m in recs:
                        rid = rec.add(r, **m)
                        cid = cid or rid
                        rec.meta[rid]["chain"] = cid
                    made += 1
                    # non-trivial: at least one step that is not a signed permutation of the axes
                    if any(a in ("BoostZ", "Boost", "ToRest") or (a in ("RotY", "RotZ") and p_[2] > 1) for a, p_ in zip(seq, pars)):
                        self.chk.nontrivial(key)
                    break
        return made

    def _chain_records(self, q0, seq, pars, eta, key):
        out = [({"k": "start", "q": list(q0)}, {"kind": "start", "subject": "start", "key": key})]
        acc = sp.eye(4)
        pv = [R(c) for c in q0[1:]]
        mass = (q0[0], 1)
        # mirror state of the specification
        tM = lx.tmat(sp.eye(4))
        tp = [lx.tq(c) for c in pv]
        tp0 = list(tp)
        try:
            for a, par in zip(seq, pars):
                if a == "Negate":
                    L = sp.eye(4)
                    pv = self.I.exact_vec(self.e_neg, {self.I.p: tuple(pv)})
                    acc = eta * acc * eta
                    subject = "NegativeMomentum.evaluate"
                    tP = lx.tmat(eta)
                    tM = lx.t_mmul(tP, lx.t_mmul(tM, tP))
                    tp = [tp[0]] + [lx.t_neg(c) for c in tp[1:]]
                    tp0 = [tp0[0]] + [lx.t_neg(c) for c in tp0[1:]]
                else:
                    # ToRest is enabled in the specification iff ITS momentum moves (tp mirrors the specification's p)
                    if a == "ToRest" and all(c[0] == 0 for c in tp[1:]):
                        return None
                    try:
                        L, subject = self.L_impl(a, par, pv)
                    except lx.AtRest:
                        break       # the implementation's momentum is at rest where the specification's is not: upstream defect
                    except lx.NotRational as e:
                        # irrational on the lattice: adjudicated numerically; the chain ends before this step.  Later steps
                        # act on a momentum produced by other implementation matrices, so only the first step is attributed.
                        if len(out) > 1:
                            self.truncated_chains += 1
                            break
                        self.approx(e, {"BoostZ": "BoostZMatrix", "RotY": "RotationYMatrix", "RotZ": "RotationZMatrix"}.get(a, "BoostMatrix")
                                    + ".as_explicit", key, f"{a}{tuple(par)} at p = {pv}", pvec=(pv if a == "ToRest" else list(_scaled(par)) if a == "Boost" else None))
                        break
                    tref = self.ref_step(a, par, mass, tp)
                    pv = list(L * sp.Matrix(pv))
                    acc = L * acc
                    tM = lx.t_mmul(tref, tM)
                    tp = lx.t_mvec(tref, tp)
                    for cand in (lx.tmat(L), tref):
                        lx.t_eta_orth(cand)
                # everything Trace_Lorentz evaluates on this record must fit 32 bits
                lx.t_eta_orth(lx.tmat(acc))
                lx.t_eta_orth(tM)
                lx.t_mvec(tM, tp0)
                out.append((
                    {"k": "step", "a": a, "par": list(par), "L": lx.mat_rec(L), "acc": lx.mat_rec(acc), "pv": lx.vec_rec(pv)},
                    {"kind": "step", "subject": subject, "key": key, "input": f"{a}{tuple(par)} in chain {key}"},
                ))
        except lx.Overflow32:
            return None
        return out if len(out) > 1 else None

    # ---- law records -------------------------------------------------------------------------
    def inverses(self, n: int):
        I, rec = self.I, self.rec
        pool = list(self.moms)
        self.rng_for("inv").shuffle(pool)
        # every axis-aligned direction with both signs is always included
        axis = [q for q in self.moms if sum(1 for c in q[2:] if c != 0) == 1]
        made = 0
        for q in (axis + pool)[: n + len(axis)]:
            key = f"inv:{q}"
            if not self.want(key):
                continue
            try:
                m1 = self.mat(self.e_boost, p=_scaled(q))
                m2 = self.mat(self.e_boost_neg, p=_scaled(q))
                nq = I.exact_vec(self.e_neg, {I.p: _scaled(q)})
                t1, t2 = lx.tmat(m1), lx.tmat(m2)
                lx.t_mmul(t1, t2), lx.t_mmul(t2, t1), lx.t_eta_orth(t2), lx.t_mvec(t1, [(c, 1) for c in q[1:]])
                lx.t_ref_boost((q[0], 1), [(q[1], 1)] + [(-c, 1) for c in q[2:]])
            except lx.Overflow32:
                rec.skipped32 += 1
                continue
            except lx.NotRational as e:
                self.approx(e, "BoostMatrix.as_explicit", key, f"B(+-p), p = {q[1:]}", pvec=None)
                continue
            rec.add({"k": "inv", "q": list(q), "m1": lx.mat_rec(m1), "m2": lx.mat_rec(m2), "nq": lx.vec_rec(nq)},
                    kind="inv", subject="BoostMatrix(NegativeMomentum).as_explicit", key=key, input=f"p = {q[1:]} (mass {q[0]})")
            self.chk.nontrivial(key)
            made += 1
        return made

    def zagree(self):
        rec = self.rec
        made = 0
        for b in self.betas:
            for scale in (R(1), R(2), R(1, 3), R(7, 2)):
                key = f"zag:{b}:{scale}"
                if not self.want(key):
                    continue
                beta, gamma = R(b[0], b[2]), R(b[2], b[1])
                qz = (gamma * scale, 0, 0, gamma * beta * scale)
                try:
                    m1 = self.mat(self.e_bz, b=beta)
                    m2 = self.mat(self.e_boost, p=qz)
                    lx.t_ref_boost(lx.tq(scale), [lx.tq(c) for c in qz])
                except lx.Overflow32:
                    rec.skipped32 += 1
                    continue
                except lx.NotRational as e:
                    self.approx(e, "BoostZMatrix.as_explicit~BoostMatrix.as_explicit", key, f"beta = {beta}, scale {scale}")
                    continue
                rec.add({"k": "zag", "b": list(b), "scale": lx.rat(scale), "m1": lx.mat_rec(m1), "m2": lx.mat_rec(m2)},
                        kind="zag", subject="BoostZMatrix.as_explicit~BoostMatrix.as_explicit", key=key,
                        input=f"beta = {beta}, p = {scale}*(gamma,0,0,gamma*beta)")
                self.chk.nontrivial(key)
                made += 1
        return made

    def rotations(self, n: int):
        rec = self.rec
        pairs = [(a, b) for a in self.angles for b in self.angles if a[2] * b[2] <= 65 * 29]
        self.rng_for("rot").shuffle(pairs)
        made = 0
        for t, expr in (("RotY", self.e_ry), ("RotZ", self.e_rz)):
            for a, b in pairs[:n]:
                key = f"rot:{t}:{a}:{b}"
                if not self.want(key):
                    continue
                ca, cb = _cs(a), _cs(b)
                ab = (ca[0] * cb[0] - ca[1] * cb[1], ca[1] * cb[0] + ca[0] * cb[1])
                try:
                    ma, mb, mab = self.mat(expr, a1=ca), self.mat(expr, a1=cb), self.mat(expr, a1=ab)
                    lx.t_mmul(lx.tmat(ma), lx.tmat(mb)), lx.t_mmul(lx.tmat(mb), lx.tmat(ma)), lx.t_eta_orth(lx.tmat(mab))
                except lx.Overflow32:
                    rec.skipped32 += 1
                    continue
                except lx.NotRational as e:
                    self.approx(e, ("RotationYMatrix" if t == "RotY" else "RotationZMatrix") + ".as_explicit", key, f"(cos,sin) = {ca}")
                    continue
                rec.add({"k": "rot", "t": t, "a": list(a), "b": list(b), "ab": [lx.rat(ab[0]), lx.rat(ab[1])],
                         "ma": lx.mat_rec(ma), "mb": lx.mat_rec(mb), "mab": lx.mat_rec(mab)},
                        kind="rot", subject=("RotationYMatrix" if t == "RotY" else "RotationZMatrix") + ".as_explicit", key=key,
                        input=f"(cos,sin) a = {ca}, b = {cb}")
                if a[2] > 1 or b[2] > 1:
                    self.chk.nontrivial(key)
                made += 1
        return made

    def evaluate_args(self, n_mom: int):
        I, rec = self.I, self.rec
        made = 0
        cases = [("BoostZ", self.e_bz, "BoostZMatrix", {"b": R(b[0], b[2])}, b) for b in self.betas]
        cases += [("RotY", self.e_ry, "RotationYMatrix", {"a1": _cs(a)}, a) for a in self.angles]
        cases += [("RotZ", self.e_rz, "RotationZMatrix", {"a1": _cs(a)}, a) for a in self.angles]
        moms = list(self.moms)
        self.rng_for("args").shuffle(moms)
        cases += [("Boost", self.e_boost, "BoostMatrix", {"p": _scaled(q)}, q) for q in moms[:n_mom]]
        for t, expr, cls, env, par in cases:
            key = f"args:{t}:{par}"
            if not self.want(key):
                continue
            try:
                m = self.mat(expr, **env)
                vals = I.exact_args(expr, {getattr(I, k): v for k, v in env.items()})
                recd = {"k": "args", "t": t, "m": lx.mat_rec(m), "vals": [lx.rat(v) for v in vals]}
                if t == "BoostZ":
                    lx.t_mul(lx.tq(vals[1]), lx.tq(vals[0])), lx.t_mul(lx.t_mul(lx.tq(vals[1]), lx.tq(vals[1])), lx.t_sub((1, 1), lx.t_mul(lx.tq(vals[0]), lx.tq(vals[0]))))
            except lx.Overflow32:
                rec.skipped32 += 1
                continue
            except lx.NotRational as e:
                if isinstance(e.args[0], sp.MatrixBase):
                    self.approx(e, f"{cls}.as_explicit", key, f"{t}{tuple(par)}", pvec=list(env["p"]) if t == "Boost" else None)
                else:
                    # evaluate() arguments irrational where as_explicit() is rational: the numeric comparison decides
                    self.n_irrational_args = getattr(self, "n_irrational_args", 0) + 1
                continue
            rec.add(recd, kind="args", subject=f"{cls}.evaluate", key=key, input=f"{t}{tuple(par)}")
            made += 1
        return made

    # ---- generated numerical code -------------------------------------------------------------
    def families(self):
        I = self.I
        lz, ae = I.lz, I.ae
        nb, n1, n2 = lz.ArraySize(I.b), lz.ArraySize(I.a1), lz.ArraySize(I.a2)
        BZ = lz.BoostZMatrix(I.b, n_events=nb)
        RY, RZ = lz.RotationYMatrix(I.a1, n_events=n1), lz.RotationZMatrix(I.a2, n_events=n2)
        RYm, RZm = lz.RotationYMatrix(-I.a1, n_events=n1), lz.RotationZMatrix(-I.a2, n_events=n2)
        B, Bq = lz.BoostMatrix(I.p), lz.BoostMatrix(I.q)
        Bn = lz.BoostMatrix(lz.NegativeMomentum(I.p))
        AM, MM = ae.ArrayMultiplication, ae.MatrixMultiplication
        return [
            ("BoostMatrix(p)", B),
            ("BoostMatrix(NegativeMomentum(p))", Bn),
            ("BoostZMatrix(b)", BZ),
            ("RotationYMatrix(a)", RY),
            ("RotationZMatrix(a)", RZ),
            ("RotationYMatrix(-a)", RYm),
            ("RotationZMatrix(-a)", RZm),
            # compound symbolic angles (the printers assemble -sin(angle) from strings)
            ("RotationYMatrix(a1+a2)", lz.RotationYMatrix(I.a1 + I.a2, n_events=n1)),
            ("RotationZMatrix(a1-a2)", lz.RotationZMatrix(I.a1 - I.a2, n_events=n1)),
            ("RotationZMatrix(3*a1)", lz.RotationZMatrix(3 * I.a1, n_events=n1)),
            ("MatrixMultiplication(RY(a1+a2),RZ(-a1-a2))", MM(lz.RotationYMatrix(I.a1 + I.a2, n_events=n1), lz.RotationZMatrix(-I.a1 - I.a2, n_events=n1))),
            # the same factor twice in one chain (a rotation or boost applied twice)
            ("MatrixMultiplication(RY,RY)", MM(RY, RY)),
            ("MatrixMultiplication(BZ,RZ,BZ)", MM(BZ, RZ, BZ)),
            ("ArrayMultiplication(RZ,RZ,p)", AM(RZ, RZ, I.p)),
            ("ArrayMultiplication(RY,B(q),RY,p)", AM(RY, Bq, RY, I.p)),   # (two boosts B(q) in one chain are too ill-conditioned for the 1e-12 comparison)
            # five and six factors in one chain (a particle four or five decay nodes deep): the einsum subscripts need more letters
            ("MatrixMultiplication(RZ,RY,BZ,RY,RZ)", MM(RZ, RY, BZ, RY, RZ)),
            ("MatrixMultiplication(RZ,RY,RZ,RY,RZ,RY)", MM(RZ, RY, RZ, RY, RZ, RY)),
            ("ArrayMultiplication(RY,RZ,RY,RZ,BZ,p)", AM(RY, RZ, RY, RZ, BZ, I.p)),
            ("NegativeMomentum(p)", lz.NegativeMomentum(I.p)),
            ("NegativeMomentum(p+q)", lz.NegativeMomentum(ae.ArraySum(I.p, I.q))),
            ("BoostMatrix(NegativeMomentum(p+q))", lz.BoostMatrix(lz.NegativeMomentum(ae.ArraySum(I.p, I.q)))),
            # space inversion applied twice is the identity: q = NegativeMomentum(p) is a momentum like any other
            ("NegativeMomentum(NegativeMomentum(p))", lz.NegativeMomentum(lz.NegativeMomentum(I.p))),
            ("BoostMatrix(NegativeMomentum(NegativeMomentum(p)))", lz.BoostMatrix(lz.NegativeMomentum(lz.NegativeMomentum(I.p)))),
            ("MatrixMultiplication(B(-(-p)),B(-p))", MM(lz.BoostMatrix(lz.NegativeMomentum(lz.NegativeMomentum(I.p))), Bn)),
            ("ArrayMultiplication(B(p+q),p)", AM(lz.BoostMatrix(ae.ArraySum(I.p, I.q)), I.p)),
            ("ArrayMultiplication(B(p),p)", AM(B, I.p)),
            ("ArrayMultiplication(RZ,p)", AM(RZ, I.p)),
            ("ArrayMultiplication(BZ,RY,p)", AM(BZ, RY, I.p)),
            ("ArrayMultiplication(RY,RZ,B(q),p)", AM(RY, RZ, Bq, I.p)),
            ("MatrixMultiplication(RY,RZ)", MM(RY, RZ)),
            ("MatrixMultiplication(BZ,RY(-a),RZ(-a))", MM(BZ, RYm, RZm)),
            ("MatrixMultiplication(B(q),RY,RZ,BZ)", MM(Bq, RY, RZ, BZ)),
            ("MatrixMultiplication(B(-p),B(p))", MM(Bn, B)),
            ("BoostMatrix(ArrayMultiplication(B(q),p))", lz.BoostMatrix(AM(Bq, I.p))),
        ]

    def _rows(self, n: int, small: bool, rng: random.Random):
        betas, angles = (self.betas_s, self.angles_s) if small else (self.betas, self.angles)
        moms = self.moms_s if small else self.moms
        rows = []
        for _ in range(n):
            rows.append({"q1": rng.choice(moms), "s1": rng.choice((1, 2, R(1, 4), 8)), "q2": rng.choice(self.moms_s),
                         "b": rng.choice(betas), "a1": rng.choice(angles), "a2": rng.choice(angles)})
        return rows

    def _factors(self, expr, env):
        I = self.I
        lz, ae = I.lz, I.ae
        if isinstance(expr, lz.NegativeMomentum):
            return [sp.eye(4)], I.exact_vec(expr, env)
        if isinstance(expr, ae.MatrixMultiplication):
            return [I.exact_mat(t, env) for t in expr.args], None
        if isinstance(expr, ae.ArrayMultiplication):
            return [I.exact_mat(t, env) for t in expr.args[:-1]], I.exact_vec(expr.args[-1], env)
        return [I.exact_mat(expr, env)], None

    def numeric(self, rounds: int, batches=(1, 2, 17)):
        I, rec, chk = self.I, self.rec, self.chk
        made = 0
        for name, expr in self.families():
            if self.only is not None and not self.only.startswith(f"num:{name}:"):
                continue
            n_factors = len(expr.args) if isinstance(expr, (I.ae.ArrayMultiplication, I.ae.MatrixMultiplication)) else 1
            try:
                unfolded = expr.doit()
            except Exception as e:  # noqa: BLE001  (unfolding itself failed: no numerical code can be generated)
                for cse in (False, True):
                    key = f"num:{name}:cse={cse}"
                    if self.want(key):
                        rec.add({"k": "num", "ms": [lx.ID_REC], "hasv": 0, "v": [], "out": [], "raised": 1, "finite": 1, "pyok": 0,
                                 "exc": "doit " + _exc_text(e)}, input="doit", exc_type=type(e).__name__,
                                **dict(kind="num", subject=f"{name}:numpy:cse={cse}", key=key))
                continue
            for cse in (False, True):
                key = f"num:{name}:cse={cse}"
                if not self.want(key):
                    continue
                meta = dict(kind="num", subject=f"{name}:numpy:cse={cse}", key=key)
                try:
                    f = sp.lambdify([I.p, I.q, I.b, I.a1, I.a2], unfolded, cse=cse)
                except Exception as e:  # noqa: BLE001  (code generation itself failed)
                    rec.add({"k": "num", "ms": [lx.ID_REC], "hasv": 0, "v": [], "out": [], "raised": 1, "finite": 1, "pyok": 0,
                             "exc": "lambdify " + _exc_text(e)}, input="lambdify", exc_type=type(e).__name__, **meta)
                    continue
                for rnd in range(rounds):
                    for n in batches:
                        made += self._numeric_batch(f, expr, name, cse, n, n_factors, meta, self.rng_for(f"{key}:{rnd}:{n}"))
        return made

    def _numeric_batch(self, f, expr, name, cse, n, n_factors, meta, rng) -> int:
        I, rec, chk = self.I, self.rec, self.chk
        rows = []
        for row in self._rows(8 * n, n_factors >= 3, rng):
            if len(rows) == n:
                break
            env = {I.p: _scaled(row["q1"], row["s1"]), I.q: _scaled(row["q2"]), I.b: R(row["b"][0], row["b"][2]),
                   I.a1: _cs(row["a1"]), I.a2: _cs(row["a2"])}
            try:
                ms, v = self._factors(expr, env)
                tms = [lx.tmat(m) for m in ms]
                if v is None:
                    e = tms[-1]
                    for t in reversed(tms[:-1]):
                        e = lx.t_mmul(t, e)
                    flat = [x for r_ in e for x in r_]
                else:
                    e = [lx.tq(c) for c in v]
                    for t in reversed(tms):
                        e = lx.t_mvec(t, e)
                    flat = list(e)
                if not all(lx.dec_fits(x) for x in flat):
                    raise lx.Overflow32(0)
                # well-conditioned points only: 1 - beta^2 loses eps*gamma^2, so factors with gamma > GAMMA_MAX are left
                # to the sampled large-beta*gamma family, whose bound scales with the conditioning
                if max(abs(F(*x)) for t in tms for r_ in t for x in r_) > GAMMA_MAX:
                    self.skipped_ill += 1
                    continue
            except lx.Overflow32:
                rec.skipped32 += 1
                continue
            except lx.NotRational as e:
                self.approx(e, f"{name}:as_explicit", meta["key"], f"factor of {name} at {row}")
                continue
            except lx.AtRest:
                self.skipped_rest += 1
                continue
            rows.append((row, env, ms, v, [F(*x) for x in flat]))
        if len(rows) < n:
            return 0
        P = np.array([[float(c) for c in env[I.p]] for _, env, *_ in rows])
        Q = np.array([[float(c) for c in env[I.q]] for _, env, *_ in rows])
        Bv = np.array([float(env[I.b]) for _, env, *_ in rows])
        A1 = np.array([math.atan2(r["a1"][1], r["a1"][0]) for r, *_ in rows])
        A2 = np.array([math.atan2(r["a2"][1], r["a2"][0]) for r, *_ in rows])
        try:
            with np.errstate(all="ignore"):
                out = np.asarray(f(P, Q, Bv, A1, A2), dtype=float)
            want_shape = (n, 4) if rows[0][3] is not None else (n, 4, 4)
            if out.shape != want_shape:
                raise ValueError(f"shape {out.shape}, expected {want_shape}")
        except Exception as e:  # noqa: BLE001  (the generated code raised: an observation, judged by the law)
            rec.add({"k": "num", "ms": [lx.ID_REC], "hasv": 0, "v": [], "out": [], "raised": 1, "finite": 1, "pyok": 0,
                     "exc": _exc_text(e)}, input=f"batch {n}: {type(e).__name__}: {str(e)[:200]}", exc_type=type(e).__name__, **meta)
            return 1
        made = 0
        for i, (row, env, ms, v, flat) in enumerate(rows):
            o = out[i]
            finite = bool(np.all(np.isfinite(o)) and np.all(np.abs(o) < 2000))
            tol = lx.tol_units(flat)
            r = {"k": "num", "ms": [lx.mat_rec(m) for m in ms], "hasv": 0 if v is None else 1,
                 "v": [] if v is None else lx.vec_rec(v), "raised": 0, "finite": 1 if finite else 0, "exc": ""}
            if finite:
                ovals = [float(x) for x in o.reshape(-1)]
                qs = [lx.quantise(x) for x in ovals]
                r["out"] = qs if v is not None else [qs[4 * k: 4 * k + 4] for k in range(4)]
                worst = max(lx.diff_units(x, e) for x, e in zip(ovals, flat))
                r["pyok"] = 1 if worst <= tol else 0
                # measured margin (exact, before the floor quantisation): largest |x - e| in units of the tolerance
                self.worst_ratio = max(self.worst_ratio, max(float(abs(F(x) - e)) for x, e in zip(ovals, flat)) * 1e12 / tol)
            else:
                r["out"], r["pyok"] = [], 0
            inp = {k: str(val) for k, val in row.items()}
            rec.add(r, input=f"batch {n} row {i}: {inp}", **meta)
            if name.startswith("NegativeMomentum") or any(e.q != 1 for m_ in ms for e in m_):
                chk.nontrivial(("num", meta["key"], tuple(sorted(inp.items()))))
            made += 1
        return made

    # ---- float-only samples at large beta*gamma ------------------------------------------------
    def sampled(self, n_dirs: int):
        I, rec, rng = self.I, self.rec, self.rng_for("samp")
        if self.only is not None and not self.only.startswith("samp:"):
            return 0
        lz, ae = I.lz, I.ae
        try:
            fB = sp.lambdify([I.p], self.e_boost.doit(), cse=True)
            fBn = sp.lambdify([I.p], self.e_boost_neg.doit(), cse=True)
            fBp = sp.lambdify([I.p], ae.ArrayMultiplication(self.e_boost, I.p).doit(), cse=True)
        except Exception as e:  # noqa: BLE001  (code generation failed: an observation)
            rec.add({"k": "samp", "r": [], "finite": 0}, kind="samp", subject="BoostMatrix:numpy:large-beta-gamma",
                    key="samp:lambdify", input=f"lambdify raised {type(e).__name__}: {str(e)[:120]}")
            return 1
        eta = np.diag([1.0, -1, -1, -1])
        eps = 2.0**-52
        made = 0
        for k in range(-4, 5):   # slow (beta*gamma 1e-4) to ultra-relativistic (1e4)
            for mult in (1.0, 3.0):
                bg = mult * 10.0**k
                if bg > 1e4:
                    continue
                dirs = [np.array(d, dtype=float) for d in ((1, 0, 0), (0, -1, 0), (0, 0, 1))]
                dirs += [np.array([rng.gauss(0, 1) for _ in range(3)]) for _ in range(n_dirs)]
                m = 0.7
                P = np.array([[m * math.sqrt(1 + bg * bg)] + list(m * bg * d / np.linalg.norm(d)) for d in dirs])
                try:
                    with np.errstate(all="ignore"):
                        L, Ln, Lp = (np.asarray(g(P), dtype=float) for g in (fB, fBn, fBp))
                    if L.shape != (len(dirs), 4, 4) or Ln.shape != L.shape or Lp.shape != (len(dirs), 4):
                        raise ValueError(f"shapes {L.shape} {Ln.shape} {Lp.shape}")
                except Exception as e:  # noqa: BLE001  (the generated code raised: an observation)
                    rec.add({"k": "samp", "r": [], "finite": 0}, kind="samp", subject="BoostMatrix:numpy:large-beta-gamma",
                            key=f"samp:{bg}", input=f"beta*gamma = {bg:g}: generated code raised {type(e).__name__}: {str(e)[:120]}")
                    made += 1
                    continue
                for i in range(len(dirs)):
                    g2 = 1 + bg * bg
                    unit = eps * g2
                    res = [
                        np.max(np.abs(L[i].T @ eta @ L[i] - eta)) / g2,           # eta-orthogonality, relative to |L|^2 ~ gamma^2
                        abs(np.linalg.det(L[i]) - 1.0) / g2,
                        np.max(np.abs(Lp[i] - np.array([m, 0, 0, 0]))) / (m * math.sqrt(g2)),  # rest frame, relative to E
                        np.max(np.abs(Ln[i] @ L[i] - np.eye(4))) / g2,
                        max(0.0, 1.0 - L[i][0, 0]),
                    ]
                    finite = all(math.isfinite(x) for x in res)
                    r = [min(int(math.ceil(x / unit)), 10**9) if finite else 0 for x in res]
                    rec.add({"k": "samp", "r": r, "finite": 1 if finite else 0},
                            kind="samp", subject="BoostMatrix:numpy:large-beta-gamma", key=f"samp:{bg}",
                            input=f"beta*gamma = {bg:g}, direction {[round(float(c), 3) for c in dirs[i]]}: residuals/(eps*gamma^2) = {r}")
                    self.chk.nontrivial(("samp", bg, i))
                    made += 1
        return made


# ----------------------------------------------------------------------------------------------
# verdicts
# ----------------------------------------------------------------------------------------------
def judge(chk, rec: Recorder, tvs: list) -> dict:
    """Map the rejections named by Trace_Lorentz to violations / spec drift / machinery failures."""
    by_id: dict[int, list] = {}
    for tv in tvs:
        for p in tv.res.prints:
            if isinstance(p, tuple) and p and p[0] == "BADREC":
                raise Machinery(f"Trace_Lorentz: record built wrongly by the harness: {p[1:4]} :: {rec.meta.get(p[2])}")
        for clause, rid, info in tv.rejects:
            by_id.setdefault(rid, []).append((clause, info))
    first_bad: dict = {}          # chain id -> first record of the chain with a step-level rejection
    law_ids = set()
    for rid, lst in sorted(by_id.items()):
        for clause, info in lst:
            chain_level = clause in CHAIN_CLAUSES or (isinstance(info, tuple) and info and info[0] == "chain")
            if not chain_level:
                cid = rec.meta[rid].get("chain")
                if cid is not None:
                    first_bad.setdefault(cid, rid)
                if clause in LAW_CLAUSES:
                    law_ids.add(rid)
    prim_bad_chains = set(first_bad)
    n_viol = n_drift = 0
    drifted: set = set()
    for rid, lst in sorted(by_id.items()):
        meta = rec.meta[rid]
        for clause, info in lst:
            chain_level = clause in CHAIN_CLAUSES or (isinstance(info, tuple) and info and info[0] == "chain")
            if meta.get("chain") is not None and first_bad.get(meta["chain"], rid) < rid:
                continue        # downstream of a step already rejected in this chain: a consequence, not a finding
            if chain_level:
                if meta.get("chain") not in prim_bad_chains:
                    raise Machinery(f"chain-level clause {clause} rejected although every step matrix was accepted: "
                                    f"sympy and TLC disagree on a product ({meta})")
                continue
            if clause in LAW_CLAUSES:
                cl = "NumericAgrees" if clause == "NumericAgreesPy" else clause
                subject = meta["subject"]
                if clause == "NumericCodeRuns":
                    fam = subject.split(":numpy:")[0]
                    fam = "BoostMatrix" if fam == "BoostMatrix(p)" else fam
                    sig = f"codegen-raises:{fam}:{subject.split(':')[-1]}:{meta.get('exc_type', 'exception')}"
                elif clause == "NumericAgreesPy" and any(c == "NumericCodeRuns" for c, _ in lst):
                    continue
                else:
                    sig = f"{cl}:{subject}"
                chk.violation(sig, f"{clause} fails for {subject} at {meta.get('input')}; TLC info: {str(info)[:700]}",
                              {"key": meta["key"], "seed": chk.seed, "tier": chk.tier, "record": rec.records[rid - 1]})
                n_viol += 1
            elif clause == "MatchesReference":
                if rid in law_ids:
                    continue
                n_drift += 1
                if (clause, meta["subject"]) not in drifted:
                    drifted.add((clause, meta["subject"]))
                    chk.spec_drift(f"{meta['subject']} differs from the reference transformation of Lorentz.tla although every law "
                                   f"of the property holds for it (e.g. {meta.get('input')}): a convention change, not a violation")
            elif clause == "EvaluateAgreesWithExplicit":
                # implementation-shaped: which argument of evaluate() the printer puts where.  The property clause
                # ("generated code agrees with the explicit matrix") is decided by the numeric records.
                n_drift += 1
                if (clause, meta["subject"]) not in drifted:
                    drifted.add((clause, meta["subject"]))
                    chk.spec_drift(f"{meta['subject']}: the arguments handed to the numpy printer are not the entries of as_explicit() at the "
                                   f"places Trace_Lorentz!ArgsOK expects (e.g. {meta.get('input')}); the numeric comparison decides the clause")
            else:
                raise Machinery(f"unknown clause {clause} from Trace_Lorentz")
    return {"violating_records": n_viol, "drift_records": n_drift}


def validate(rec_list: list[dict], parts: int):
    """Validate records in `parts` parallel TLC runs (chains are kept together)."""
    groups: list[list[dict]] = []
    for r in rec_list:
        if r["k"] == "step":
            groups[-1].append(r)      # a step always follows its start / previous step
        else:
            groups.append([r])
    size = sum(len(g) for g in groups)
    target = max(1, math.ceil(size / parts))
    batches, b = [], []
    for g in groups:
        b += g
        if len(b) >= target:
            batches.append(b)
            b = []
    if b:
        batches.append(b)
    with ThreadPoolExecutor(max_workers=max(1, len(batches))) as ex:
        return list(ex.map(lambda bb: trace.validate("Trace_Lorentz", bb, cfg=TRACE_CFG, timeout=2400), batches))


# ----------------------------------------------------------------------------------------------
def run(chk, replay=None):
    tier = chk.tier
    quick = tier == "quick"
    chk.assume(
        "TLC/SANY and the CommunityModules Json reader",
        "SymPy: exact substitution (xreplace) and Rational arithmetic when a lattice point is put into as_explicit()/evaluate()",
        "numpy (einsum, sqrt, cos, sin) as the execution platform of the generated code; math.atan2 to turn (cos, sin) into an angle",
        "Energy/FourMomentumX/Y/Z/ThreeMomentum pick columns 0..3 as (E,x,y,z) when atoms are replaced in the exact path (C07's clause); "
        "the numeric path does not assume it",
        "exact claims hold on the rational lattices only; beta*gamma up to 1e4 is sampled in floating point, residuals judged relative to eps*gamma^2",
        "BoostMatrix at |p| = 0 (0/0 in the implementation) is excluded as a removable singularity",
    )
    only = replay["case"]["key"] if replay and replay.get("case") else None
    r_seed = replay["case"].get("seed") if only else None
    r_tier = replay["case"].get("tier") if only else None
    if only:
        quick = (r_tier or tier) == "quick"

    # 1. the specification itself: exhaustive TLC (in the background while the implementation is driven)
    pool = ThreadPoolExecutor(max_workers=2)
    mc_jobs = {}
    if only is None:
        if quick:
            mc_jobs["model_Q_depth3"] = pool.submit(model_check, "Q", 3, 3)
            mc_jobs["model_A_depth2"] = pool.submit(model_check, "A", 2, 1)
        else:
            mc_jobs["model_A_depth3"] = pool.submit(model_check, "A", 3, 3)
            mc_jobs["model_B3_depth3"] = pool.submit(model_check, "B3", 3, 2)

    # 2. the implementation on the lattices
    t0 = time.time()
    rec = Recorder()
    gen = Gen(chk, rec, only, seed=r_seed, tier=r_tier)
    counts = {}
    counts["chains"] = gen.chains(1 if quick else 12) if (only is None or only.startswith("chain:")) else 0
    counts["inv"] = gen.inverses(60 if quick else 100000)
    counts["zag"] = gen.zagree()
    counts["rot"] = gen.rotations(120 if quick else 3000)
    counts["args"] = gen.evaluate_args(40 if quick else 600)
    n_exact = len(rec.records)
    counts["num"] = gen.numeric(1 if quick else 10)
    counts["samp"] = gen.sampled(3 if quick else 25)
    counts["approx_irrational_on_lattice"] = sum(1 for r in rec.records if r["k"] == "approx")
    counts["irrational_evaluations"] = getattr(gen, "n_irrational", 0) + getattr(gen, "n_irrational_args", 0)
    gen_s = time.time() - t0
    if not rec.records:
        raise Machinery(f"no record generated (replay key {only!r} not reproducible)")
    chk.count(len(rec.records))

    # 3. TLC judges the records
    tvs = validate(rec.records, 1 if only else (3 if quick else 4))
    stats: dict[str, int] = {}
    for i, tv in enumerate(tvs):
        chk.add_tlc(f"trace_batch{i}", tv.res, traces=0)
        for k, v in tv.stats.items():
            stats[k] = stats.get(k, 0) + v
    n_traces = counts["chains"] + sum(counts[k] for k in ("inv", "zag", "rot", "args", "num", "samp"))
    chk.cov["traces_validated_against_impl"] += n_traces
    chk.part("records", **counts, exact_records=n_exact, total=len(rec.records), skipped_not_32bit=rec.skipped32,
             skipped_ill_conditioned=gen.skipped_ill, skipped_momentum_at_rest=gen.skipped_rest, truncated_chains=gen.truncated_chains, numeric_worst_distance_over_tolerance=round(gen.worst_ratio, 4),
             generation_s=round(gen_s, 1), laws_evaluated=stats)
    logged: dict[str, int] = {}
    for r in rec.records:
        logged[r["k"]] = logged.get(r["k"], 0) + 1
    for k, v in logged.items():
        if stats.get(k, 0) != v:
            raise Machinery(f"TLC consumed {stats.get(k, 0)} records of kind {k}, the driver logged {v}")
    if only is None and counts["irrational_evaluations"] == 0:
        for k in ("step", "inv", "zag", "rot", "args", "num", "samp", "proper", "rest", "numentries"):
            if stats.get(k, 0) == 0:
                raise Machinery(f"vacuous trace validation: law counter {k} is 0 ({stats})")
    verdict = judge(chk, rec, tvs)
    chk.part("verdict", **verdict)

    # samples: one chain, one law record, one numeric record (compact)
    def compact(r):
        r = dict(r)
        for k in ("ms",):
            if k in r:
                r[k] = f"{len(r[k])} exact 4x4 factor matrices"
        return r
    for kind in ("step", "inv", "rot", "num", "samp"):
        for r in rec.records:
            if r["k"] == kind and (kind != "step" or r["a"] in ("Boost", "ToRest")):
                chk.sample({"record": compact(r), "meta": {k: v for k, v in rec.meta[r["id"]].items() if k != "chain"}})
                break

    # 4. results of the exhaustive runs
    for name, job in mc_jobs.items():
        res = job.result()
        chk.add_tlc(name, res)
        if not res.ok:
            raise Machinery(f"Lorentz.tla violates {res.violated} in {name}: specification error\n" + "\n".join(res.error_trace[:60]))
        dead = [a for a in MC_ACTIONS if res.coverage.get(a, 0) == 0]
        if dead:
            raise Machinery(f"vacuous model check {name}: actions never taken {dead}")
    if not quick and only is None:
        for name, lat in (("model_C_depth2", "C"), ("model_B_depth2", "B")):
            res = model_check(lat, 2, 6)
            chk.add_tlc(name, res)
            if not res.ok:
                raise Machinery(f"Lorentz.tla violates {res.violated} on lattice {lat}: specification error")
    pool.shutdown()

    # 5. sensitivity of the model and binding of the trace specification
    if only is None:
        devs = ['{"RotYSign"}'] if quick else ['{"RotYSign"}', '{"BoostZSwap"}', '{"BoostNoInverse"}']
        for dev in devs:
            r = model_check("Q", 2, 2, dev=dev)
            if r.ok:
                raise Machinery(f"model is insensitive: deviation {dev} of the reference violates no invariant or law")
            r2 = model_check("Q", 2, 2, dev=dev, invariants=False)
            if r2.ok:
                raise Machinery(f"laws are insensitive: deviation {dev} of the reference violates no action property")
            chk.part(f"model_sensitivity_{dev.strip('{}').strip(chr(34))}", invariant_violated=sorted(set(r.violated)),
                     law_violated=sorted(set(r2.violated)), states=r.distinct)
    if not quick and only is None:
        binding_demo(chk, rec)

    chk.cov["rule"] = (
        "exhaustive: every chain of <= MaxDepth actions of Lorentz.tla over the lattices of Lorentz_MC.tla (entries capped at 2000 for "
        "32-bit arithmetic); implementation: every kind-sequence of <= 3 of {BoostZ,RotY,RotZ,Boost,ToRest,Negate} with seeded lattice "
        "parameters, B(p)/B(-p) on oriented integer-mass momenta (all axis directions and signs always), BoostZ vs Boost along z for "
        "every beta x 4 scales, R(a)R(b)=R(a+b) on sampled pairs of circle points, evaluate() arguments, 17 numeric expression "
        "families x cse on/off x batch 1/2/17 (factors with entries <= 8: well-conditioned), float-only samples beta*gamma in 1..1e4; "
        "distinct non-trivial = distinct (family, lattice parameters) in which at least one matrix is not a signed permutation of the "
        "axes (a boost, or a rotation by a non-axis angle), counted by the driver"
    )
    chk.cov["exhaustive"] = False


def binding_demo(chk, rec: Recorder):
    """Corrupt logged fields / drop a record: Trace_Lorentz must reject and name the clause."""
    import copy

    def first(pred):
        for r in rec.records:
            if pred(r):
                return r
        raise Machinery("binding demo: no suitable record")

    demos = []
    # (a) flip the sign of one off-diagonal entry of a logged rotation matrix
    i = next(i for i, r in enumerate(rec.records) if r["k"] == "step" and r["a"] == "RotY" and r["par"][1] != 0
             and rec.records[i - 1]["k"] == "start")
    start, step = copy.deepcopy(rec.records[i - 1]), copy.deepcopy(rec.records[i])
    step["L"][3][1][0] = -step["L"][3][1][0]
    demos.append(("sign of RotY[3][1] flipped", [start, step], {"EtaOrthogonal", "MatchesReference"}))
    # (b) one numeric limb off by 5e-9
    num = copy.deepcopy(first(lambda r: r["k"] == "num" and r["raised"] == 0 and r["finite"] == 1 and r["hasv"] == 0))
    num["out"][1][1][2] = (num["out"][1][1][2] + 5000) % 1000000
    demos.append(("numeric entry moved by 5e-9", [num], {"NumericAgrees"}))
    # (c) drop the first step of a two-step chain
    j = next(i for i, r in enumerate(rec.records) if r["k"] == "start" and i + 2 < len(rec.records)
             and rec.records[i + 1]["k"] == "step" and rec.records[i + 2]["k"] == "step"
             and rec.records[i + 1]["a"] in ("BoostZ", "Boost") and rec.records[i + 2]["a"] != "ToRest")
    demos.append(("first step of a chain dropped", [copy.deepcopy(rec.records[j]), copy.deepcopy(rec.records[j + 2])],
                  {"ChainMatchesReference"}))
    # (d) energy flipped in a logged NegativeMomentum
    inv = copy.deepcopy(first(lambda r: r["k"] == "inv"))
    inv["nq"][0][0] = -inv["nq"][0][0]
    demos.append(("NegativeMomentum with flipped energy", [inv], {"NegKeepsEnergy"}))
    # (e) b12 <-> b13 in a logged boost matrix
    inv2 = copy.deepcopy(first(lambda r: r["k"] == "inv" and r["m2"][1][2] != r["m2"][1][3]))
    inv2["m2"][1][2], inv2["m2"][1][3] = inv2["m2"][1][3], inv2["m2"][1][2]
    demos.append(("b12/b13 swapped in B(-q)", [inv2], {"EtaOrthogonal", "BoostInverse"}))
    out = {}
    for name, records, expected in demos:
        for k, r in enumerate(records):
            r["id"] = k + 1
        tv = trace.validate("Trace_Lorentz", records, cfg=TRACE_CFG, timeout=600)
        got = {c for c, *_ in tv.rejects}
        if not expected <= got:
            raise Machinery(f"binding demo '{name}': Trace_Lorentz rejected {sorted(got)} but {sorted(expected)} was expected: the check would be vacuous")
        out[name] = sorted(got)
    chk.part("binding_demo", **{k.replace(" ", "_"): v for k, v in out.items()})
