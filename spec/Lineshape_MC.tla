---------------------------- MODULE Lineshape_MC ----------------------------
(***************************************************************************)
(* Exhaustive check of the reference laws of Lineshape on TLC's own        *)
(* lattice.  One initial state; the first step (Start) picks a member of   *)
(* one of four families of behaviours, each a scan:                        *)
(*   "phsp"  : a mass pair, s = SMin..SMax in steps of 1/SDen (the real    *)
(*             axis is walked from left to right through every region);    *)
(*   "bw"    : an angular momentum L in 0..LMax, z along ZLattice          *)
(*             (increasing);                                               *)
(*   "width" : (variant X, L, m0, masses, radius), s along WidthS;         *)
(*   "big"   : pairs of native integers, soundness of the limb arithmetic  *)
(*             against TLC's native arithmetic where that does not         *)
(*             overflow.                                                   *)
(* Invariants are the laws of C11/C12 on the reference; the action         *)
(* properties say that regions are passed in order and that B_L^2 is       *)
(* increasing in z.                                                        *)
(***************************************************************************)
EXTENDS Lineshape, TLC

CONSTANTS SNeg, SMax, SDen, LMax, Tier,     \* s runs over -SNeg..SMax in steps of 1/SDen
          Families                          \* which of "phsp", "bw", "width", "big" to explore
SMin == -SNeg

VARIABLE pt

IntPairs == {<<1, 1>>, <<1, 2>>, <<2, 1>>, <<1, 5>>, <<5, 1>>, <<2, 3>>, <<3, 2>>, <<3, 3>>}
MassPairs ==
  {<<R(p[1]), R(p[2])>> : p \in IntPairs}
  \cup (IF Tier = "thorough"
        THEN {<<<<1, 2>>, <<1, 2>>>>, <<<<1, 2>>, <<3, 2>>>>, <<<<3, 2>>, <<1, 2>>>>, <<<<2, 3>>, <<1, 1>>>>,
              <<<<1, 1>>, <<2, 3>>>>, <<<<5, 2>>, <<5, 2>>>>, <<<<1, 7>>, <<4, 1>>>>}
        ELSE {})
ZLattice ==
  IF Tier = "thorough"
  THEN << <<1, 100>>, <<1, 16>>, <<1, 9>>, <<1, 4>>, <<1, 2>>, <<1, 1>>, <<2, 1>>, <<3, 1>>, <<4, 1>>,
          <<9, 1>>, <<16, 1>>, <<100, 1>>, <<1000, 7>> >>
  ELSE << <<1, 9>>, <<1, 4>>, <<1, 1>>, <<4, 1>>, <<9, 1>>, <<100, 1>> >>
WidthS == << <<-3, 1>>, <<1, 2>>, <<2, 1>>, <<5, 1>>, <<9, 1>>, <<10, 1>>, <<49, 4>>, <<16, 1>>, <<20, 1>>, <<25, 1>>, <<30, 1>> >>
WidthM0 == IF Tier = "thorough" THEN {<<4, 1>>, <<7, 2>>, <<5, 2>>, <<5, 1>>}    \* m0^2 = 16, 49/4, 25/4 (< thr of (1,2)), 25
           ELSE {<<4, 1>>, <<5, 2>>}
WidthMasses == IF Tier = "thorough" THEN {<<R(1), R(1)>>, <<R(1), R(2)>>, <<R(2), R(1)>>} ELSE {<<R(1), R(1)>>, <<R(1), R(2)>>}
WidthD == IF Tier = "thorough" THEN {<<1, 1>>, <<1, 2>>, <<2, 1>>} ELSE {<<1, 1>>, <<1, 2>>}
WidthL == IF Tier = "thorough" THEN 0..4 ELSE {0, 1, 3}
BigInts == {0, 1, 2, 7, 999, 1000, 1001, 4567, 46340, 46341, 65536, 999999, 1000000, 12345678}

PhspInit == {[fam |-> "phsp", k |-> SMin * SDen, m |-> m] : m \in MassPairs}
BwInit == {[fam |-> "bw", L |-> L, zi |-> 1] : L \in 0..LMax}
WidthInit == {[fam |-> "width", X |-> X, L |-> L, m0 |-> m0, m |-> m, d |-> d, si |-> 1] :
                X \in Algebraic, L \in WidthL, m0 \in WidthM0, m \in WidthMasses, d \in WidthD}
BigInit == {[fam |-> "big", a |-> a, b |-> b] : a \in BigInts, b \in BigInts}

\* one initial state; the first step chooses the family member (so that TLC's workers share the lattice)
Init == pt = [fam |-> "start"]
Start == /\ pt.fam = "start"
         /\ \/ "phsp" \in Families /\ pt' \in PhspInit
            \/ "bw" \in Families /\ pt' \in BwInit
            \/ "width" \in Families /\ pt' \in WidthInit
            \/ "big" \in Families /\ pt' \in BigInit

ScanS == pt.fam = "phsp" /\ pt.k < SMax * SDen /\ pt' = [pt EXCEPT !.k = @ + 1]
ScanZ == pt.fam = "bw" /\ pt.zi < Len(ZLattice) /\ pt' = [pt EXCEPT !.zi = @ + 1]
ScanW == pt.fam = "width" /\ pt.si < Len(WidthS) /\ pt' = [pt EXCEPT !.si = @ + 1]
Next == Start \/ ScanS \/ ScanZ \/ ScanW
Spec == Init /\ [][Next]_pt

S(p) == RNorm(p.k, SDen)

\* ---- C11 ----
PhspTyped == pt.fam = "phsp" =>
  LET s == S(pt) IN
  Region(s, pt.m[1], pt.m[2]) # "pole" =>
     /\ IsRat(Q2(s, pt.m[1], pt.m[2]))
     /\ \A X \in Algebraic : IsRat(Rho2(X, s, pt.m[1], pt.m[2]))
Q2Symmetric == pt.fam = "phsp" /\ Region(S(pt), pt.m[1], pt.m[2]) # "pole" => LawQ2Symmetric(S(pt), pt.m[1], pt.m[2])
Q2ZeroExactlyAtThresholds == pt.fam = "phsp" /\ Region(S(pt), pt.m[1], pt.m[2]) # "pole" => LawQ2Zero(S(pt), pt.m[1], pt.m[2])
Q2SignByRegion == pt.fam = "phsp" /\ Region(S(pt), pt.m[1], pt.m[2]) # "pole" => LawQ2Sign(S(pt), pt.m[1], pt.m[2])
AboveThreshold == pt.fam = "phsp" /\ Region(S(pt), pt.m[1], pt.m[2]) # "pole" =>
                     \A X \in Algebraic : LawAbove(X, S(pt), pt.m[1], pt.m[2])
BetweenThresholds == pt.fam = "phsp" /\ Region(S(pt), pt.m[1], pt.m[2]) # "pole" => LawBetween(S(pt), pt.m[1], pt.m[2])
QuadrantTable == pt.fam = "phsp" /\ Region(S(pt), pt.m[1], pt.m[2]) # "pole" =>
                     \A X \in Algebraic : LawQuadTable(X, S(pt), pt.m[1], pt.m[2])
\* the three algebraic variants have the same modulus everywhere
SameModulus == pt.fam = "phsp" /\ Region(S(pt), pt.m[1], pt.m[2]) # "pole" =>
                 LET s == S(pt) IN
                 /\ Rho2(PSF, s, pt.m[1], pt.m[2]) = Rho2(PSFComplex, s, pt.m[1], pt.m[2])
                 /\ RAbs(Rho2(PSF, s, pt.m[1], pt.m[2])) = RAbs(Rho2(PSFAbs, s, pt.m[1], pt.m[2]))
RegionsInOrder == [][pt.fam = "phsp" =>
                       RegionRank(Region(S(pt'), pt.m[1], pt.m[2])) >= RegionRank(Region(S(pt), pt.m[1], pt.m[2]))]_pt

\* ---- C12 ----
Z(p) == ZLattice[p.zi]
Factorials == pt.fam = "bw" => \A k \in 0..pt.L : FactorialLemma(pt.L, k)
PathsAgree == pt.fam = "bw" => LawPathsAgree(pt.L, Z(pt))
ClosedForm == pt.fam = "bw" => LawClosedForm(pt.L)
OneAtOne == pt.fam = "bw" => LawOne(pt.L)
ThresholdPower == pt.fam = "bw" => LawThresholdPower(pt.L)
Bounded == pt.fam = "bw" => LawBounded(pt.L) /\ LawBelowLimit(pt.L, Z(pt))
Increasing == [][pt.fam = "bw" /\ pt.L > 0 => QLt(BWPoly(pt.L, Z(pt)), BWPoly(pt.L, Z(pt')))]_pt

WS(p) == WidthS[p.si]
WidthAtPole == pt.fam = "width" => LawWidthAtPole(pt.X, pt.L, pt.m0, pt.m[1], pt.m[2], pt.d)
\* above both thresholds the width is a positive real; it vanishes at threshold (L = 0: like rho)
WidthPositive == pt.fam = "width" =>
   LET s == WS(pt) IN
   (/\ WidthDefined(pt.X, pt.L, s, pt.m0, pt.m[1], pt.m[2], pt.d)
    /\ Region(s, pt.m[1], pt.m[2]) = "above" /\ Region(RSq(pt.m0), pt.m[1], pt.m[2]) = "above")
   => /\ WidthQuad(pt.X, pt.L, s, pt.m0, pt.m[1], pt.m[2], pt.d) = "pr"
      /\ QSign(WidthRatioSq(pt.X, pt.L, s, pt.m0, pt.m[1], pt.m[2], pt.d)) > 0
\* the width does not depend on which algebraic variant is used above both thresholds
WidthVariantFree == pt.fam = "width" =>
   LET s == WS(pt) IN
   (/\ WidthDefined(pt.X, pt.L, s, pt.m0, pt.m[1], pt.m[2], pt.d)
    /\ Region(s, pt.m[1], pt.m[2]) = "above" /\ Region(RSq(pt.m0), pt.m[1], pt.m[2]) = "above")
   => QEq(WidthRatioSq(pt.X, pt.L, s, pt.m0, pt.m[1], pt.m[2], pt.d),
          WidthRatioSq(PSF, pt.L, s, pt.m0, pt.m[1], pt.m[2], pt.d))

\* ---- soundness of the limb arithmetic against native arithmetic ----
BigSound == pt.fam = "big" =>
  LET a == pt.a b == pt.b IN
  /\ IsN(NOf(a)) /\ IsN(NAdd(NOf(a), NOf(b))) /\ IsN(NMul(NOf(a), NOf(b)))
  /\ NAdd(NOf(a), NOf(b)) = NOf(a + b)
  /\ ((b = 0 \/ a <= 2000000000 \div b) => NMul(NOf(a), NOf(b)) = NOf(a * b))
  /\ NCmp(NOf(a), NOf(b)) = SgnI(a - b)
  /\ (a >= b => NSub(NOf(a), NOf(b)) = NOf(a - b))
  /\ (b > 0 /\ b <= 2000000 => /\ NDivSmall(NOf(a), b) = NOf(a \div b)
                                /\ NRemSmall(NOf(a), b) = a % b
                                /\ NDivSmall(NMul(NOf(a), NOf(b)), b) = NOf(a))
  /\ ZEq(ZSub(ZOf(a), ZOf(b)), ZOf(a - b))
  /\ ZEq(ZMul(ZSub(ZOf(a), ZOf(b)), ZOf(-3)), ZOf(3 * b - 3 * a))
  /\ ZSign(ZSub(ZOf(a), ZOf(b))) = SgnI(a - b)
  /\ NShift(NOf(a), 2) = NMul(NOf(a), NOf(1000000))
  /\ (b > 0 => QEq(QAdd(QOf(a, b), QOf(1, 3)), QOf(3 * a + b, 3 * b)))
  \* sqrt bracket: a (units 1e-12) against the square a^2/10^24 shifted by b units
  /\ (a > 0 => Bracket(ZOf(a), <<ZOfN(NMul(NOf(a), NOf(a))), ZOfN(NShift(<<1>>, 8))>>, 1))
  /\ (a > 2 => ~ Bracket(ZOf(a), <<ZOfN(NMul(NOf(a + 2), NOf(a + 2))), ZOfN(NShift(<<1>>, 8))>>, 1))
=============================================================================
