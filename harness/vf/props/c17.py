"""C17 — HelicityModel.rename_symbols is a consistent renaming of the whole model
(+ ParameterValues as a mapping: lookup / assignment by symbol, name and position).

spec/ModelOps.tla (symbol-level model, Rename / PickleRoundTrip / ParamGet / ParamSet, laws)
  -> exhaustive TLC on a small abstract model with every role (spec/ModelOps_MC.tla)
  -> the same state machine instantiated with the projection of REAL models (spec/ModelOps_Real.tla):
     TLC enumerates the full rename graph and simulates mixed histories, vf.modelops_exec executes
     every transition on the real object and compares projection with specification state (G/S)
  -> every executed operation is logged and judged by spec/Trace_ModelOps.tla (T)
  -> renamed models are evaluated numerically against the original (O, observation)."""
from __future__ import annotations

import copy
import json
import subprocess
import sys
from concurrent.futures import ThreadPoolExecutor

from .. import tlc, trace
from ..core import Machinery, child_env

LEVEL = "model_checking"
META = {
    "technique": "TLA+ spec ModelOps (a formulated model as symbol-level state: symbols = [name, assumption tag]; actions Rename(map), "
    "PickleRoundTrip, ParamGet/ParamSet by symbol/name/index) model-checked exhaustively with TLC over the C17 map alphabet x "
    "sequences <= 3 on an abstract model; the same specification instantiated with the projection of real HelicityModels: TLC's "
    "full rename graph (-dump dot,actionlabels) and -simulate histories are executed transition by transition on the real "
    "objects (projection = specification state, attribute = xreplace of the receiver, receiver unchanged); every executed "
    "operation is re-judged by the trace specification Trace_ModelOps, which recomputes the expected projection in TLA+",
    "text": "The renamed model is specified as the image of the original under the symbol map built from names (assumptions part of "
    "symbol identity); TLC proves on the model that closure (C01), consistency of the attributes, assumption preservation, "
    "'only coupling', rename-back and composition hold for admissible maps and that admissibility is exactly what keeps closure, "
    "and finds the shortest breaking history for each named deviation. Binding in both directions makes each TLC-chosen "
    "history a test of the real rename_symbols / ParameterValues, with the specification state as oracle at every step.",
    "note": "Trusted: TLC/SANY, the abstraction function (free sp.Symbol atoms per attribute, assumptions0 as tag, IndexedBase labels "
    "excluded), the role binding of the map alphabet. Observed behaviour specified as such (not judged): coupling parameters "
    "with unequal defaults keeps the position of the first and the value of the LAST, silently; the empty map returns the "
    "receiver itself (aliasing); two parameters with different assumptions mapped to one name stay two symbols (inadmissible "
    "map). The numeric clause is an observation on seeded points (lambdified expression over kinematic variables).",
    "design_ref": "DESIGN.md §4 C17, §2.2 ModelOps, §8 (ParameterValues)",
}

# ---------------------------------------------------------------------------------------------
MC_CFG = """SPECIFICATION {spec}
CONSTANTS
 Model0 <- MCModel
 MapTable <- {maps}
 ExtraSyms <- MCExtraSyms
 ExtraNames <- MCExtraNames
 SetValues <- {values}
 MaxSteps = {steps}
 Dev <- {dev}
{laws}CHECK_DEADLOCK FALSE
"""
LAWS = (
    "INVARIANT TypeOK\nINVARIANT ClosureInv\nINVARIANT ConsistentInv\nINVARIANT ViewsAgreeInv\nINVARIANT AliasInv\n"
    "PROPERTY RenameIsImage\nPROPERTY AssumptionsKept\nPROPERTY UnrelatedUntouched\nPROPERTY OnlyCoupling\n"
    "PROPERTY AdmissibleExact\nPROPERTY WarnsExactly\nPROPERTY OriginalUnchanged\nPROPERTY ParamGetLaw\nPROPERTY ParamSetLaw\n"
)
ALGEBRA = "INVARIANT RenameBackInv\nINVARIANT ComposeInv\n"
TRACE_CFG = """SPECIFICATION TraceSpec
CONSTANTS
 Model0 <- TraceModel0
 MapTable <- TraceMaps
 ExtraSyms <- TraceNone
 ExtraNames <- TraceNone
 SetValues <- TraceValues
 MaxSteps = 0
 Dev <- TraceNone
POSTCONDITION TraceAccepted
CHECK_DEADLOCK FALSE
"""
ACTIONS = ["Rename", "PickleRoundTrip", "ParamGet", "ParamSet"]
# deviation -> (specification, map table) of the smallest configuration in which it must break a law
DEVIATIONS = {
    "DevPinned": ("SpecRename", "MCMaps"),  # symbols collected from expression + kinematic variables only
    "DevSeq": ("SpecRename", "MCMaps"),
    "DevAssume": ("SpecRename", "MCMaps"),
    "DevComps": ("SpecRename", "MCMaps"),
    "DevKin": ("SpecRename", "MCMaps"),
    "DevAmps": ("SpecRename", "MCMaps"),
    "DevMut": ("SpecRename", "MCMaps"),
    "DevIdx": ("Spec", "MCMapsSmall"),
    "DevSetName": ("Spec", "MCMapsSmall"),
}
QUICK_MODELS = ["dpd-stable-dyn-can", "dyn-can", "stable-dyn-hel", "zeroamp-hel"]
THOROUGH_MODELS = ["dpd-stable-dyn-can", "dyn-can", "stable-dyn-hel", "plain-hel", "plain-can", "stable-plain-can", "zeroamp-hel"]
NUMERIC_QUICK = ["merge", "swap", "kinv", "chain2"]
NUMERIC_THOROUGH = ["inj", "merge", "chain", "chain2", "swap", "kinv", "kinint", "kindef", "p4", "ghost", "all", "unknown"]
REL_TOL = 1e-10
DRIFTS = {
    "EmptyReturnsSelf": "the empty map returns the receiver itself, every other map a new object",
    "ParameterOrder": "renamed parameter_defaults keep the order of the original keys, a coupled key the position of the first",
    "MergeValuePolicy": "a coupled parameter takes the default of the LAST of its originals in parameter order",
}


def action_coverage(raw: str) -> dict:
    """Per-action counts of a `-coverage 1` run (the shared parser does not know the
    location suffix TLC appends to actions that are split over a constant set)."""
    import re

    cov: dict[str, int] = {}
    pat = re.compile(r"^<(\w+) line \d+, col \d+ to line \d+, col \d+ of module \w+(?: \([\d ]+\))?>: (\d+):(\d+)")
    for ln in raw.splitlines():
        m = pat.match(ln)
        if m:
            cov[m.group(1)] = cov.get(m.group(1), 0) + int(m.group(2))
    return cov


def run_worker(job: dict) -> dict:
    p = subprocess.run([sys.executable, "-m", "vf.modelops_exec"], input=json.dumps(job), capture_output=True, text=True,
                       env=child_env(), timeout=3600)
    lines = [ln for ln in p.stdout.splitlines() if ln.startswith("C17RESULT:")]
    if p.returncode != 0 or not lines:
        raise Machinery(f"modelops executor failed for {job['model']} (rc={p.returncode}):\n{p.stderr[-3000:]}")
    return json.loads(lines[-1][len("C17RESULT:") :])


def real_name(out: dict, nid: str) -> str:
    return out["names"].get(nid, nid)


def describe_pairs(out: dict, rec: dict) -> str:
    return "{" + ", ".join(f"{real_name(out, o)!r}: {real_name(out, n)!r}" for o, n in rec.get("pairs", [])) + "}"


def history_of(out: dict, rec: dict) -> list:
    """The operations that led to record `rec` (follow pre_ref back to the Model record)."""
    hist = []
    r = rec
    while r["op"] != "Model":
        if r["op"] == "Rename":
            hist.append(["rename_symbols", {real_name(out, o): real_name(out, n) for o, n in r["pairs"]}])
        elif r["op"] == "Pickle":
            hist.append(["pickle round trip"])
        else:
            key = r.get("key_symbol") or r.get("key_name")
            if r["kind"] == "symbol":
                key = [real_name(out, key["name"]), key["tag"]]
            elif r["kind"] == "name":
                key = real_name(out, key)
            else:
                key = r["key_index"]
            hist.append([r["op"], r["kind"], key] + ([out["values"].get(str(r["value"]), r["value"])] if r["op"] == "ParamSet" else []))
        r = out["records"][r["pre_ref"] - 1]
    return hist[::-1]


# ---------------------------------------------------------------------------------------------
def run(chk, replay=None):
    tier = chk.tier
    thorough = tier == "thorough"
    chk.assume(
        "TLC/SANY and the CommunityModules Json reader",
        "abstraction function: free sp.Symbol atoms per attribute (IndexedBase labels excluded), symbol identity = (name, assumptions0), "
        "parameter values by (type, repr); four-momentum symbols = names of ArraySymbol atoms in kinematic-variable definitions",
        "role binding of the map alphabet to concrete symbols of each real model (recorded under coverage.parts.<model>.roles)",
        "numeric clause: lambdify(expression.doit()) on seeded complex-typed points of the kinematic variables (observation, not decided by TLC)",
    )

    # ---- 1. the design: exhaustive TLC on the abstract model ------------------------------------
    mc_jobs = [
        ("mc_mixed", dict(spec="Spec", maps="MCMapsSmall", steps=3 if thorough else 2, dev="DevNone", laws=LAWS,
                          values="MCValues" if thorough else "MCValues1"), 2, False),
        ("mc_rename_depth3", dict(spec="SpecRename", maps="MCMaps", steps=3, dev="DevNone", laws=LAWS), 1, False),
        ("mc_algebra", dict(spec="SpecRename", maps="MCMaps" if thorough else "MCMapsCore", steps=3 if thorough else 2, dev="DevNone", laws=ALGEBRA), 1, False),
        ("mc_coverage", dict(spec="Spec", maps="MCMapsSmall", steps=1, dev="DevNone", laws=LAWS), 1, True),
    ]
    devs = list(DEVIATIONS) if thorough else ["DevPinned", "DevSeq", "DevMut", "DevSetName"]
    for d in devs:
        spec, maps = DEVIATIONS[d]
        mc_jobs.append(("dev_" + d, dict(spec=spec, maps=maps, steps=1, dev=d, laws=LAWS), 1, False))

    def one_mc(job):
        name, kw, workers, cov = job
        kw.setdefault("values", "MCValues")
        return name, tlc.run("ModelOps_MC", MC_CFG.format(**kw), workers=workers, coverage=cov, fast_start=not name.startswith("mc_"), timeout=2400)

    # ---- 2. real models (each in its own interpreter) ---------------------------------------------
    models = THOROUGH_MODELS if thorough else QUICK_MODELS
    jobs = []
    for i, m in enumerate(models):
        heavy = m.startswith("dpd")  # 40 components, 8 amplitudes: ~10x the cost per transition
        job = {
            "model": m, "tier": tier, "seed": chk.seed + i, "tlc_workers": 1,
            "graph_depth": (2 if heavy else 3) if thorough else (1 if heavy else 2),
            "sim_num": (40 if heavy else 120) if thorough else (8 if heavy else 25),
            "sim_depth": 14 if thorough else 10, "sim_steps": 5 if thorough else 4,
            "numeric": (NUMERIC_THOROUGH if thorough else ([] if heavy else NUMERIC_QUICK)),
        }
        jobs.append(job)
    if replay and replay.get("case"):
        case = replay["case"]
        jobs = [j for j in jobs if j["model"] == case.get("model")] or [dict(jobs[0], model=case.get("model", jobs[0]["model"]))]
        nren = sum(1 for h in case.get("history", []) if h and h[0] == "rename_symbols")
        jobs[0]["graph_depth"] = max(1, min(2 if jobs[0]["model"].startswith("dpd") else 3, nren))
        jobs = jobs[:1]

    def worker_then_trace(job):
        out = run_worker(job)
        if not out["tlc"]["graph"]["ok"]:
            return out, None
        # code -> spec: every executed operation is judged by Trace_ModelOps
        return out, trace.validate("Trace_ModelOps", out["records"], cfg=TRACE_CFG, timeout=2400)

    with ThreadPoolExecutor(max_workers=2) as mc_pool, ThreadPoolExecutor(max_workers=3) as w_pool:
        mc_fut = [mc_pool.submit(one_mc, j) for j in mc_jobs]
        w_fut = [w_pool.submit(worker_then_trace, j) for j in jobs]
        mc_res = [f.result() for f in mc_fut]
        judged = [f.result() for f in w_fut]
    outs = [o for o, _ in judged]

    for name, res in mc_res:
        if name.startswith("mc_"):
            chk.add_tlc(name, res)
            if not res.ok:
                raise Machinery(f"the specification violates its own law {res.violated} on the abstract model ({name}): specification error\n" + "\n".join(res.error_trace[:60]))
            if name == "mc_coverage":
                cov = action_coverage(res.raw)
                chk.part(name, action_coverage=cov)
                dead = [a for a in ACTIONS if cov.get(a, 0) == 0]
                if dead:
                    raise Machinery(f"vacuous model check: actions never taken {dead}")
        else:
            if res.ok:
                raise Machinery(f"the laws are insensitive: deviation {name[4:]} does not violate any of them on the abstract model")
            chk.part("deviation_sensitivity", **{name[4:]: res.violated})

    # ---- 3. verdicts: Trace_ModelOps names the violated clause; replay mismatches must agree ----
    total_ops = 0
    trace_totals: dict[str, int] = {}
    numeric_errors = []
    for out, tv in judged:
        m = out["model"]
        g = out["tlc"]["graph"]
        if not g["ok"]:
            raise Machinery(f"the specification violates {g['violated']} on the projection of real model {m} (a law of ModelOps does not hold "
                            f"for a model of this shape: specification error, or the formulated model is not closed)\n" + "\n".join(g["error"][:40]))
        st = out["stats"]
        histories = st["edges"] + st["behaviours"] + sum(1 for c in out["cases"] if c.startswith("('script'"))
        chk.add_tlc(f"trace_{m}", tv.res, traces=histories)
        chk.cov["states"] += g["distinct"]
        chk.cov["transitions"] += g["generated"]
        chk.part(f"model_{m}", config=out["config"], sizes=out["sizes"], roles=out["roles"], maps_bound=sorted(out["maps"]), stats=st,
                 tlc_graph={k: g[k] for k in ("distinct", "generated", "wall_s", "cmd")}, tlc_simulate=out["tlc"].get("simulate"),
                 timing=out["timing"], trace_stats=tv.stats, trace_records=tv.n, trace_rejects=len(tv.rejects),
                 numeric=[{k: v for k, v in n.items() if k != "pairs"} for n in out["numeric"]],
                 assumption_tags=out["tags"])
        ops = st["renames"] + st["pickles"] + st["gets"] + st["sets"] + st["keyerrors"] + len(out["numeric"])
        total_ops += ops
        chk.count(ops)
        for c in out["cases"]:
            chk.nontrivial(c)
        for s in out["samples"]:
            chk.sample(s)
        recs = out["records"]

        for k, v in tv.stats.items():
            trace_totals[k] = trace_totals.get(k, 0) + v

        rejected = {}
        for rj in tv.rejects:
            rejected.setdefault(rj[1], []).append(rj[0])
        reported: dict = {}
        for rj in tv.rejects:
            clause, rid = rj[0], rj[1]
            info = rj[2] if len(rj) > 2 else ()
            rec = recs[rid - 1]
            # one verdict per record and concern: the clauses of one record are consequences of
            # one another (an attribute that is not the image also breaks AssumptionsKept, ...);
            # the first clause in specification order names the finding, the rest is in the replay
            concern = "receiver" if clause == "OriginalUnchanged" else "original" if clause == "OriginalParametersIndependent" else "drift" if clause in ("WarnsExactly", "KinInjective") else "result"
            if concern != "drift":
                if (rid, concern) in reported:
                    continue
                reported[(rid, concern)] = clause
            hist = history_of(out, rec)
            case = {"model": m, "config": out["config"], "history": hist, "clause": clause, "info": repr(info), "all_clauses": rejected[rid]}
            if rec["op"] == "Rename":
                mid = rec["mid"]
                if clause == "WarnsExactly":
                    chk.spec_drift(f"rename_symbols warns about other names than the specification predicts (map '{mid}' on model {m}: {describe_pairs(out, rec)})")
                    continue
                if clause == "KinInjective":
                    continue
                if clause == "RenameIsImage":
                    attrs = sorted(info[1]) if len(info) > 1 else []
                    if len(info) > 2 and info[2] == "CollectExprKinOnly":
                        sig = "rename_symbols:parameter-only-in-parameter_defaults:not-renamed"
                    else:
                        sig = f"rename_symbols:{mid}:{'+'.join(attrs) or 'model'}-not-image-of-original"
                else:
                    sig = f"rename_symbols:{mid}:{clause}"
                chk.violation(sig, f"model {m}: after {json.dumps(hist)} the result of rename_symbols({describe_pairs(out, rec)}) contradicts "
                                   f"clause {clause} of ModelOps (info {info!r})", case)
            elif rec["op"] in ("ParamGet", "ParamSet"):
                chk.violation(f"ParameterValues:{rec['op']}:{rec['kind']}:{clause}",
                              f"model {m}: history {json.dumps(hist)}: ParameterValues {rec['op']} by {rec['kind']} contradicts clause {clause} (info {info!r})", case)
            elif rec["op"] == "Pickle":
                chk.violation(f"pickle-round-trip:{clause}", f"model {m}: history {json.dumps(hist)}: pickle round trip changed {info!r}", case)
            else:
                chk.violation(f"formulate:{clause}:{m}", f"model {m} as formulated is not closed / consistent (C01): {info!r}", case)
        drifted = set()
        for p in tv.res.prints:
            if isinstance(p, tuple) and p and p[0] == "DRIFT":
                drifted.add(p[2])
                chk.spec_drift(f"{p[1]}: rename_symbols with map '{p[3]}' on model {m} does not follow the observed behaviour recorded in ModelOps "
                               f"({DRIFTS.get(p[1], '')})")

        # spec -> code mismatches found while replaying TLC's transitions
        for mm in out["mismatches"]:
            rec = recs[mm["rec"] - 1]
            hist = history_of(out, rec)
            case = {"model": m, "config": out["config"], "history": hist, "mismatch": mm}
            kind = mm["kind"]
            if kind in ("definition", "receiver-modified") and (mm["rec"], "receiver" if kind == "receiver-modified" else "result") in reported:
                continue  # already reported for this record through the trace specification
            if kind == "definition":
                chk.violation(f"rename_symbols:{mm['mid']}:{'+'.join(mm['attributes'])}-not-xreplace-of-original",
                              f"model {m}: after {json.dumps(hist)} attributes {mm['attributes']} differ from xreplace of the receiver by the same symbol map", case)
            elif kind == "definition-shape":
                chk.spec_drift(f"rename_symbols('{mm['mid']}') on model {m}: attributes {mm['attributes']} are not structurally the xreplace of the "
                               f"original but evaluate identically with identical symbols (another term shape)")
            elif kind == "receiver-modified":
                chk.violation(f"rename_symbols:{mm['mid']}:original-model-modified",
                              f"model {m}: rename_symbols({describe_pairs(out, rec)}) modified the model it was called on (history {json.dumps(hist)})", case)
            elif kind == "diamond":
                chk.violation(f"rename_symbols:{mm['mid']}:paths-to-one-state-disagree",
                              f"model {m}: histories {mm['path']} and {mm['other_path']} reach the same specification state but unequal models", case)
            elif kind in ("rename-back", "unknown-name-changed-model"):
                chk.violation(f"rename_symbols:{kind}", f"model {m}: history {mm['path']} does not give back the original model", case)
            elif kind in ("spec-state", "param-result", "param-view", "param-keys", "original-parameters"):
                if mm["rec"] not in rejected and mm["rec"] not in drifted:
                    raise Machinery(f"binding inconsistent for {m}: replay found {mm} but Trace_ModelOps accepted record {mm['rec']}")
            elif kind == "warnings":
                chk.spec_drift(f"rename_symbols warnings differ from the specification for map '{mm['mid']}' on model {m}: spec {[real_name(out, x) for x in mm['spec']]} impl {mm['impl']}")
            elif kind == "aliasing":
                chk.spec_drift(f"rename_symbols('{mm['mid']}') on model {m}: result is{'' if mm['impl'] else ' not'} the original object, specification says the opposite")
            else:
                raise Machinery(f"unknown mismatch kind {kind}")

        # O: numeric observation
        for n in out["numeric"]:
            if "error" in n:
                numeric_errors.append((m, n["mid"], n["error"]))
                continue
            if n["finite"] == 0:
                chk.note(f"numeric: no finite point for {m}/{n['mid']}")
                continue
            if n["max_rel"] > REL_TOL or not n["nan_pattern_equal"]:
                chk.violation(f"rename_symbols:{n['mid']}:intensity-changed-numerically",
                              f"model {m}: renamed model (map {n['pairs']}) evaluated with the carried-over parameter values differs from the original "
                              f"intensity by {n['max_rel']:.3e} relative on {n['finite']} seeded points",
                              {"model": m, "config": out["config"], "history": [["rename_symbols", dict(n["pairs"])]], "numeric": n})

    # vacuity of the trace runs: every antecedent must have been exercised by some record
    if not chk.violations and not replay:
        missing = [k for k in ("rename", "changed", "couples", "couples_unequal_defaults", "closure_antecedent", "inadmissible", "warned",
                               "get", "set", "set_on_other_object", "get_keyerror", "set_keyerror", "pickle") if trace_totals.get(k, 0) == 0]
        if missing:
            raise Machinery(f"vacuous trace validation: no record exercised {missing}")
    chk.part("trace_totals", **trace_totals)

    if numeric_errors:
        if chk.violations:
            for e in numeric_errors:
                chk.note(f"numeric evaluation failed for {e[0]}/{e[1]}: {e[2]}")
        else:
            raise Machinery(f"numeric evaluation failed although every structural check passed: {numeric_errors[:3]}")

    # ---- 4. demonstrating the binding (thorough): corrupt one projected field -> must be rejected ---
    if thorough and not replay:
        out = outs[0]
        base = out["records"]
        idx = next(i for i, r in enumerate(base) if r["op"] == "Rename" and r["post"] != base[r["pre_ref"] - 1]["post"] and r["post"]["comps"])
        corruptions = {}

        def corrupt(name, fn):
            recs = copy.deepcopy(base[: idx + 1])
            fn(recs[idx])
            tv = trace.validate("Trace_ModelOps", recs, cfg=TRACE_CFG, timeout=600)
            hit = [r for r in tv.rejects if r[1] == recs[idx]["id"]]
            if not hit:
                raise Machinery(f"binding demonstration failed: corruption '{name}' of record {recs[idx]['id']} was accepted by Trace_ModelOps")
            corruptions[name] = sorted({r[0] for r in hit})

        def drop_component_symbol(r):
            k = next(k for k, v in r["post"]["comps"].items() if v)
            r["post"]["comps"][k] = r["post"]["comps"][k][1:]

        def change_tag(r):
            r["post"]["pkeys"][0] = dict(r["post"]["pkeys"][0], tag="re" if r["post"]["pkeys"][0]["tag"] != "re" else "none")

        def change_value(r):
            r["post"]["pvals"][-1] = r["post"]["pvals"][-1] + 50

        def receiver_touched(r):
            r["recv_same"] = 0

        for nm, fn in (("component-symbol-dropped", drop_component_symbol), ("assumption-tag-changed", change_tag),
                       ("parameter-value-changed", change_value), ("receiver-modified", receiver_touched)):
            corrupt(nm, fn)
        chk.part("binding_demonstration", corrupted_record=base[idx]["id"], model=out["model"], rejected_by=corruptions)

    chk.cov["rule"] = (
        "cases = (a) every edge of TLC's full rename graph of ModelOps_Real per real model (map alphabet bound by role: injective, back, "
        "identity, merge, chain a->b with b present, chain a->b,b->w, swap, kinematic variable, parameter used in a kinematic definition, "
        "parameter only in parameter_defaults, all parameters, empty, unknown name, + inadmissible maps) to depth "
        f"{3 if thorough else 2}; (b) tlc -simulate histories mixing Rename/PickleRoundTrip/ParamGet/ParamSet(symbol|name|index); (c) scripted "
        "repeated renames (rename back, swap twice, unknown name); each executed on the real object and judged by Trace_ModelOps. "
        "distinct = distinct (model, graph node, map) edges + distinct simulated action shapes + scripts; trivial cases (identity of "
        "the state) are included in evaluations but an edge/shape is counted once."
    )
    chk.cov["exhaustive"] = False
    chk.note("observed behaviour specified, not judged: coupling with unequal defaults = position of first, value of last (silent); "
             "empty map returns the receiver itself; parameters with different assumptions mapped to one name stay distinct symbols")
