--------------------------- MODULE PhaseSpace3_MC ---------------------------
(* Exhaustive TLC run of the reference PhaseSpace3 on its own lattices: the design-level laws of
   C20 and C19 hold for the specification itself, independently of any implementation.

   One state per lattice point (Next stutters); the state is <<family, tuple of integers>>:
     "box"  <<m0,m1,m2,m3,s1,s2>>  every integer point of the bounding box of every integer mass
                                    configuration m0 > m1+m2+m3 >= 0, m0 <= MaxM0;
     "kal"  <<x,y,z>>               Kallen symmetry, and factorisation with y = b^2... see LawKallen;
     "vec"  <<p1,p2,p3>>            triples of integer four-vectors (E <= VecE, |component| <= VecP);
     "idx"  <<i,j,k>>               the 64 index triples of the zeta case table.                  *)
EXTENDS PhaseSpace3, TLC

CONSTANTS MaxM0, KalR, KalB, VecE, VecP
VARIABLE pt

Configs == { c \in (0..MaxM0) \X (0..MaxM0) \X (0..MaxM0) \X (0..MaxM0) : c[1] > c[2] + c[3] + c[4] }
BoxPts == UNION { { <<"box", <<c[1], c[2], c[3], c[4], s1, s2>>>> :
                      s1 \in Sq(c[3] + c[4]) .. Sq(c[1] - c[2]), s2 \in Sq(c[2] + c[4]) .. Sq(c[1] - c[3]) }
                  : c \in Configs }
KalPts == { <<"kal", <<x, y, z>>>> : x \in -KalR..KalR, y \in -KalR..KalR, z \in -KalR..KalR }
          \cup { <<"kaf", <<x, b, c>>>> : x \in -KalR..(4 * KalB * KalB + 1), b \in 0..KalB, c \in 0..KalB }
Vecs == { v \in (1..VecE) \X (-VecP..VecP) \X (-VecP..VecP) \X (-VecP..VecP) : Dot(v, v) >= 0 }
VecPts == { <<"vec", <<p1, p2, p3>>>> : p1 \in Vecs, p2 \in Vecs, p3 \in Vecs }
IdxPts == { <<"idx", <<i, j, k>>>> : i \in Ids, j \in Ids, k \in Ids }

Init == pt \in BoxPts \cup KalPts \cup VecPts \cup IdxPts
Next == UNCHANGED pt
Spec == Init /\ [][Next]_pt

Fam == pt[1]
A == pt[2]

\* ---- C20 -------------------------------------------------------------------------------
\* Kibble <= 0 exactly inside the PDG limits (s1 > 0); on the edge s1 = 0 (m2 = m3 = 0) the PDG
\* formula is 0/0 and the Kibble function vanishes identically
LawKibbleIffPDG ==
  Fam = "box" =>
    LET M == SqAll(<<A[1], A[2], A[3], A[4]>>)  s1 == A[5]  s2 == A[6] IN
    IF s1 > 0 THEN (KibbleOf(s1, s2, M) <= 0) <=> InsidePDG(s1, s2, M)
    ELSE KibbleOf(s1, s2, M) = 0
\* the polynomial identity behind it:  s1 * Kibble = m0^2 * Disc  (decided without the products)
LawKibbleDiscIdentity ==
  Fam = "box" =>
    LET M == SqAll(<<A[1], A[2], A[3], A[4]>>) IN
    ProdEq(A[5], KibbleOf(A[5], A[6], M), M[1], PdgDisc(A[5], A[6], M))
\* inside the bounding box the PDG limits are real
LawPDGDefinedInBox ==
  Fam = "box" => LET M == SqAll(<<A[1], A[2], A[3], A[4]>>) IN A[5] > 0 => PdgDefined(A[5], M)
LawKallen ==
  /\ Fam = "kal" => LET x == A[1] y == A[2] z == A[3] k == Kallen(x, y, z) IN
       k = Kallen(y, x, z) /\ k = Kallen(x, z, y) /\ k = Kallen(z, y, x) /\ k = Kallen(y, z, x) /\ k = Kallen(z, x, y)
  /\ Fam = "kaf" => Kallen(A[1], A[2] * A[2], A[3] * A[3]) = KallenFactored(A[1], A[2], A[3])

\* ---- physical events: invariants from vectors ----------------------------------------------
LawEvents ==
  Fam = "vec" =>
    LET P == A  M == MassesOf(P)  S == PairsOf(P) IN
    /\ ThirdMandelstam(S[1], S[2], M) = S[3]
    /\ Kibble(S[1], S[2], S[3], M) <= 0
    /\ (M[1] <= 49 /\ S[1] > 0) => InsidePDG(S[1], S[2], M)
    \* the invariant forms are the Gram determinants
    /\ \A i \in 1..3, j \in 1..3 : i # j =>
         /\ HatNum(i, j, M, S) = 4 * HatGram(i, j, P)[1]
         /\ LET ks == HatKs(i, j, M, S)  g == HatGram(i, j, P) IN ks[1] = 4 * g[2] /\ ks[2] = 4 * g[3]
         /\ ThetaNum(i, j, M, S) = 4 * ThetaGram(i, j, P)[1]
         /\ LET ks == ThetaKs(i, j, M, S)  g == ThetaGram(i, j, P) IN ks[1] = 4 * g[2] /\ ks[2] = 4 * g[3]
    /\ \A i \in 1..3, a \in 1..3, b \in 1..3 : a # b =>
         /\ ZetaRefNum(i, a, b, M, S) = 4 * ZetaGram(i, a, b, P)[1]
         /\ Kf(i, a, M, S) = 4 * ZetaGram(i, a, b, P)[2]
         /\ Kf(i, b, M, S) = 4 * ZetaGram(i, a, b, P)[3]

\* ---- C19 on the reference: the laws hold for the geometric definitions ----------------------
Physical(M, S) == Kibble(S[1], S[2], S[3], M) <= 0
RefLaws(M, S) ==
  /\ \A i \in 1..3, j \in 1..3 : i # j =>
       /\ LET ks == HatKs(i, j, M, S)  n == HatNum(i, j, M, S) IN
          ks[1] > 0 /\ ks[2] > 0 => n * n <= ks[1] * ks[2] /\ n = HatNum(j, i, M, S)
       /\ LET ks == ThetaKs(i, j, M, S)  n == ThetaNum(i, j, M, S) IN
          ks[1] > 0 /\ ks[2] > 0 => n * n <= ks[1] * ks[2] /\ n = -ThetaNum(j, i, M, S)   \* theta_ij + theta_ji = pi
  /\ \A i \in 1..3 :
       LET j == Nxt(i)  k == Prv(i)
           k0 == Kf(i, i, M, S)  ka == Kf(i, j, M, S)  kb == Kf(i, k, M, S)
           nA == ZetaRefNum(i, j, k, M, S)  nB == ZetaRefNum(i, j, i, M, S)  nC == ZetaRefNum(i, i, k, M, S) IN
       (k0 > 0 /\ ka > 0 /\ kb > 0) =>
          /\ nA * nA <= ka * kb /\ nB * nB <= k0 * ka /\ nC * nC <= k0 * kb
          /\ AdditionTheorem(nA, nB, nC, k0, ka, kb)        \* zeta^i_{j(k)} = zeta^i_{j(i)} + zeta^i_{i(k)}
LawRefAnglesBox ==
  Fam = "box" =>
    LET M == SqAll(<<A[1], A[2], A[3], A[4]>>)  S == <<A[5], A[6], ThirdMandelstam(A[5], A[6], M)>> IN
    Physical(M, S) => RefLaws(M, S)
LawRefAnglesVec ==
  Fam = "vec" => LET M == MassesOf(A)  S == PairsOf(A) IN M[1] > 0 => RefLaws(M, S)

\* ---- C19: the case tables are consistent with the identities they are meant to encode --------
LawCaseTable ==
  Fam = "idx" =>
    LET i == A[1]  j == A[2]  k == A[3] IN
    /\ ZRaises(i, j, k) <=> ~(j \in 1..3 /\ (i = 0 => k \in 1..3))
    /\ ~ZRaises(i, j, k) =>
         /\ (i # 0 /\ k = 0) => ZZero(i, j, k) = ZZero(i, j, i)                       \* zeta^i_{j(0)} = zeta^i_{j(i)}
         /\ (i # 0 /\ k = 0 /\ ~ZZero(i, j, k)) => ZSign(i, j, k) = ZSign(i, j, i)
         /\ j = k => ZZero(i, j, k)                                                  \* zeta^i_{k(k)} = 0
         /\ (k # 0 /\ ~ZRaises(i, k, j)) =>                                           \* antisymmetry
              /\ ZZero(i, j, k) = ZZero(i, k, j)
              /\ ~ZZero(i, j, k) => ZSign(i, j, k) = -ZSign(i, k, j)
         /\ i = 0 => /\ ZZero(i, j, k) = HatZero(j, k)
                     /\ ~ZZero(i, j, k) => ZSign(i, j, k) = HatSign(j, k)
    \* the sum rule relates three entries of equal sign
    /\ (i \in 1..3 /\ j \in 1..3 /\ k \in 1..3 /\ i # j /\ j # k /\ i # k) =>
         ZSign(i, j, k) = ZSign(i, j, i) /\ ZSign(i, j, k) = ZSign(i, i, k)

\* ---- statistics for vacuity (evaluated once at the end) --------------------------------------
TypeOK == Fam \in {"box", "kal", "kaf", "vec", "idx"}
=============================================================================
