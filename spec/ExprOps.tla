--------------------------- MODULE ExprOps ---------------------------
(***************************************************************************)
(* The operations of ampform's expression classes as a state machine over  *)
(* ExprAlgebra terms (C14, C15, C18).                                      *)
(*                                                                         *)
(*   cur  the current term                                                 *)
(*   fs   its free symbols          (derived: what .free_symbols must be)  *)
(*   den  its unfolding             (derived: what .doit() must be)        *)
(*   n    number of operations so far (bounds the exploration)             *)
(*                                                                         *)
(* Every action is one public operation on a real object:                  *)
(*   Xreplace(m)  expr.xreplace(m)        Subs(o, r)  expr.subs(o, r)      *)
(*   SubsMap(m)   expr.subs(dict m)                                        *)
(*   DoitA        expr.doit()             RebuildA    rebuild from own args*)
(*   PickleA      pickle round trip       CleanupA    PoolSum.cleanup()    *)
(*   Nest(c)      the term becomes an argument / the summand of a new term *)
(*   VaryArg / VaryAttr / VaryPool   a neighbour that differs in exactly   *)
(*                one argument, one non-SymPy attribute or one pool        *)
(*                (equality / hash law)                                    *)
(*                                                                         *)
(*   law  verdict of the laws of ExprAlgebra on the transition just taken   *)
(*                                                                         *)
(* The commuting diamonds (state after Xreplace;Doit = state after         *)
(* Doit;Xreplace, i.e. den' = Subst(den, m)), bound-index identity,        *)
(* homomorphism, value preservation of cleanup and the stuttering of       *)
(* PickleA / RebuildA are evaluated on every transition (InvLaws) and, in  *)
(* the small configurations, for every map in every state (Inv...All).     *)
(* The harness replays behaviours and the state graph of this module on    *)
(* real objects (vf/expr_pool.py for pool sums, vf/expr_cls.py for the     *)
(* expression classes).                                                    *)
(***************************************************************************)
EXTENDS ExprAlgebra

CONSTANTS InitTerms,    \* set of initial terms
          Maps,         \* substitution maps for Xreplace (sequences of <<key, replacement>>)
          Pairs,        \* <<old, new>> pairs for Subs
          SubsMaps,     \* maps for subs(dict)
          Ctxs,         \* nesting contexts: terms with the hole Leaf("_")
          VaryArgs,     \* replacement terms for "one argument differs"
          VaryAttrs,    \* labels for "one non-SymPy attribute differs"
          VaryPools,    \* value tuples for "one pool differs"
          MaxOps, MaxDepth, NestAnytime

VARIABLES cur, fs, den, n, law
vars == <<cur, fs, den, n, law>>

Hole == Leaf("_")
RECURSIVE Plug(_, _)     \* fill the hole, *with* capture: the hole may sit under a binder
Plug(c, t) ==
  IF c = Hole THEN t
  ELSE CASE c.k \in {"leaf", "val"} -> c
         [] c.k \in {"node", "unf", "pool"} -> [c EXCEPT !.a = [j \in DOMAIN c.a |-> Plug(c.a[j], t)]]
         [] c.k = "sum" -> c

\* `law` records whether the laws that speak about the transition just taken held on it
\* ("ok", or the name of the first law that failed); InvLaws requires "ok" in every state.
Verdict(checks) ==     \* checks: sequence of <<name, boolean>>
  LET bad == SelectSeq(checks, LAMBDA c : ~ c[2]) IN IF bad = <<>> THEN "ok" ELSE bad[1][1]
Become(t, ops, checks) ==
  /\ cur' = t /\ fs' = FreeSyms(t) /\ den' = Doit(t) /\ n' = n + ops /\ law' = Verdict(checks)
Budget == n < MaxOps

Init == /\ cur \in InitTerms /\ fs = FreeSyms(cur) /\ den = Doit(cur) /\ n = 0 /\ law = "ok"

\* substitution: (i) the commuting diamond  Doit(Subst(t, m)) = Subst(Doit(t), m)  (exact for
\* unfolded replacement terms, up to a further Doit for folded ones; symbol keys);
\* (ii) a map whose keys only occur bound changes nothing; (iii) on a node it is a homomorphism
SubstChecks(m, r) ==
  << <<"SubstEval", LeafKeyed(m) => Doit(r) = Doit(Subst(den, m))>>,
     <<"SubstEvalFreePart", (LeafKeyed(m) /\ RestrictFree(m, cur) # m) => Doit(r) = Doit(Subst(den, RestrictFree(m, cur)))>>,
     <<"BoundKeysIrrelevant", (LeafKeyed(m) /\ RestrictFree(m, cur) # m) => r = Subst(cur, RestrictFree(m, cur))>>,
     <<"SubstEvalExact", (LeafKeyed(m) /\ UnfoldedRepl(m)) => Doit(r) = Subst(den, m)>>,
     <<"BoundIdentity", LawBoundIdentity(cur, m)>>,
     <<"Homomorphism", LawHomomorphism(cur, m)>>,
     <<"FreeAfterSubst", SameFree(r, FreeSyms(Doit(r)), FreeSyms(r))>> >>
Xreplace(m) == /\ Budget /\ Admissible(cur, m)
               /\ Become(Subst(cur, m), 1, SubstChecks(m, Subst(cur, m)))
\* expr.subs(dict): SymPy applies the pairs one after the other; for maps whose replacement terms
\* mention no key this is the simultaneous substitution (SubsMaps only contains such maps)
SequentialSafe(m) == \A x \in DOMAIN m : \A key \in MapKeys(m) : key.k = "leaf" => key.h \notin FreeSyms(m[x][2])
SubsMap(m)  == /\ Budget /\ Admissible(cur, m) /\ SequentialSafe(m)
               /\ Become(Subst(cur, m), 1, SubstChecks(m, Subst(cur, m)))
OneMap(o, r) == << <<o, r>> >>
Subs(o, r)  == /\ Budget /\ Admissible(cur, OneMap(o, r))
               /\ Become(Subst(cur, OneMap(o, r)), 1, SubstChecks(OneMap(o, r), Subst(cur, OneMap(o, r))))
DoitA       == /\ Budget
               /\ Become(den, 1, << <<"FreeUnderDoit", SameFree(cur, FreeSyms(den), fs)>>,
                                   <<"DoitIdempotent", Doit(den) = den>>,
                                   <<"DoitUnfoldsAll", ~ Folded(den)>> >>)
RebuildA    == /\ Budget /\ cur.k \in {"node", "pool"} /\ cur.at = <<>>
               /\ Become(Rebuild(cur), 1, << <<"RebuildIdentity", Rebuild(cur) = cur>> >>)
PickleA     == /\ Budget
               /\ Become(PickleRT(cur), 1, << <<"PickleIdentity", PickleRT(cur) = cur>> >>)
CleanupA    == /\ Budget /\ cur.k = "pool"
               /\ Become(Cleanup(cur), 1, << <<"CleanupKeepsValue", Doit(Cleanup(cur)) = den>>,
                                            <<"CleanupKeepsFree", SameFree(cur, FreeSyms(Cleanup(cur)), fs)>> >>)
\* building a larger term costs no operation budget; in the exhaustive configurations it
\* happens before the first operation only
Nest(c)     == /\ (NestAnytime \/ n = 0) /\ cur.k # "sum"
               /\ Depth(Plug(c, cur)) <= MaxDepth /\ WellFormed(Plug(c, cur))
               /\ Become(Plug(c, cur), 0, <<>>)
\* neighbours: exactly one argument (of the node, or of the summand of a pool sum), one
\* non-SymPy attribute, or one pool differs; such terms are never equal
Differs(u) == << <<"NeighbourDiffers", ~ EqT(u, cur) /\ u # cur>> >>
VaryArg(pos, r) ==
  /\ Budget
  /\ \/ /\ cur.k = "node" /\ pos \in DOMAIN cur.a /\ cur.a[pos] # r
        /\ Become([cur EXCEPT !.a[pos] = r], 1, Differs([cur EXCEPT !.a[pos] = r]))
     \/ /\ cur.k = "pool" /\ Body(cur).k = "node" /\ pos \in DOMAIN Body(cur).a /\ Body(cur).a[pos] # r
        /\ Become([cur EXCEPT !.a[1].a[pos] = r], 1, Differs([cur EXCEPT !.a[1].a[pos] = r]))
VaryAttr(pos, lbl) ==
  /\ Budget /\ cur.k = "node" /\ pos \in DOMAIN cur.at /\ cur.at[pos] # lbl
  /\ Become([cur EXCEPT !.at[pos] = lbl], 1, Differs([cur EXCEPT !.at[pos] = lbl]))
VaryPool(pos, p) ==
  /\ Budget /\ cur.k = "pool" /\ pos \in DOMAIN cur.ix /\ cur.ix[pos][2] # p
  /\ Become([cur EXCEPT !.ix[pos] = <<cur.ix[pos][1], p>>], 1, Differs([cur EXCEPT !.ix[pos] = <<cur.ix[pos][1], p>>]))

Next == \/ \E m \in Maps : Xreplace(m)
        \/ \E m \in SubsMaps : SubsMap(m)
        \/ \E p \in Pairs : Subs(p[1], p[2])
        \/ DoitA \/ RebuildA \/ PickleA \/ CleanupA
        \/ \E c \in Ctxs : Nest(c)
        \/ \E pos \in 1..2, r \in VaryArgs : VaryArg(pos, r)
        \/ \E pos \in 1..2, lbl \in VaryAttrs : VaryAttr(pos, lbl)
        \/ \E pos \in 1..2, p \in VaryPools : VaryPool(pos, p)

Spec == Init /\ [][Next]_vars

\* ---- invariants -----------------------------------------------------------------------
InvLaws        == law = "ok"
InvDerived     == fs = FreeSyms(cur) /\ den = Doit(cur)
InvWellFormed  == WellFormed(cur)
InvFree        == LawFree(cur)                 \* free symbols = those surviving evaluation
\* the full quantification (every map of the configuration in every state), used in the
\* small configurations; the transition-wise verdicts above cover the same laws on every
\* transition taken
AllMaps == Maps \cup SubsMaps \cup { <<p>> : p \in Pairs }
InvSubstEvalAll  == \A m \in AllMaps : LawSubstEval(cur, m)
InvBoundIdentAll == \A m \in AllMaps : LawBoundIdentity(cur, m)
InvHomomorphismAll == \A m \in AllMaps : \A t \in SubTerms(cur) : LawHomomorphism(t, m)
InvCleanup     == LawCleanup(cur)
InvDoitIdem    == LawDoitIdem(cur)

\* ---- action properties ---------------------------------------------------------------
\* pickle round trip and rebuilding from the own arguments stutter on the abstract term
StutterProp == [][(n' = n + 1 /\ (cur' = PickleRT(cur) \/ cur' = Rebuild(cur))) => cur' = cur]_vars
\* cleanup never changes the value; evaluation never changes the free symbols
ValueProp   == [][(cur.k = "pool" /\ cur' = Cleanup(cur)) => den' = den]_vars
FreeProp    == [][cur' = den => SameFree(cur, fs', fs)]_vars
=============================================================================
