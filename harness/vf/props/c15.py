"""C15 — pickle round trip is the identity.

spec/ExprOps.tla: PickleA stutters on the abstract term (PickleRT is the identity of ExprAlgebra);
TLC checks it on every term of the class-slot universe.  The harness pickles real instances of
every discovered expression class (every other class nested in every position, non-SymPy
attributes varied) in the states TLC's behaviours reach, loads them in the same process and in
fresh interpreters with other hash seeds, and requires ==, equal hash, equal srepr and equal
non-SymPy attributes with the object built directly from the specification state (both ways:
parent -> child and child -> parent).  Whole HelicityModels: all six attributes including
dictionary order and ParameterValues."""
from __future__ import annotations

import base64
import pickle
import random
import subprocess
import sys
import time
import warnings
from concurrent.futures import ThreadPoolExecutor

from .. import expr_classes as C
from .. import expr_cls as X
from .. import expr_models as M
from .. import expr_terms as T
from .. import tlc, trace
from ..core import Machinery, child_env
from ..expr_pool import TRACE_CFG, action_totals, run_tlc
from .c14 import discover
from .c18 import json_term

LEVEL = "model_checking"
META = {
    "technique": "TLA+ ExprAlgebra/ExprOps (PickleA = identity on the abstract term, checked by TLC on the class-slot universe); "
    "behaviours executed on real instances of every discovered class with pickle round trips in every folded state, in-process and in "
    "fresh interpreters with other PYTHONHASHSEEDs (both directions); pickle records judged by Trace_Expr; 4 formulated HelicityModels "
    "round-tripped in-process and cross-process with order-sensitive comparison of all six attributes",
    "text": "The specification says pickling is the identity on (class, args, non-SymPy attributes) for every term; the harness supplies "
    "the terms TLC reaches (nested unevaluated arguments, varied attributes, after substitutions) as real objects of every class found "
    "in the package and checks the loaded object against the one built directly from the specification state - in the same process and "
    "under other hash seeds, where hash-dependent state would show. Models: dictionary order and ParameterValues are compared item by item.",
    "note": "Bounds: slot universe as C14 (12 slots, 2 leaf symbols exhaustive, depth <= 2; simulation depth 6); every class as outer and as nested "
    "class (thorough: every (class, position, nested class) triple); hash seeds {0, 12345} (+ 7 in thorough); models: J/psi -> gamma pi0 pi0 via "
    "f0(980) in helicity and canonical formalism, with relativistic Breit-Wigner + form factor (non-SymPy attributes), with stable final "
    "states, and a DPD-aligned J/psi -> K0 Sigma+ p~ model. The deprecated UnevaluatedExpression API is included through a harness fixture. "
    "Unfolded expressions may be re-canonicalised by SymPy on reconstruction; they are compared by value (observation). Trusted: TLC, "
    "pickle, SymPy's own __reduce__, qrules objects' equality.",
    "design_ref": "DESIGN.md §4 C15",
}
SEEDS_QUICK = (12345, 0)
SEEDS_THOROUGH = (12345, 0, 7)


def run(chk, replay=None):
    tier = chk.tier
    rng = random.Random(chk.seed)
    if replay and replay.get("case"):
        print("stored case (the full check is re-run with the same seed):", replay["case"])
    chk.assume(
        "TLC/SANY; pickle; SymPy's __reduce_ex__/__getnewargs__ protocol for its own classes; equality of qrules' ReactionInfo",
        "objects are compared with the object built directly from the specification state through the public constructors",
    )
    embs = discover(chk, with_fixtures=True)
    sigs = sorted({e.sig for e in embs})
    # 1. the law in the model --------------------------------------------------------------------------
    with ThreadPoolExecutor(max_workers=3) as ex:
        f_main = ex.submit(run_tlc, "ExprOps_MC", X.class_cfg(sigs, leafs=("x", "y", "z") if tier == "thorough" else ("x", "y")),
                           workers=3, fast_start=False, timeout=1700)
        f_cov = ex.submit(run_tlc, "ExprOps_MC", X.class_cfg(sigs, init="ClassInitD1", leafs=("x", "y"), full_quantification=True), workers=1, coverage=True, timeout=600)
        f_models = ex.submit(build_models, tier)
        res, cov = f_main.result(), f_cov.result()
    chk.add_tlc("laws_exhaustive", res)
    if not res.ok:
        raise Machinery(f"the specification violates its own laws ({res.violated})\n" + "\n".join(res.error_trace[:60]))
    totals = action_totals(cov)
    if totals.get("PickleA", 0) == 0 or not cov.ok:
        raise Machinery(f"vacuous model check: PickleA never taken ({totals})")
    chk.part("laws_exhaustive", transitions_per_action_in_coverage_run=totals)
    chk.cov["exhaustive"] = True

    # 2. specification -> code: pickle in every folded state TLC reaches ---------------------------------------
    t0 = time.time()
    behs = X.simulate_buckets(sigs, per_outer=150 if tier == "thorough" else 45, depth=6, seed=chk.seed + 5)
    rep = X.ClassReplayer(chk, mode="c15")
    info = X.run_replays(rep, embs, behs, rng, budget_s=420 if tier == "thorough" else 14, exhaustive_triples=(tier == "thorough"),
                         limit_s=10 if tier == "thorough" else 4)
    jobs = rep.pickle_jobs
    rng.shuffle(jobs)
    jobs = jobs[: (4000 if tier == "thorough" else 900)]
    seeds = SEEDS_THOROUGH if tier == "thorough" else SEEDS_QUICK
    with ThreadPoolExecutor(max_workers=len(seeds)) as ex:
        fresh = list(ex.map(lambda hs: X.fresh_process_check(jobs, hs), seeds))
    n_fresh = 0
    precs = []
    by_q = {e.qualname: e for e in embs}
    for hs, results in zip(seeds, fresh):
        for job, r in zip(jobs, results):
            case = {"hashseed": hs, "object": job["shown"], "history": job["hist"], "assignment": job["asg"]}
            if not r.get("ok"):
                chk.violation("unevaluated.pickle(fresh-process):load-raises", f"{job['shown']} cannot be loaded/compared in a fresh interpreter: {r.get('err')}", case)
                continue
            n_fresh += 1
            bad = [k for k in ("type", "eq", "hash", "srepr", "attrs") if not r[k]]
            if bad:
                chk.violation(f"unevaluated.pickle(fresh-process):{pattern_from_flags(bad, r, job)}",
                              f"{job['shown']} pickled here and loaded under PYTHONHASHSEED={hs} is {r['shown']}; differs in {bad}", case)
            # the way back: the child's own object, pickled there, loaded here
            try:
                back = pickle.loads(base64.b64decode(r["back"]))
                asg = X.Assignment.from_json(job["asg"], by_q)
                with warnings.catch_warnings():
                    warnings.simplefilter("ignore")
                    mine = asg.concretise(json_term(job["term"]))
                if not (X.same_object(back, mine) and X.attrs_equal(back, mine)):
                    chk.violation(f"unevaluated.pickle(fresh-process):{X.mismatch_pattern(back, mine)}",
                                  f"{job['shown']} built and pickled under PYTHONHASHSEED={hs} loads here as {X.describe(back)}", case)
            except Exception as e:  # noqa: BLE001
                chk.violation("unevaluated.pickle(fresh-process):load-raises", f"pickle written under PYTHONHASHSEED={hs} of {job['shown']}: {e!r}", case)
            precs.append({"op": "pickle", "t": r["proj_fresh"], "r": r["proj"], "shown": job["shown"], "hs": hs})
    chk.cov["traces_validated_against_impl"] += len(rep.covered_triples) + len(embs)
    chk.part("class_pickle_replay", behaviours_generated=len(behs), steps=rep.steps, states_checked=rep.states,
             pickle_round_trips_in_process=rep.pickled, PickleA_steps=rep.by_action.get("PickleA", 0),
             objects_loaded_in_fresh_interpreters=n_fresh, hash_seeds=list(seeds), jobs=len(jobs),
             undefined=rep.undefined, time_limits_hit=getattr(rep, "timeouts", 0), wall_s=round(time.time() - t0, 1), **info)
    if n_fresh == 0:
        raise Machinery("no object was round-tripped through a fresh interpreter")
    if behs:
        b = next((b for b in behs if any(s["action"] == "PickleA" for s in b)), behs[0])
        chk.sample({"behaviour": [[s["action"], X.ClassReplayer.show_args(s["action"], s["args"]), T.show(T.from_tla(s["state"]["cur"]))] for s in b]})
    if jobs:
        chk.sample({"pickled_object": jobs[0]["shown"], "specification_term": T.show(json_term(jobs[0]["term"])), "assignment": jobs[0]["asg"]})

    # 3. code -> specification: pickle records of every class judged by Trace_Expr --------------------------------
    recs, ctx, _ = X.class_trace_records(embs, rng, nest_samples=len(X.all_triples(embs)) if tier == "thorough" else 500)
    recs = [r for r in recs if r["op"] in ("pickle", "error") and ctx[r["id"]]["opname"] == "pickle"]
    nid = max([r["id"] for r in recs], default=0) + 1
    child_recs = []
    for k, p in enumerate(precs[: 6000 if tier == "thorough" else 1500]):
        child_recs.append({"op": "pickle", "t": p["t"], "r": p["r"], "id": nid + k})
        ctx[nid + k] = {"cls": "?", "obj": p["shown"], "res": f"loaded under PYTHONHASHSEED={p['hs']}", "opname": "pickle(fresh-process)"}
    from ..expr_carrier import default_argument_records

    drecs, dctx, dskipped = default_argument_records(embs, start_id=nid + len(child_recs) + 1, ops=("pickle",))
    ctx.update(dctx)
    recs = recs + drecs
    chk.part("optional_arguments_omitted", records=len(drecs), classes=sorted({v["cls"] for v in dctx.values()}), skipped=dskipped)
    from ..expr_carrier import falsy_attribute_records

    frecs, fctx, fskipped = falsy_attribute_records(embs, start_id=nid + len(child_recs) + len(drecs) + 10, ops=("pickle",))
    ctx.update(fctx)
    recs = recs + frecs
    chk.part("falsy_attribute_values", records=len(frecs), classes=sorted({v["cls"] for v in fctx.values()}), skipped=fskipped)
    good = [r for r in recs if r["op"] == "pickle"] + child_recs
    tv = trace.validate("Trace_Expr", good, cfg=TRACE_CFG, timeout=2400)
    chk.add_tlc("trace_pickle_records", tv.res, traces=len(good))
    chk.count(len(good))
    chk.part("trace_pickle_records", records=len(good), from_fresh_interpreters=len(child_recs), rejects=len(tv.rejects), stats=tv.stats)
    if tv.stats.get("identity_nested", 0) == 0:
        raise Machinery(f"vacuous trace: no pickle record with a nested expression ({tv.stats})")
    byid = {r["id"]: r for r in good}
    for clause, rid, *_ in tv.rejects:
        X.classify_class_reject(chk, clause, byid[rid], ctx[rid], prop="C15")
    for r in recs:
        if r["op"] == "error":
            i = ctx[r["id"]]
            chk.violation(f"unevaluated.pickle:raises-{i['exc']}", f"{i['cls']}: {i['obj']}: {i['what']}", i)
    for r in good:
        chk.nontrivial(("pickle", str(r["t"])[:300]))

    # 4. whole models -------------------------------------------------------------------------------------------------
    models = f_models.result()
    check_models(chk, models, seeds)

    # 5. binding demonstration (thorough)
    if tier == "thorough":
        demo = [dict(r) for r in good[:50]]
        victim = next(r for r in demo if r["r"]["a"])
        bad = dict(victim["r"])
        bad["a"] = bad["a"][:-1]
        victim["r"] = bad
        tv2 = trace.validate("Trace_Expr", demo, cfg=TRACE_CFG)
        if not any(c == "PickleIdentity" and i == victim["id"] for c, i, *_ in tv2.rejects):
            raise Machinery("binding demonstration failed: a corrupted projection of a loaded object was not rejected")
        victim3 = next((r for r in demo if r["r"]["at"]), None)
        if victim3 is not None:
            b3 = dict(victim3["r"])
            b3["at"] = [b3["at"][0] + "!"] + b3["at"][1:]
            victim3["r"] = b3
            tv3 = trace.validate("Trace_Expr", demo, cfg=TRACE_CFG)
            if not any(c == "PickleIdentity" and i == victim3["id"] for c, i, *_ in tv3.rejects):
                raise Machinery("binding demonstration failed: a corrupted non-SymPy attribute of a loaded object was not rejected")
        chk.part("binding_demonstration", corrupted_args_rejected=True, corrupted_attribute_rejected=victim3 is not None)

    chk.cov["rule"] = (
        "cases = (a) every state/transition of ExprOps incl. PickleA over the class-slot universe (TLC, exhaustive), (b) pickle round trips of the real "
        "objects in every folded state of the replayed behaviours, in-process and in fresh interpreters under other hash seeds (both directions), "
        "(c) pickle records judged by Trace_Expr, (d) formulated models; distinct non-trivial = distinct (assignment of real classes, abstract term) "
        "pairs pickled + distinct projected pickle records + (model, attribute, process) combinations"
    )


def pattern_from_flags(bad, r, job):
    if r.get("pattern"):
        return r["pattern"]
    if bad == ["hash"]:
        return "hash-differs"
    if bad == ["srepr"]:
        return "srepr-differs"
    return "differs-in-" + "-".join(bad)


# ---- models ------------------------------------------------------------------------------------------------------
def build_models(tier):
    out = {}
    for spec in M.MODELS:
        out[spec[0]] = M.build(spec)
    return out


def check_models(chk, models, seeds):
    import sympy as sp

    t0 = time.time()
    blobs = {}
    summary = {}
    for name, model in models.items():
        case = {"model": name, "spec": next(s for s in M.MODELS if s[0] == name)}
        try:
            blob = pickle.dumps(model)
            back = pickle.loads(blob)
        except Exception as e:  # noqa: BLE001
            chk.violation(f"HelicityModel.pickle:raises-{type(e).__name__}", f"model {name}: {e!r}", case)
            continue
        blobs[name] = base64.b64encode(blob).decode()
        diffs = M.compare_models(model, back)
        for attr, what in diffs:
            chk.violation(f"HelicityModel.pickle:{attr}:{what.split(' of ')[0].split(':')[0]}", f"model {name}, same process: {attr}: {what}", case)
        summary[name] = {"amplitudes": len(model.amplitudes), "parameters": len(model.parameter_defaults),
                         "kinematic_variables": len(model.kinematic_variables), "components": len(model.components),
                         "pickle_bytes": len(blob), "same_process_differences": len(diffs)}
        for a in M.ATTRS:
            chk.nontrivial(("model", name, a, "same-process"))
        chk.count(1)
    own = {name: M.digest(m) for name, m in models.items()}

    def child(hs):
        import json

        p = subprocess.run([sys.executable, "-m", "vf.expr_child", "models"], input=json.dumps({"blobs": blobs}), capture_output=True,
                           text=True, env=child_env(hs), timeout=3000)
        if p.returncode != 0:
            raise Machinery(f"fresh-interpreter model check failed to run:\n{p.stderr[-3000:]}")
        return json.loads(p.stdout)["models"]

    with ThreadPoolExecutor(max_workers=len(seeds)) as ex:
        results = list(ex.map(child, seeds))
    for hs, res in zip(seeds, results):
        for name, r in res.items():
            case = {"model": name, "hashseed": hs}
            if not r.get("ok"):
                chk.violation("HelicityModel.pickle(fresh-process):load-raises", f"model {name} under PYTHONHASHSEED={hs}: {r.get('err')}", case)
                continue
            for attr in list(M.ATTRS) + ["types"]:
                if r["digest"][attr] != own[name][attr]:
                    a, b = own[name][attr], r["digest"][attr]
                    what = "order differs" if isinstance(a, list) and sorted(map(str, a)) == sorted(map(str, b)) else "content differs"
                    chk.violation(f"HelicityModel.pickle(fresh-process):{attr}:{what}",
                                  f"model {name} loaded under PYTHONHASHSEED={hs}: attribute {attr} {what}", case)
            for attr, what in r["self_roundtrip_diffs"]:
                chk.violation(f"HelicityModel.pickle:{attr}:{what.split(' of ')[0].split(':')[0]}", f"model {name} (round trip inside the fresh interpreter, seed {hs}): {what}", case)
            back = pickle.loads(base64.b64decode(r["back"]))
            for attr, what in M.compare_models(models[name], back):
                chk.violation(f"HelicityModel.pickle(fresh-process):{attr}:{what.split(' of ')[0].split(':')[0]}",
                              f"model {name} re-pickled under PYTHONHASHSEED={hs} and loaded here: {attr}: {what}", case)
            for a in M.ATTRS:
                chk.nontrivial(("model", name, a, f"seed{hs}"))
            chk.count(1)
            summary[name][f"seed_{hs}"] = "compared"
    # numeric observation: the loaded model evaluates identically (structural identity makes this immediate)
    # a model that has been USED (look-ups in its parameter mapping by symbol, name and position, substitution of the mapping into
    # an expression) is still the same model: its round trip is the identity as well
    for name, model in models.items():
        case = {"model": name, "after": "keyed look-ups and xreplace with parameter_defaults"}
        pd = model.parameter_defaults
        try:
            keys = list(pd)
            if keys:
                _ = pd[keys[0]], pd[keys[-1].name], pd[0], keys[0] in pd, pd.get(keys[0])
                pd[keys[0]] = pd[keys[0]]
            with warnings.catch_warnings():
                warnings.simplefilter("ignore")
                model.intensity.xreplace(pd)
        except Exception as e:  # noqa: BLE001
            chk.violation(f"ParameterValues:use-raises-{type(e).__name__}", f"model {name}: {e!r}", case)
            continue
        try:
            back = pickle.loads(pickle.dumps(model))
        except Exception as e:  # noqa: BLE001
            chk.violation(f"HelicityModel.pickle(after-use):raises-{type(e).__name__}", f"model {name} cannot be pickled once its parameter mapping has been used: {e!r}", case)
            continue
        for attr, what in M.compare_models(model, back):
            chk.violation(f"HelicityModel.pickle(after-use):{attr}:{what.split(' of ')[0].split(':')[0]}", f"model {name}, after use: {attr}: {what}", case)
        chk.count(1)
        chk.nontrivial(("model", name, "after-use"))
    # ... and a model that has been looked at and then edited in place (amplitudes is a plain mutable mapping): what is loaded is
    # the model as it is now, derived attributes included
    for name, model in sorted(models.items(), key=lambda kv: len(kv[1].amplitudes))[:2]:
        case = {"model": name, "after": "model.expression read, one amplitude doubled in place"}
        try:
            work = pickle.loads(pickle.dumps(model))
            with warnings.catch_warnings():
                warnings.simplefilter("ignore")
                _ = work.expression
                k0 = next(k for k, v in work.amplitudes.items() if v != 0)
                work.amplitudes[k0] = 2 * work.amplitudes[k0]
                back = pickle.loads(pickle.dumps(work))
                same = back.expression == work.expression and work.expression != model.expression
        except Exception as e:  # noqa: BLE001
            chk.violation(f"HelicityModel.pickle(after-edit):raises-{type(e).__name__}", f"model {name}: {e!r}", case)
            continue
        if not same:
            chk.violation("HelicityModel.pickle(after-edit):expression-differs-after-load",
                          f"model {name}: after reading model.expression and editing an amplitude in place, the loaded model's expression differs from the original's (or the original's did not follow the edit)", case)
        chk.count(1)
        chk.nontrivial(("model", name, "after-edit"))
    name = "canonical_bw_ff" if "canonical_bw_ff" in models else next(iter(models))
    m = models[name]
    try:
        back = pickle.loads(pickle.dumps(m))
    except Exception:  # noqa: BLE001  (reported by the clause above)
        back = m
    with warnings.catch_warnings():
        warnings.simplefilter("ignore")
        e1, e2 = m.expression, back.expression
    summary[name]["expression_structurally_identical_after_load"] = bool(e1 == e2 and sp.srepr(e1) == sp.srepr(e2))
    if e1 != e2:
        chk.violation("HelicityModel.pickle:expression-differs-after-load", f"model {name}: model.expression differs after the round trip", {"model": name})
    chk.part("models", wall_s=round(time.time() - t0, 1), **summary)
    chk.sample({"model": name, "first_amplitude": str(next(iter(m.amplitudes))), "parameters": [str(k) for k in list(m.parameter_defaults)[:6]],
                "kinematic_variables": [str(k) for k in m.kinematic_variables]})
