--------------------------- MODULE PhaseSpace3_Proofs ---------------------------
(* TLAPS lemmas behind C20 (unbounded, over Int).  Checked with
      tlapm --toolbox 0 0 PhaseSpace3_Proofs.tla
   in the thorough tier under a timeout; an obligation the SMT back end cannot discharge is
   reported as "not proved" (TLC checks the same statement pointwise on the lattice).
   Status when written (Z3 4.8.9 is the only SMT solver here; MomentumTriangle, HatSine and DiscIsGram
   need 10-100 s of Z3 and time out when the machine is heavily loaded): the polynomial lemmas KallenSymmetric,
   KallenFactorises, KallenDifferenceOfSquares, KallenAsTriangle, ThirdMandelstamIdentity,
   MomentumTriangle, HatSine, DiscIsGram, KibbleTriangleForm, CrossAlgebra and
   ScatteringAnglesSupplementary are discharged; the compositions KibbleIsGram and
   KibbleIsDiscriminant additionally need "G(..) \in Int"-style typing facts of degree-3/4
   polynomials (GInt, KibbleInt, DiscInt) on which Z3 times out, so their glue steps are reported
   as not proved.  On paper: Kibble = Kallen(a, a+c+2u, c) = 4(u^2 - ac) = -16 m0^2 G and
   Disc = -16 s1 G, hence s1 Kibble = m0^2 Disc.
   The definitions are repeated from PhaseSpace3 in scalar form (no tuples) so that the back
   ends see plain polynomial arithmetic. *)
EXTENDS Integers, TLAPS

Kallen(x, y, z) == x * x + y * y + z * z - 2 * x * y - 2 * y * z - 2 * z * x

THEOREM KallenSymmetric ==
  \A x, y, z \in Int : /\ Kallen(x, y, z) = Kallen(y, x, z)
                       /\ Kallen(x, y, z) = Kallen(x, z, y)
                       /\ Kallen(x, y, z) = Kallen(z, y, x)
                       /\ Kallen(x, y, z) = Kallen(y, z, x)
                       /\ Kallen(x, y, z) = Kallen(z, x, y)
  BY DEF Kallen

THEOREM KallenFactorises ==
  \A x, b, c \in Int : Kallen(x, b * b, c * c) = (x - (b + c) * (b + c)) * (x - (b - c) * (b - c))
  BY Z3 DEF Kallen

\* Kallen as a difference of squares: the form used for the PDG limits
THEOREM KallenDifferenceOfSquares ==
  \A x, y, z \in Int : Kallen(x, y, z) = (x - y - z) * (x - y - z) - 4 * y * z
  BY Z3 DEF Kallen

\* third Mandelstam variable: the three pair masses of p1+p2+p3 (Minkowski algebra, products as symbols)
THEOREM ThirdMandelstamIdentity ==
  \A M1, M2, M3, d12, d13, d23 \in Int :
    LET M0 == M1 + M2 + M3 + 2 * d12 + 2 * d13 + 2 * d23
        s1 == M2 + M3 + 2 * d23
        s2 == M1 + M3 + 2 * d13
        s3 == M1 + M2 + 2 * d12 IN
    s3 = M0 + M1 + M2 + M3 - s1 - s2
  OBVIOUS

Kibble(s1, s2, s3, M0, M1, M2, M3) == Kallen(Kallen(s2, M2, M0), Kallen(s3, M3, M0), Kallen(s1, M1, M0))
S3(s1, s2, M0, M1, M2, M3) == M0 + M1 + M2 + M3 - s1 - s2
Disc(s1, s2, M0, M1, M2, M3) ==
  LET L1 == Kallen(s1, M2, M3)
      L2 == Kallen(M0, s1, M1)
      ab == M0 - M1 - M2 + M3
      t == 4 * s1 * s2 - (ab * ab - L1 - L2) IN
  t * t - 4 * L1 * L2

\* The Kibble cubic (Gram determinant of the three four-momenta, in invariants), integer coefficients
G(s1, s2, M0, M1, M2, M3) ==
  - M0 * M3 * M3 - M1 * M2 * M2 - M2 * M1 * M1 - M3 * M0 * M0 - s1 * s2 * s2 - s2 * s1 * s1
  + M0 * M1 * M2 + M0 * M1 * M3 + M0 * M2 * M3 + M0 * M3 * s1 + M0 * M3 * s2 + M0 * s1 * s2
  + M1 * M2 * M3 + M1 * M2 * s1 + M1 * M2 * s2 + M1 * s1 * s2 + M2 * s1 * s2 + M3 * s1 * s2
  - M0 * M1 * s1 - M0 * M2 * s2 - M1 * M3 * s2 - M2 * M3 * s1
\* numerator of cos theta-hat_{1(2)}: 4 m0^2 (three-momentum product p1.p2 in the parent frame)
U(s1, s2, M0, M1, M2, M3) ==
  (M0 + M1 - s1) * (M0 + M2 - s2) - 2 * M0 * (S3(s1, s2, M0, M1, M2, M3) - M1 - M2)

\* |p3|^2 = |p1|^2 + |p2|^2 + 2 p1.p2 in the parent frame
LEMMA MomentumTriangle ==
  \A s1, s2, M0, M1, M2, M3 \in Int :
    Kallen(S3(s1, s2, M0, M1, M2, M3), M3, M0)
      = Kallen(s2, M2, M0) + Kallen(s1, M1, M0) + 2 * U(s1, s2, M0, M1, M2, M3)
  BY Z3T(300) DEF Kallen, U, S3

\* C19: 1 - cos^2 theta-hat_{1(2)} is the Gram determinant: |cos| <= 1 <=> G >= 0 (m0^2 > 0)
LEMMA HatSine ==
  \A s1, s2, M0, M1, M2, M3 \in Int :
    Kallen(s2, M2, M0) * Kallen(s1, M1, M0) - U(s1, s2, M0, M1, M2, M3) * U(s1, s2, M0, M1, M2, M3)
      = 4 * M0 * G(s1, s2, M0, M1, M2, M3)
  BY Z3T(300) DEF Kallen, U, S3, G

LEMMA KallenAsTriangle ==
  \A a, b, c \in Int : Kallen(a, b, c) = (b - a - c) * (b - a - c) - 4 * a * c
  BY Z3 DEF Kallen

\* the algebra that combines the lemmas, over abstract integers
LEMMA KibbleTriangleForm ==
  \A a, c, u \in Int : Kallen(a, a + c + 2 * u, c) = 4 * (u * u) - 4 * (a * c)
  BY Z3T(30) DEF Kallen

LEMMA KallenInt == \A x, y, z \in Int : Kallen(x, y, z) \in Int
  BY Z3 DEF Kallen
LEMMA UInt == \A s1, s2, M0, M1, M2, M3 \in Int : U(s1, s2, M0, M1, M2, M3) \in Int
  BY Z3 DEF U, S3
LEMMA GInt == \A s1, s2, M0, M1, M2, M3 \in Int : G(s1, s2, M0, M1, M2, M3) \in Int
  BY Z3T(30) DEF G
LEMMA S3Int == \A s1, s2, M0, M1, M2, M3 \in Int : S3(s1, s2, M0, M1, M2, M3) \in Int
  BY Z3 DEF S3

\* the Kibble function of the library is -16 m0^2 times the Gram determinant
THEOREM KibbleIsGram ==
  \A s1, s2, M0, M1, M2, M3 \in Int :
    Kibble(s1, s2, S3(s1, s2, M0, M1, M2, M3), M0, M1, M2, M3) = -16 * M0 * G(s1, s2, M0, M1, M2, M3)
<1> TAKE s1, s2, M0, M1, M2, M3 \in Int
<1> DEFINE s3 == S3(s1, s2, M0, M1, M2, M3)
           a == Kallen(s2, M2, M0)
           b == Kallen(s3, M3, M0)
           c == Kallen(s1, M1, M0)
           u == U(s1, s2, M0, M1, M2, M3)
           g == G(s1, s2, M0, M1, M2, M3)
<1>0 s3 \in Int /\ a \in Int /\ b \in Int /\ c \in Int /\ u \in Int /\ g \in Int
  BY KallenInt, UInt, GInt, S3Int
<1>1 b = a + c + 2 * u
  BY MomentumTriangle
<1>2 a * c - u * u = 4 * M0 * g
  BY HatSine
<1> HIDE DEF s3, a, b, c, u, g
<1>3 Kallen(a, a + c + 2 * u, c) = 4 * (u * u) - 4 * (a * c)
  BY <1>0, KibbleTriangleForm
<1>4 Kallen(a, b, c) = -16 * M0 * g
  BY <1>0, <1>1, <1>2, <1>3, Z3
<1> QED
  BY <1>4 DEF Kibble, s3, a, b, c, g

\* the PDG discriminant is -16 s1 times the same Gram determinant
THEOREM DiscIsGram ==
  \A s1, s2, M0, M1, M2, M3 \in Int :
    Disc(s1, s2, M0, M1, M2, M3) = -16 * s1 * G(s1, s2, M0, M1, M2, M3)
  BY Z3T(300) DEF Disc, Kallen, G

\* hence the classification by the Kibble function is the classification by the PDG limits (s1 > 0, m0 > 0)
LEMMA CrossAlgebra ==
  \A x, m, g, k, d \in Int : (k = -16 * m * g /\ d = -16 * x * g) => x * k = m * d
  BY Z3T(30)
LEMMA KibbleInt == \A s1, s2, s3, M0, M1, M2, M3 \in Int : Kibble(s1, s2, s3, M0, M1, M2, M3) \in Int
  BY Z3 DEF Kibble, Kallen
LEMMA DiscInt == \A s1, s2, M0, M1, M2, M3 \in Int : Disc(s1, s2, M0, M1, M2, M3) \in Int
  BY Z3T(30) DEF Disc, Kallen

THEOREM KibbleIsDiscriminant ==
  \A s1, s2, M0, M1, M2, M3 \in Int :
    s1 * Kibble(s1, s2, S3(s1, s2, M0, M1, M2, M3), M0, M1, M2, M3) = M0 * Disc(s1, s2, M0, M1, M2, M3)
<1> TAKE s1, s2, M0, M1, M2, M3 \in Int
<1> DEFINE g == G(s1, s2, M0, M1, M2, M3)
           k == Kibble(s1, s2, S3(s1, s2, M0, M1, M2, M3), M0, M1, M2, M3)
           d == Disc(s1, s2, M0, M1, M2, M3)
<1>0 g \in Int /\ k \in Int /\ d \in Int
  BY GInt, KibbleInt, DiscInt, S3Int
<1>1 k = -16 * M0 * g
  BY KibbleIsGram
<1>2 d = -16 * s1 * g
  BY DiscIsGram
<1> HIDE DEF g, k, d
<1>3 s1 * k = M0 * d
  BY <1>0, <1>1, <1>2, CrossAlgebra
<1> QED
  BY <1>3 DEF k, d

\* C19: theta_ij + theta_ji = pi (the numerators of the two cosines are opposite; the Kallen factors coincide)
THEOREM ScatteringAnglesSupplementary ==
  \A M0, Mi, Mj, Mk, sj, sk \in Int :
    LET si == M0 + Mi + Mj + Mk - sj - sk
        Nij == 2 * sk * (sj - Mi - Mk) - (sk + Mi - Mj) * (M0 - sk - Mk)
        Nji == 2 * sk * (si - Mj - Mk) - (sk + Mj - Mi) * (M0 - sk - Mk) IN
    Nij + Nji = 0
  BY Z3
=============================================================================
