import sympy as sp, numpy as np, inspect
from ampform.kinematics.lorentz import *
from ampform.sympy._array_expressions import *
p = ArraySymbol("p", shape=[])
B = BoostMatrix(p)
for cse in (False, True):
    f = sp.lambdify([p], B.doit(), cse=cse)
    if not cse: print(inspect.getsource(f))
    print(f(np.array([[25.,2,3,6]]))[0,1])
