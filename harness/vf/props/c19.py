"""C19 — Dalitz-plot-decomposition angles satisfy their geometry and identities.

spec/PhaseSpace3.tla holds the reference: Gram-determinant cosines of the geometric definitions
(theta-hat in the parent frame, theta_ij in the (ij) frame, the chain directions behind zeta), the
Kallen factors, the case tables over {0..3}^3 and the addition theorem in polynomial form.  It is
(1) model-checked with TLC on its own lattices (PhaseSpace3_MC: the geometric definitions satisfy
every law of the property, Gram form = invariant form, case-table consistency) and (2) the oracle of
Trace_C19: the real formulate_zeta_angle / formulate_theta_hat_angle / formulate_scattering_angle
are called for all index tuples, their case tables projected, and numerator and Kallen factors of
every arccos argument evaluated exactly (integers) at integer four-vector events and Dalitz lattice
points; TLC evaluates the property's clauses in sign-and-square form.  (3) a small floating-point
observation family (the angles themselves, quantised) is judged by the same TLA+ module and is also
what adjudicates any implementation-shaped mismatch before it is reported."""
from __future__ import annotations

import random

from .. import ps3_common as ps
from .. import ps3_geom as geo
from .. import tlc, trace
from ..core import Machinery

LEVEL = "model_checking"
META = {
    "technique": "TLA+ reference PhaseSpace3 (Gram-determinant cosines of theta-hat, theta_ij and the zeta chain directions, "
    "Kallen factors, case tables over {0..3}^3, addition theorem in polynomial form) model-checked exhaustively with "
    "TLC on integer lattices; the real formulate_* functions called for all index tuples, numerators and Kallen "
    "factors of their arccos arguments evaluated exactly at integer four-vector events and Dalitz lattice points, "
    "logged as integers and judged in sign-and-square form by the trace specification Trace_C19 with TLC; a "
    "quantised floating-point observation family for the angle values",
    "text": "TLC decides: for all 64 zeta index triples and 16+16 theta-hat / theta_ij index pairs the specification's case "
    "tables say what raises, what is zero and what is minus what; at every logged physical lattice point the "
    "specification computes the cosines of the geometric definitions from the four-vectors (Gram determinants) and "
    "its own Kallen factors, and checks |arg| <= 1, theta-hat_{i(j)} (sign + for (1,2),(2,3),(3,1)), theta_ij (from the "
    "flight direction of (ij)), theta_ij + theta_ji = pi, zeta^i_{k(0)} = zeta^i_{k(i)}, zeta^i_{k(k)} = 0, antisymmetry and "
    "the cyclic sum rule for all six permutations via (N_B N_C - N_A K_0)^2 = (K_0 K_a - N_B^2)(K_0 K_b - N_C^2) with its "
    "sign conditions, in exact integer arithmetic; the reference itself satisfies the same laws on the whole lattice.",
    "note": "Trusted: TLC/SANY, SymPy when substituting exact values, the projection of an angle expression to (outer sign, "
    "numerator, two Kallen factors), mpmath for the observation family. Bounds: events from integer four-vectors "
    "(E <= 3, |p_x,y,z| <= 2, m0^2 <= 49, masses are square roots of integers, massless and equal masses included), "
    "Dalitz lattice points of integer mass configurations m0 <= 7 (interior, on the boundary, one lattice step from "
    "it); arccos values themselves are compared only in the floating-point observation family (2e-6 rad). The absolute "
    "sign convention of zeta^i (i != 0) and the geometric meaning of zeta are checked as implementation-shaped extras "
    "(drift, not violation), since the property text fixes only the identities.",
    "design_ref": "DESIGN.md §4 C19",
}

MC_CFG = """SPECIFICATION Spec
CONSTANTS
 MaxM0 = {maxm0}
 KalR = 2
 KalB = 1
 VecE = 2
 VecP = 1
INVARIANT TypeOK
INVARIANT LawEvents
INVARIANT LawRefAnglesBox
INVARIANT LawRefAnglesVec
INVARIANT LawCaseTable
CHECK_DEADLOCK FALSE
"""

LATTICE_QUICK = [(3, 1, 1, 0), (4, 1, 1, 1), (5, 0, 0, 0), (5, 2, 1, 1), (6, 2, 2, 1), (7, 2, 2, 2), (7, 1, 0, 0), (7, 3, 2, 1), (6, 0, 2, 3)]

PROPERTY_TO_OBS = {
    "ArgRange": "ObsArgRange", "ZetaRef0": "ObsZetaRef0", "ZetaZero": "ObsZetaZero", "ZetaAntisym": "ObsZetaAntisym",
    "HatAntisym": "ObsHatAntisym", "SumRule": "ObsSumRule", "HatGeom": "ObsHatGeom", "ScatGeom": "ObsScatGeom", "ScatPi": "ObsScatPi",
    "ZetaAntisymTable": "ObsZetaAntisym", "ZetaRef0Table": "ObsZetaRef0", "HatSign": "ObsHatGeom",
}
STRUCTURAL = {"ZetaRaises", "HatRaises", "ScatRaises", "ScatTable"}  # facts about which calls raise: nothing to adjudicate


# ---- projection of the implementation -----------------------------------------------------------


class Impl:
    """Case tables and exact evaluators of the three formulate_* functions of the current tree."""

    def __init__(self):
        import sympy as sp
        from ampform.kinematics import angles as ang
        from ampform.kinematics.phasespace import Kallen

        self.sp, self.Kallen = sp, Kallen
        self.fids: dict[str, int] = {}
        self.args = []  # fid-1 -> arccos argument (SymPy)
        self.exprs: dict[tuple, object] = {}  # ("z",i,j,k) / ("h",i,j) / ("t",i,j) -> expression
        self.drift: list[str] = []
        self.zeta = [self._entry("z", ang.formulate_zeta_angle, (i, j, k)) for i in range(4) for j in range(4) for k in range(4)]
        self.hat = [self._entry("h", ang.formulate_theta_hat_angle, (i, j)) for i in range(4) for j in range(4)]
        self.scat = [self._entry("t", ang.formulate_scattering_angle, (i, j)) for i in range(4) for j in range(4)]
        m = [sp.Symbol(f"m_{i}", nonnegative=True) for i in range(4)]
        pair = {1: "m_23", 2: "m_13", 3: "m_12"}
        s = [sp.Symbol(pair[i], nonnegative=True) for i in (1, 2, 3)]
        self.msyms, self.ssyms = m, s
        self.Mv = sp.symbols("M0:4", positive=True)
        self.Sv = sp.symbols("S1:4", positive=True)
        self.to_sq = {**{m[i]: sp.sqrt(self.Mv[i]) for i in range(4)}, **{s[i]: sp.sqrt(self.Sv[i]) for i in range(3)}}
        self.evals = [self._compile_safe(a) for a in self.args]
        self._float = {}

    def _entry(self, fam, f, idx):
        sp = self.sp
        e = {"t": list(idx), "kind": "other", "exc": "", "sg": 0, "fid": 0}
        try:
            _, expr = f(*idx)
        except Exception as ex:  # noqa: BLE001 - the exception class is part of the projection
            e["kind"], e["exc"] = "raise", type(ex).__name__
            return e
        self.exprs[(fam, *idx)] = expr
        arg = None
        if expr == 0:
            e["kind"] = "zero"
        elif isinstance(expr, sp.acos):
            e["kind"], e["sg"], arg = "acos", 1, expr.args[0]
        elif isinstance(expr, sp.Mul) and len(expr.args) == 2 and expr.args[0] == -1 and isinstance(expr.args[1], sp.acos):
            e["kind"], e["sg"], arg = "acos", -1, expr.args[1].args[0]
        if arg is not None:
            key = sp.srepr(arg)
            if key not in self.fids:
                self.fids[key] = len(self.fids) + 1
                self.args.append(arg)
            e["fid"] = self.fids[key]
        return e

    def _compile_safe(self, arg):
        try:
            return self._compile(arg)
        except Exception:  # noqa: BLE001 - an argument of unexpected shape is judged on the observation family only
            return None

    def _compile(self, arg):
        """arccos argument -> function (M, S) -> (N, K1, K2) in exact integers, or None (opaque shape)."""
        sp = self.sp
        num, den = sp.fraction(arg)
        bases = []
        for f in sp.Mul.make_args(den):
            if isinstance(f, sp.Pow) and f.exp == sp.Rational(1, 2):
                bases.extend(sp.Mul.make_args(f.base) if not isinstance(f.base, self.Kallen) else [f.base])
            else:
                bases = None
                break
        if not bases or len(bases) != 2:
            return None
        vs = list(self.Mv) + list(self.Sv)
        polys = []
        for e in (num, *bases):
            p = sp.expand(e.doit().xreplace(self.to_sq))
            try:
                poly = sp.Poly(p, *vs)
            except sp.PolynomialError:
                return None
            if not all(c.is_Integer for c in poly.coeffs()) or p.free_symbols - set(vs):
                return None
            polys.append(sp.lambdify(vs, p, modules="math"))
        return lambda M, S: tuple(int(f(*M, *S)) for f in polys)

    def values(self, M, S):
        out = []
        for ev in self.evals:
            if ev is None:
                out.append([ps.INT_MAX] * 3)
            else:
                out.append([ps.clamp(v) for v in ev(M, S)])
        return out

    def exact_arg(self, fid, M, S):
        """the arccos argument by exact SymPy substitution of the original expression (cross-check)."""
        sp = self.sp
        sub = {**{self.msyms[i]: sp.sqrt(sp.Integer(M[i])) for i in range(4)}, **{self.ssyms[i]: sp.sqrt(sp.Integer(S[i])) for i in range(3)}}
        return self.args[fid - 1].doit().xreplace(sub)

    def float_angle(self, key, M, S):
        """quantised value of the implementation's angle expression at a point (mpmath, 30 digits)."""
        v = self.mp_angle(key, M, S)
        return geo.UNDEF if v is None else geo.quant(v)

    def mp_angle(self, key, M, S):
        """mpmath value (possibly complex) of the implementation's angle expression at a point, at the
        current mpmath precision; None if the call raised or the expression has no value there."""
        import mpmath as mp

        sp = self.sp
        expr = self.exprs.get(key)
        if expr is None:
            return None
        try:
            if key not in self._float:
                self._float[key] = sp.lambdify(self.msyms + self.ssyms, expr.doit(), modules="mpmath") if expr != 0 else (lambda *a: mp.mpf(0))
            v = self._float[key](*[mp.sqrt(mp.mpf(x)) for x in M], *[mp.sqrt(mp.mpf(x)) for x in S])
            return mp.mpmathify(v)
        except Exception:  # noqa: BLE001 - no numerical value at this point (division by zero, NaN, unevaluable)
            return None

    def table_record(self):
        return {"k": "table", "id": 0, "zeta": self.zeta, "hat": self.hat, "scat": self.scat, "nf": len(self.args)}

    def name_of_fid(self, fid):
        for fam, tab in ((8, self.scat), (9, self.hat), (None, self.zeta)):
            for e in tab:
                if e["fid"] == fid:
                    return entry_name(e["t"] if fam is None else [fam, *e["t"]])
        return f"formula#{fid}"


def entry_name(t) -> str:
    t = list(t)
    if len(t) == 3 and t[0] == 9:
        return f"theta_hat_{t[1]}({t[2]})"
    if len(t) == 3 and t[0] == 8:
        return f"theta_{t[1]}{t[2]}"
    if len(t) == 3:
        return f"zeta^{t[0]}_{t[1]}({t[2]})"
    return f"pair({t[0]},{t[1]})"


# ---- points -----------------------------------------------------------------------------------------


def build_points(tier: str, rng: random.Random) -> list[dict]:
    pts = []
    for ev in ps.gen_events(3000 if tier == "thorough" else 600, rng):
        M, S = ps.invariants(ev)
        pts.append({"M": list(M), "S": list(S), "P": [list(p) for p in ev], "tag": "event"})
    configs = LATTICE_QUICK if tier == "quick" else sorted(set(LATTICE_QUICK) | set(rng.sample(ps.mass_configs(7), 40)))
    for m in configs:
        M = [x * x for x in m]
        cand = ps.dalitz_points(m)
        special = [c for c in cand if c[2] != "interior"]
        interior = [c for c in cand if c[2] == "interior"]
        cap = 120 if tier == "thorough" else 40
        chosen = special[: 2 * cap] if len(special) <= 2 * cap else rng.sample(special, 2 * cap)
        chosen += interior if len(interior) <= cap else rng.sample(interior, cap)
        for s1, s2, tag in chosen:
            pts.append({"M": M, "S": [s1, s2, sum(M) - s1 - s2], "P": [], "tag": tag})
    return pts


def pt_record(impl: Impl, rid: int, pt: dict) -> dict:
    return {"k": "pt", "id": rid, "M": pt["M"], "S": pt["S"], "P": pt["P"], "vals": impl.values(pt["M"], pt["S"])}


def obs_record(impl: Impl, rid: int, pt: dict) -> dict:
    M, S = pt["M"], pt["S"]
    P = pt["P"] if pt["P"] else geo.vectors_from_invariants(M, S)
    gh, gt = geo.geometric_angles(P)
    z = [impl.float_angle(("z", i, j, k), M, S) for i in range(4) for j in range(4) for k in range(4)]
    h = [impl.float_angle(("h", i, j), M, S) for i in range(4) for j in range(4)]
    t = [impl.float_angle(("t", i, j), M, S) for i in range(4) for j in range(4)]
    return {"k": "obs", "id": rid, "M": M, "S": S, "tol": geo.TOL, "pi": geo.quant(geo.mp.pi), "z": z, "h": h, "t": t, "gh": gh, "gt": gt}


def nondegenerate(pt) -> bool:
    M, S = pt["M"], pt["S"]
    ks = [ps.kallen(M[0], M[i], S[i - 1]) for i in (1, 2, 3)] + [ps.kallen(S[l - 1], M[i], M[6 - i - l]) for i in (1, 2, 3) for l in (1, 2, 3) if l != i]
    return all(k > 0 for k in ks) and ps.kibble_int(S[0], S[1], M) < 0


def hp_confirm(impl: Impl, clause: str, info, pt: dict) -> bool:
    """Independent re-evaluation of a law clause that TLC rejected at a point: the implementation's own
    angle expressions (and, for the geometric clauses, boosts of the four-momenta) at 60 digits, or exact
    SymPy substitution for |arg| <= 1.  Two different algebraic numbers of this lattice's height differ by far
    more than 1e-35, so a clause that TLC rejects for a good reason is always confirmed; if it is not, the
    specification or the driver is wrong (machinery)."""
    import mpmath as mp

    bad = info[0] if isinstance(info, tuple) and info and isinstance(info[0], frozenset) else info
    if not isinstance(bad, frozenset):
        return False
    M, S = pt["M"], pt["S"]
    if clause == "ArgRange":
        for fid in bad:
            ex2 = impl.sp.simplify(impl.exact_arg(fid, M, S) ** 2)
            if ex2.is_Rational and ex2 > 1:
                return True
            ev = impl.evals[fid - 1]
            if ev is not None:
                n, k1, k2 = ev(M, S)
                if k1 > 0 and k2 > 0 and n * n > k1 * k2:
                    return True
        return False
    with mp.workdps(60):
        eps = mp.mpf(10) ** -35
        P = pt["P"] if pt["P"] else geo.vectors_from_invariants(M, S)
        gh, gt = geo.geometric_angles(P, raw=True)

        def z(i, j, k):
            return impl.mp_angle(("z", i, j, k), M, S)

        def h(i, j):
            return impl.mp_angle(("h", i, j), M, S)

        def t(i, j):
            return impl.mp_angle(("t", i, j), M, S)

        def ne(a, b):  # both exist and differ
            return a is not None and b is not None and abs(mp.mpmathify(a) - mp.mpmathify(b)) > eps

        for x in bad:
            if clause == "ZetaRef0" and ne(z(x[0], x[1], 0), z(x[0], x[1], x[0])):
                return True
            if clause == "ZetaZero" and ne(z(x[0], x[1], x[1]), 0):
                return True
            if clause == "ZetaAntisym" and z(x[0], x[2], x[1]) is not None and ne(z(x[0], x[1], x[2]), -z(x[0], x[2], x[1])):
                return True
            if clause == "HatAntisym" and h(x[1], x[0]) is not None and ne(h(x[0], x[1]), -h(x[1], x[0]) if x[0] != x[1] else 0):
                return True
            if clause == "SumRule":
                b, c = z(x[0], x[1], x[0]), z(x[0], x[0], x[2])
                if b is not None and c is not None and ne(z(x[0], x[1], x[2]), b + c):
                    return True
            if clause == "HatGeom" and ne(h(x[0], x[1]), gh[4 * x[0] + x[1]]):
                return True
            if clause == "ScatGeom" and ne(t(x[0], x[1]), gt[4 * x[0] + x[1]]):
                return True
            if clause == "ScatPi" and t(x[1], x[0]) is not None and ne(t(x[0], x[1]), mp.pi - t(x[1], x[0])):
                return True
    return False


def first_index(info):
    """smallest failing index tuple out of a REJECT info value."""
    bad = info[0] if isinstance(info, tuple) and info and isinstance(info[0], frozenset) else info
    if isinstance(bad, frozenset) and bad:
        return sorted(bad, key=lambda x: (x if isinstance(x, tuple) else (x,)))[0]
    return None


def law_signature(impl, clause, info) -> str:
    idx = first_index(info)
    base = clause[3:] if clause.startswith("Obs") else clause
    if idx is None:
        return base
    if isinstance(idx, int):
        return f"{base}:{impl.name_of_fid(idx)}"
    if base in ("HatGeom", "HatAntisym", "HatSign", "HatRaises") and len(idx) == 2:
        return f"{base}:theta_hat_{idx[0]}({idx[1]})"
    if base in ("ScatGeom", "ScatPi", "ScatTable", "ScatRaises") and len(idx) == 2:
        return f"{base}:theta_{idx[0]}{idx[1]}"
    if base in ("ZetaRef0", "ZetaRef0Table") and len(idx) == 2:
        return f"{base}:zeta^{idx[0]}_{idx[1]}(0)"
    if base == "ZetaZero" and len(idx) == 2:
        return f"{base}:zeta^{idx[0]}_{idx[1]}({idx[1]})"
    return f"{base}:{entry_name(idx)}"


def run(chk, replay=None):
    tier = chk.tier
    rng = random.Random(chk.seed)
    chk.assume(
        "TLC/SANY; SymPy exact substitution; mpmath (30 digits) for the observation family",
        "projection of an angle expression to outer sign * arccos(N / (sqrt(K1) sqrt(K2))) with integer polynomials N, K1, K2 in the squared masses "
        "(cross-checked against exact substitution into the original expression on a sample of points in every run)",
        "an arccos argument whose denominator vanishes (threshold, particle at rest) has no value: such formulas are skipped at that point",
        "the observation family quantises angles to 1e-7 rad and tolerates 2e-6 rad",
    )
    # 1. the reference on its own lattice (runs while the implementation is projected and evaluated) ---
    from concurrent.futures import ThreadPoolExecutor

    mc_pool = ThreadPoolExecutor(max_workers=1)
    mc_future = None
    if not replay:
        mc_future = mc_pool.submit(tlc.run, "PhaseSpace3_MC", MC_CFG.format(maxm0=7 if tier == "thorough" else 5), workers=6, fast_start=False, timeout=1500)

    # 2. the implementation ---------------------------------------------------------------------------
    impl = Impl()
    opaque = [impl.name_of_fid(n + 1) for n, e in enumerate(impl.evals) if e is None]
    if opaque:
        chk.spec_drift(f"arccos arguments of {opaque} are not of the form N/(sqrt(K1) sqrt(K2)) with polynomial N, K1, K2: judged on the observation family only")
    if replay and replay.get("case"):
        pts = replay["case"]["points"]
    else:
        pts = build_points(tier, rng)
    table = impl.table_record()
    records = [table] + [pt_record(impl, n + 1, p) for n, p in enumerate(pts)]
    # machinery cross-check of the fast integer evaluators against exact substitution into the original expressions
    for p in rng.sample(pts, min(12, len(pts))):
        vals = impl.values(p["M"], p["S"])
        for fid, v in enumerate(vals, 1):
            if impl.evals[fid - 1] is None or v[1] <= 0 or v[2] <= 0 or max(map(abs, v)) >= ps.INT_MAX:
                continue
            ex = impl.exact_arg(fid, p["M"], p["S"])
            sp = impl.sp
            if sp.simplify(ex**2 - sp.Rational(v[0] ** 2, v[1] * v[2])) != 0 or (ex > 0) != (v[0] > 0):
                raise Machinery(f"projection error: formula {impl.name_of_fid(fid)} at {p}: exact {ex} vs projected {v}")
    chk.count(len(pts) + 96)
    for p in pts:
        chk.nontrivial((tuple(p["M"]), tuple(p["S"]), tuple(map(tuple, p["P"]))))
    for e in impl.zeta + impl.hat + impl.scat:
        chk.nontrivial(("table", tuple(e["t"]), len(e["t"])))
    chk.sample({"table_entries": [impl.zeta[27], impl.zeta[30], impl.zeta[4], impl.hat[9], impl.scat[9]]})
    for tag in ("event", "boundary", "adjacent"):
        s = next((r for r, p in zip(records[1:], pts) if p["tag"] == tag), None)
        if s:
            chk.sample({"tag": tag, **{k: v for k, v in s.items() if k != "k"}})


    # 3. TLC judges the exact family -----------------------------------------------------------------
    rejects = []
    stats: dict[str, int] = {}
    for n, batch in enumerate(ps.chunks(records[1:], 4000)):
        tv = trace.validate("Trace_C19", [table] + batch, timeout=1700)
        chk.add_tlc(f"trace_exact_{n}", tv.res, traces=len(batch) + (96 if n == 0 else 0))
        for k, v in tv.stats.items():
            stats[k] = stats.get(k, 0) + v
        rejects += [r for r in tv.rejects if n == 0 or r[1] != 0]

    # 4. observation family: a sample of non-degenerate points + every point named in a reject ---------
    by_id = {n + 1: p for n, p in enumerate(pts)}
    nd = [i for i, p in by_id.items() if nondegenerate(p)]
    n_obs = 300 if tier == "thorough" else 60
    obs_ids = set(rng.sample(nd, min(n_obs, len(nd))))
    table_rejects = [r for r in rejects if r[1] == 0]
    point_rejects = [r for r in rejects if r[1] != 0]
    reject_ids = {r[1] for r in point_rejects}
    if len(reject_ids) > 150:  # a broken formula fails everywhere: adjudicate a deterministic subset
        reject_ids = set(sorted(reject_ids)[:150])
    all_obs = sorted(obs_ids | reject_ids)
    obs = [obs_record(impl, i, by_id[i]) for i in all_obs]
    otv = trace.validate("Trace_C19", [table] + obs, timeout=1700)
    chk.add_tlc("trace_observation", otv.res, traces=len(obs))
    stats["obs"] = otv.stats.get("obs", 0)
    chk.count(len(obs))
    if obs:
        chk.sample({"observation": {k: v for k, v in obs[0].items() if k in ("id", "M", "S", "h", "gh", "t", "gt")}})
    obs_rej = [r for r in otv.rejects if r[1] != 0]
    obs_by = {}
    for r in obs_rej:
        obs_by.setdefault((r[0], r[1]), r)

    def report(clause, rid, info, via):
        p = by_id.get(rid)
        sig = law_signature(impl, clause, info)
        chk.violation(sig, f"{clause} ({via}) fails at M={p and p['M']} S={p and p['S']} P={p and p['P']}; TLC: {info}", {"points": [p] if p else pts[:20]})

    # 4a. every rejection of the observation family is a contradiction of the property as stated
    for r in obs_rej:
        if r[0].startswith("Harness"):
            raise Machinery(f"{r[0]} failed: {r}")
        report(r[0], r[1], r[2] if len(r) > 2 else None, "observation family, 2e-6 rad")
    # 4b. exact rejections.  A law clause of the property that TLC rejects on the implementation's values is a
    # VIOLATION; before it is reported it is re-evaluated independently (60-digit evaluation of the implementation's
    # own expressions / exact substitution), and only a rejection that this cannot reproduce is a machinery failure
    # (it would mean the specification or the driver is wrong, not the implementation).
    drifts = {}
    seen = set()
    point_level = {r[0] for r in point_rejects} | {o[0][3:] for o in obs_rej}
    for r in table_rejects + point_rejects:
        clause, rid, info = r[0], r[1], r[2] if len(r) > 2 else None
        if clause.startswith("Harness"):
            raise Machinery(f"{clause} failed for record {rid}: driver or specification error ({info})")
        if clause in STRUCTURAL:
            chk.violation(law_signature(impl, clause, info), f"case table: {clause} fails for {sorted(info) if isinstance(info, frozenset) else info}", {"points": pts[:5]})
            continue
        if clause.endswith("Shape") or clause.endswith("Value"):
            # implementation-shaped: a violation only if the observation family rejects the same point (table: any point)
            if rid != 0 and rid not in reject_ids:
                continue
            if not [o for o in obs_rej if rid == 0 or o[1] == rid]:
                drifts.setdefault(clause, (rid, info))
            continue
        sig = law_signature(impl, clause, info)
        if sig in seen:
            continue
        seen.add(sig)
        if rid == 0:
            # sign structure of the case table: a violation when a law fails by value at some point, otherwise shape only
            want = PROPERTY_TO_OBS.get(clause, "Obs?")[3:]
            if want in point_level:
                chk.violation(sig, f"case table: {clause} fails for {sorted(info) if isinstance(info, frozenset) else info} and {want} fails by value at lattice points", {"points": pts[:20]})
            else:
                drifts.setdefault(clause, (rid, info))
            continue
        confirmed = hp_confirm(impl, clause, info, by_id[rid]) or any(o[0] == PROPERTY_TO_OBS.get(clause) and o[1] == rid for o in obs_rej)
        if not confirmed:
            raise Machinery(f"TLC rejects {clause} at record {rid} ({by_id.get(rid)}; {info}) but neither the exact nor the 60-digit re-evaluation of the "
                            "implementation's expressions reproduces a difference: specification or driver error")
        report(clause, rid, info, "exact integer arithmetic in TLC, re-evaluated at 60 digits")
    for clause, (rid, info) in drifts.items():
        chk.spec_drift(f"{clause}: implementation-shaped part of the specification not followed (first at record {rid}: {info}); the angle laws hold on the observation family")

    if mc_future is not None:
        res = mc_future.result()
        chk.add_tlc("reference_exhaustive", res)
        if not res.ok:
            raise Machinery(f"the reference PhaseSpace3 violates its own law {res.violated}: specification error\n" + "\n".join(res.error_trace[:40]))
    mc_pool.shutdown()
    chk.part("trace_stats", formulas=len(impl.args), **stats)
    if not replay and not chk.violations and not chk.drift:
        need = ["pt_event", "pt_lattice", "pt_boundary", "pt_adjacent", "pt_massless", "pt_equalmass", "sumrule_instances", "arg_checked", "hat_geom", "scat_geom", "obs"]
        missing = [k for k in need if stats.get(k, 0) == 0]
        if missing:
            raise Machinery(f"vacuous run: no record exercised {missing}")
    chk.cov["rule"] = (
        "case tables: all 64 zeta triples and 16+16 theta-hat / theta_ij pairs of {0..3}; points: stratified integer four-vector events "
        "(E <= 3, |p| <= 2, m0^2 <= 49; massless, equal-mass, collinear, moving parent) and Dalitz lattice points of integer mass "
        "configurations m0 <= 7 (all boundary and boundary-adjacent points up to a cap, sampled interior points); every point carries "
        "the exact (N, K1, K2) of all distinct arccos arguments and is one validated trace; observation family: seeded sample of "
        "non-degenerate points. Distinct/non-trivial: distinct (masses, sigma, four-vectors) points plus distinct table entries"
    )
    chk.cov["exhaustive"] = False

    if tier == "thorough" and not replay:
        # binding demonstration: corrupt one logged field of one record
        good = next(r for r, p in zip(records[1:], pts) if p["tag"] == "event" and nondegenerate(p))
        bad = dict(good)
        bad["vals"] = [list(v) for v in good["vals"]]
        fid = impl.hat[4 * 1 + 2]["fid"]
        bad["vals"][fid - 1][0] += 1
        tvb = trace.validate("Trace_C19", [table, bad])
        if not any(r[0] == "HatGeom" and r[1] == bad["id"] for r in tvb.rejects):
            raise Machinery(f"binding demonstration failed: numerator of theta_hat_1(2) changed by 1 at {bad['id']} but HatGeom did not reject ({tvb.rejects})")
        t2 = dict(table)
        t2["zeta"] = [dict(e) for e in table["zeta"]]
        t2["zeta"][16 * 1 + 4 * 3 + 2]["sg"] *= -1
        tvt = trace.validate("Trace_C19", [t2, good])
        if not any(r[0] in ("ZetaAntisymTable", "ZetaAntisym") for r in tvt.rejects):
            raise Machinery(f"binding demonstration failed: flipped sign of zeta^1_3(2) not rejected ({tvt.rejects})")
        tvg = trace.validate("Trace_C19", [table, good])
        if tvg.rejects:
            raise Machinery(f"binding demonstration: uncorrupted records rejected {tvg.rejects}")
        chk.part("binding_demo", corrupted=["vals[theta_hat_1(2)].N += 1", "table.zeta^1_3(2).sg flipped"],
                 rejected=sorted({r[0] for r in tvb.rejects} | {r[0] for r in tvt.rejects}))
        from .c20 import run_tlaps

        tl = run_tlaps(chk, "PhaseSpace3_Proofs", timeout=700)
        chk.part("tlaps", **tl)
        if tl.get("available") and (tl["timed_out"] or tl["not_proved"]):
            chk.note(f"TLAPS: {tl['discharged']}/{tl['obligations']} obligations discharged; not proved (reported, model-checked instead): {tl['not_proved']}")
