--------------------------- MODULE ModelOps_Real ---------------------------
(* ModelOps instantiated with the projection of a REAL formulated model: the constants are
   read from the one-line JSON file IOEnv.MODEL_FILE written by vf/modelops_exec.py
     {"model": <projection>, "maps": {"inj": [["n3","x0"]], ...}, "extra_syms": [...],
      "extra_names": [...], "values": [...]}
   The map alphabet is bound by role to concrete symbols of that model by the harness; TLC
   explores / simulates the very same state machine and laws as for ModelOps_MC, and each
   transition is then executed on the real object. *)
EXTENDS ModelOps, ModelOps_Json, Json, IOUtils
J == ndJsonDeserialize(IOEnv.MODEL_FILE)[1]
RealModel == JModel(J.model)
RealMaps == [m \in DOMAIN J.maps |-> J.maps[m]]
RealExtraSyms == JSet(J.extra_syms)
RealExtraNames == JSet(J.extra_names)
RealValues == JSet(J.values)
DevNone == {}
DevPinned == {"CollectExprKinOnly"}
=============================================================================
