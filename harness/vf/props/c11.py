"""C11 — phase-space-factor variants agree where they must.

spec/Lineshape.tla (+ LineshapeBig) computes q^2, the regions of the s axis, and for every
algebraic variant the square rho^2 and the quadrant of rho; spec/Lineshape_MC.tla checks the
reference laws exhaustively on TLC's lattice; spec/Trace_C11.tla consumes the implementation's
exact values (this driver: X(s,m1,m2).doit() at rational points, squares and quadrants, 50-digit
values rounded to 12 digits for the two transcendental variants, lambdified numpy values) and
evaluates the sentences of the property on them."""
from __future__ import annotations

import copy
import os
import warnings
from concurrent.futures import ProcessPoolExecutor, ThreadPoolExecutor

from .. import tlc, trace
from ..core import Machinery
from ..lineshape_obs import UNDEF, observe, observe_float, rat, show

LEVEL = "model_checking"
META = {
    "technique": "TLA+ spec Lineshape (exact rational q^2, regions of the s axis, square and quadrant of every "
    "phase-space-factor variant; limb arithmetic for square-root brackets) model-checked exhaustively with TLC on "
    "an integer/rational lattice; trace spec Trace_C11 recomputes every value for the implementation's exact "
    "results (SymPy Rational substitution, squares+quadrants, 50-digit values rounded to 12 digits, lambdified "
    "numpy values) and evaluates the four sentences of the property on them",
    "text": "Exhaustive model checking of the reference laws (q^2 symmetric, zero exactly at (m1+-m2)^2, sign per "
    "region, rho_X = 2q/sqrt(s) above threshold, rho_complex = i rho_abs between the thresholds, quadrant table) on "
    "the lattice s in -20..60 (thorough: steps of 1/4) x 8 (quick) / 15 (thorough) mass pairs, and trace validation of the implementation's "
    "exact values at every lattice point: TLC computes the expected square and quadrant itself. Sentence 3 (equal-mass "
    "continuation = S-wave Chew-Mandelstam, continuity at threshold) compares transcendental values of the "
    "implementation with each other: an observation law (level 'other' for that sentence), TLC contributes the "
    "applicability logic, the tolerance arithmetic and the sqrt(eps) bound of the one-sided approach.",
    "note": "Trusted: TLC/SANY, SymPy's exact arithmetic and 50-digit evalf of sqrt/log/atan, numpy for the lambdify family. "
    "s = 0 (pole of q^2, 0/0 for equal masses) is an observation only. Lambdified values at s < 0 are on the branch cut of "
    "sqrt, and lambdified values within 1e-3 of a threshold are only logged. Two derived laws are not sentences of C11 and carry the "
    "signature prefix 'derived:': X(s,m1,m2) = X(s,m2,m1) for all five variants, and regularity of the S-wave Chew-Mandelstam factor at "
    "s = 0 for unequal masses (its two 1/s terms cancel). Known finding: equal-mass continuation != Chew-Mandelstam for s < 0.",
    "design_ref": "DESIGN.md §4 C11",
}

VARIANTS = ["PhaseSpaceFactor", "PhaseSpaceFactorAbs", "PhaseSpaceFactorComplex", "PhaseSpaceFactorSWave", "EqualMassPhaseSpaceFactor"]
ALGEBRAIC = VARIANTS[:3]
INT_PAIRS = [(1, 1), (1, 2), (2, 1), (1, 5), (5, 1), (2, 3), (3, 2), (3, 3)]
RAT_PAIRS = [("1/2", "1/2"), ("1/2", "3/2"), ("3/2", "1/2"), ("2/3", "1"), ("1", "2/3"), ("5/2", "5/2"), ("1/7", "4")]

MC_CFG = """SPECIFICATION Spec
CONSTANTS
 SNeg = 20
 SMax = 60
 SDen = {sden}
 LMax = 10
 Tier = "{tier}"
 Families = {{"phsp", "big"}}
INVARIANT PhspTyped
INVARIANT Q2Symmetric
INVARIANT Q2ZeroExactlyAtThresholds
INVARIANT Q2SignByRegion
INVARIANT AboveThreshold
INVARIANT BetweenThresholds
INVARIANT QuadrantTable
INVARIANT SameModulus
INVARIANT BigSound
PROPERTY RegionsInOrder
CHECK_DEADLOCK FALSE
"""


# ---------------------------------------------------------------------------------------
# evaluation of the implementation (worker processes)
def _classes():
    from ampform.dynamics import phasespace as ph

    return {n: getattr(ph, n) for n in VARIANTS}, ph.BreakupMomentumSquared


def _q2(cls, s, m1, m2):
    import sympy as sp

    try:
        v = cls(s, m1, m2).doit()
        if v.is_Rational:
            return {"st": "exact", "v": rat(v)}
    except (TypeError, ValueError, ZeroDivisionError, OverflowError):
        pass
    return {"st": "undef", "v": [0, 1]}


def _value(cls, s, m1, m2, exact):
    try:
        v = cls(s, m1, m2).doit()
    except (TypeError, ValueError, ZeroDivisionError):
        return dict(UNDEF)
    return observe(v, want_exact=exact)


def eval_point(job):
    import sympy as sp

    warnings.simplefilter("ignore")
    s, m1, m2 = (sp.Rational(x) for x in job)
    classes, q2cls = _classes()
    rec = {"k": "pt", "s": rat(s), "m1": rat(m1), "m2": rat(m2), "q2": _q2(q2cls, s, m1, m2), "q2sw": _q2(q2cls, s, m2, m1)}
    for name in VARIANTS:
        rec[name] = _value(classes[name], s, m1, m2, exact=name in ALGEBRAIC)
    rec["swapped"] = {name: (_value(classes[name], s, m2, m1, exact=name in ALGEBRAIC) if m1 != m2 else rec[name]) for name in VARIANTS}
    return rec


def eval_approach(job):
    import sympy as sp

    warnings.simplefilter("ignore")
    m1, m2, side, k = job
    m1, m2 = sp.Rational(m1), sp.Rational(m2)
    classes, _ = _classes()
    thr = (m1 + m2) ** 2
    s = thr + side * sp.Rational(1, 10**k)
    rec = {"k": "thr", "m1": rat(m1), "m2": rat(m2), "side": side, "kexp": k}
    for key, name in (("sw", "PhaseSpaceFactorSWave"), ("eq", "EqualMassPhaseSpaceFactor")):
        rec[key] = _value(classes[name], s, m1, m2, exact=False)
        rec[key + "0"] = _value(classes[name], thr, m1, m2, exact=False)
    return rec


def eval_zero(job):
    import sympy as sp

    warnings.simplefilter("ignore")
    m1, m2, k = job
    m1, m2 = sp.Rational(m1), sp.Rational(m2)
    classes, _ = _classes()
    eps = sp.Rational(1, 10**k)
    cls = classes["PhaseSpaceFactorSWave"]
    return {"k": "zero", "m1": rat(m1), "m2": rat(m2), "kexp": k,
            "plus": _value(cls, eps, m1, m2, exact=False), "minus": _value(cls, -eps, m1, m2, exact=False)}


def complexsqrt_records():
    import numpy as np
    import sympy as sp
    from ampform.sympy.math import ComplexSqrt

    x = sp.Symbol("x", real=True)
    f_np = sp.lambdify(x, ComplexSqrt(x), "numpy")
    f_py = sp.lambdify(x, ComplexSqrt(x), "math")
    xs = [sp.Rational(a) for a in ("-9", "-4", "-9/4", "-2", "-1", "-1/4", "-1/9", "-10", "-1/1000", "0", "1/1000", "1/9", "1/4", "1", "2", "9/4", "4", "9", "10", "1000")]
    out = []
    with np.errstate(all="ignore"):
        arr_r = f_np(np.array([float(a) for a in xs], dtype=float))
        arr_c = f_np(np.array([complex(float(a), 0.0) for a in xs], dtype=complex))
        # the same real numbers with a negative zero as imaginary part (what numpy.conj leaves behind on the real axis)
        arr_n = f_np(np.conj(np.array([complex(float(a), 0.0) for a in xs], dtype=complex)))
        for i, a in enumerate(xs):
            rows = [("numpy", "float64-array", arr_r[i]), ("numpy", "complex128-array", arr_c[i]), ("numpy", "python-float", f_np(float(a))),
                    ("numpy", "complex128-array(imag=-0.0)", arr_n[i])]
            try:
                rows.append(("pycode", "python-float", f_py(float(a))))
                rows.append(("pycode", "python-complex", f_py(complex(float(a), 0.0))))
            except (ValueError, TypeError) as e:  # math domain error etc. is a value of its own
                rows.append(("pycode", "python-float", float("nan")))
            try:
                rows.append(("sympy", "Rational", complex(sp.N(ComplexSqrt(a), 30))))
            except (TypeError, ValueError):
                rows.append(("sympy", "Rational", float("nan")))
            for printer, dtype, val in rows:
                out.append({"k": "csqrt", "printer": printer, "dtype": dtype, "x": rat(a), "o": observe_float(val)})
    return out


def lambdify_records(points, refs):
    """Lambdified (numpy) values of X(s,m1,m2).doit() at the lattice points, real and complex dtype."""
    import numpy as np
    import sympy as sp

    classes, _ = _classes()
    s, m1, m2 = sp.symbols("s m1 m2", real=True)
    out = []
    arr = np.array([[float(sp.Rational(p[0])), float(sp.Rational(p[1])), float(sp.Rational(p[2]))] for p in points])
    for name in VARIANTS:
        f = sp.lambdify((s, m1, m2), classes[name](s, m1, m2).doit(), "numpy")
        for dtype in ("float64", "complex128", "complex128(imag=-0.0)"):
            a = arr.astype(float if dtype == "float64" else complex)
            if dtype.endswith("(imag=-0.0)"):
                a = np.conj(a)
            with np.errstate(all="ignore"), warnings.catch_warnings():
                warnings.simplefilter("ignore")
                vals = np.broadcast_to(f(a[:, 0], a[:, 1], a[:, 2]), (len(points),))
            for p, v in zip(points, vals):
                ref = refs.get((tuple(p), name), UNDEF)
                out.append({"k": "lam", "X": name, "dtype": dtype, "s": rat(p[0]), "m1": rat(p[1]), "m2": rat(p[2]),
                            "o": observe_float(v), "ref": {"st": ref["st"], "re": ref["re"], "im": ref["im"]}})
    return out


# ---------------------------------------------------------------------------------------
def lattice(tier, replay):
    import sympy as sp

    if replay and replay.get("case", {}).get("point"):
        return [tuple(replay["case"]["point"])]
    pts = []
    for m1, m2 in INT_PAIRS:
        for s in range(-20, 61):
            pts.append((str(s), str(m1), str(m2)))
    if tier == "thorough":
        for m1, m2 in [(str(a), str(b)) for a, b in INT_PAIRS] + RAT_PAIRS:
            thr = (sp.Rational(m1) + sp.Rational(m2)) ** 2
            pth = (sp.Rational(m1) - sp.Rational(m2)) ** 2
            for k in range(-80, 241):
                pts.append((str(sp.Rational(k, 4)), m1, m2))
            pts += [(str(thr), m1, m2), (str(pth), m1, m2)]
    seen, out = set(), []
    for p in pts:
        if p not in seen:
            seen.add(p)
            out.append(p)
    return out


def signature(clause, info):
    """(stable signature of the failing input class, where on the axis it failed)"""
    info = list(info) if isinstance(info, (tuple, list)) else [info]
    if clause == "EqualMassVsChewMandelstam":
        region = info[0]
        return "equal-mass-continuation-vs-chew-mandelstam:" + ("s<0" if region == "neg" else f"region={region}"), ""
    if clause == "AboveThreshold":
        return f"above-threshold:Re(rho)!=2q/sqrt(s):{info[0]}", ""
    if clause == "Between":
        return "between-thresholds:rho_complex!=i*rho_abs", ""
    if clause == "MassSwapSymmetry":
        return f"derived:mass-swap-symmetry:{info[0]}", f"region={info[1]}"
    if clause == "RegularAtZero":
        return f"derived:chew-mandelstam-regular-at-s=0:{info[0]}", f"eps=1e-{info[1]}"
    if clause in ("Q2Value", "Q2Symmetric", "Q2VanishesAtThreshold"):
        return {"Q2Value": "q2:value", "Q2Symmetric": "q2:not-symmetric-in-masses", "Q2VanishesAtThreshold": "q2:nonzero-at-threshold"}[clause], f"region={info[0]}"
    if clause == "ContinuityAtThreshold":
        return f"continuity-at-threshold:{info[0]}:side={'above' if info[1] > 0 else 'below'}", f"eps=1e-{info[2]}"
    if clause == "ThresholdValue":
        return f"continuity-at-threshold:{info[0]}:value-at-threshold", ""
    if clause == "ComplexSqrtPrinting":
        return f"complexsqrt-printing:{info[0]}:{'x<0' if info[2] < 0 else 'x>0' if info[2] > 0 else 'x=0'}", str(info[1])
    if clause == "ComplexDefinedForReal":
        return f"lambdify:{info[0]}:undefined-for-real-input", f"{info[1]}:region={info[2]}"
    if clause == "LambdifyMatchesExact":
        return f"lambdify-vs-exact:{info[0]}", f"{info[1]}:region={info[2]}"
    return f"{clause}:{':'.join(str(x) for x in info)}", ""


def describe(rec):
    if rec["k"] == "pt":
        from sympy import Rational as Q

        s, m1, m2 = (Q(*rec[k]) for k in ("s", "m1", "m2"))
        vals = "; ".join(f"{n}={show(rec[n])}" for n in VARIANTS)
        return f"(s, m1, m2) = ({s}, {m1}, {m2}): q2={rec['q2']} q2(m2,m1)={rec['q2sw']}; {vals}"
    if rec["k"] == "thr":
        return f"masses {rec['m1']},{rec['m2']} s = s_thr {'+' if rec['side'] > 0 else '-'} 1e-{rec['kexp']}: SWave={show(rec['sw'])} EqualMass={show(rec['eq'])}; at threshold SWave={show(rec['sw0'])} EqualMass={show(rec['eq0'])}"
    if rec["k"] == "zero":
        return f"masses {rec['m1']},{rec['m2']}: PhaseSpaceFactorSWave(+1e-{rec['kexp']}) = {show(rec['plus'])}, PhaseSpaceFactorSWave(-1e-{rec['kexp']}) = {show(rec['minus'])}"
    if rec["k"] == "csqrt":
        return f"ComplexSqrt({rec['x']}) via {rec['printer']} printer on {rec['dtype']} = {show(rec['o'])}"
    return f"lambdified {rec['X']} ({rec['dtype']}) at s,m1,m2={rec['s']},{rec['m1']},{rec['m2']} = {show(rec['o'])}; 50-digit value {show(dict(rec['ref'], sq=None)) if rec['ref']['st'] != 'undef' else 'n/a'}"


DRIFT_CLAUSES = {"RhoValue"}


def run(chk, replay=None):
    tier = chk.tier
    chk.assume(
        "TLC/SANY and the CommunityModules Json/IOUtils readers",
        "SymPy: exact rational arithmetic, sqrt of rationals, 50-digit evalf of log/atan/sqrt (values rounded to 1e-12)",
        "numpy double precision for the lambdify family (tolerance 2e-9 absolute on O(1) values at lattice points >= 1 away from thresholds)",
        "squares+quadrants are equivalent to the values on the principal branch (DESIGN §7)",
    )
    workers = min(8, os.cpu_count() or 2)
    pts = lattice(tier, replay)

    # 1. the reference laws, exhaustively on TLC's own lattice (runs while SymPy evaluates)
    pool = ThreadPoolExecutor(max_workers=1)
    mc_future = pool.submit(
        tlc.run, "Lineshape_MC", MC_CFG.format(tier=tier, sden=4 if tier == "thorough" else 1),
        workers=4, coverage=True, fast_start=False, timeout=1500,
    )

    # 2. the implementation at every lattice point
    with ProcessPoolExecutor(max_workers=workers) as ex:
        pt_recs = list(ex.map(eval_point, pts, chunksize=8))
        pairs = INT_PAIRS + (RAT_PAIRS if tier == "thorough" else [])
        if replay and replay.get("case", {}).get("point"):
            pairs = [tuple(replay["case"]["point"][1:])]
        jobs = [(str(m1), str(m2), side, k) for (m1, m2) in pairs for side in (1, -1) for k in range(3, 10)]
        thr_recs = list(ex.map(eval_approach, jobs, chunksize=4))
        zjobs = [(str(m1), str(m2), k) for (m1, m2) in pairs if str(m1) != str(m2) for k in range(3, 10)]
        thr_recs += list(ex.map(eval_zero, zjobs, chunksize=4))
    refs = {(tuple(p), n): r[n] for p, r in zip(pts, pt_recs) for n in VARIANTS[3:]}
    lam_pts = [p for p in pts if "/" not in p[0]] if tier == "quick" else pts
    lam_recs = lambdify_records(lam_pts, refs)
    cs_recs = complexsqrt_records()
    records = pt_recs + thr_recs + cs_recs + lam_recs
    for i, r in enumerate(records):
        r["id"] = i

    # 3. TLC judges the implementation's values
    tv = trace.validate("Trace_C11", records, timeout=3000)
    chk.add_tlc("trace_C11", tv.res, traces=len(records))
    chk.count(len(records))
    chk.part("trace_C11", records={"pt": len(pt_recs), "thr": len(thr_recs), "csqrt": len(cs_recs), "lam": len(lam_recs)},
             per_region=tv.stats, rejects=len(tv.rejects))
    for r in pt_recs:
        if r["q2"]["st"] == "exact":
            chk.nontrivial(("pt", tuple(r["s"]), tuple(r["m1"]), tuple(r["m2"])))
    for r in thr_recs:
        chk.nontrivial((r["k"], tuple(r["m1"]), tuple(r["m2"]), r.get("side", 0), r["kexp"]))
    for r in cs_recs:
        chk.nontrivial(("csqrt", r["printer"], r["dtype"], tuple(r["x"])))
    for r in lam_recs:
        if r["o"]["st"] == "num":
            chk.nontrivial(("lam", r["X"], r["dtype"], tuple(r["s"]), tuple(r["m1"]), tuple(r["m2"])))
    for want in ((-10, 1, 1), (2, 1, 1), (9, 1, 2), (20, 2, 3)):
        for r in pt_recs:
            if r["s"] == [want[0], 1] and r["m1"] == [want[1], 1] and r["m2"] == [want[2], 1]:
                chk.sample({"point": want, "q2": r["q2"]["v"], **{n: show(r[n]) for n in VARIANTS}})
    if thr_recs:
        chk.sample({"approach": describe(thr_recs[0])})
        chk.sample({"approach_zero": describe(thr_recs[-1])})
    # vacuity: every region must have been visited, and NaN observations must not have swallowed the lambdify family
    if not replay:
        for key in ("neg", "low", "pth", "mid", "thr", "above", "approach", "csqrt", "lam"):
            if tv.stats.get(key, 0) == 0:
                raise Machinery(f"vacuous trace: no record of kind/region {key!r} ({tv.stats})")

    drift = {}
    found = {}  # signature -> [first detail, replay, set of further failing classes]
    for rej in tv.rejects:
        clause, rid, info = rej[0], rej[1], rej[2] if len(rej) > 2 else ()
        rec = records[rid]
        if clause in DRIFT_CLAUSES:
            drift.setdefault(f"{clause}:{':'.join(str(x) for x in info)}", describe(rec))
            continue
        sig, where = signature(clause, info)
        point = None
        if rec["k"] in ("pt", "lam"):
            from sympy import Rational as Q

            point = [str(Q(*rec["s"])), str(Q(*rec["m1"])), str(Q(*rec["m2"]))]
        elif rec["k"] == "zero":
            point = ["0", str(rec["m1"][0]) + "/" + str(rec["m1"][1]), str(rec["m2"][0]) + "/" + str(rec["m2"][1])]
        elif rec["k"] == "thr":
            from sympy import Rational as Q

            point = [str((Q(*rec["m1"]) + Q(*rec["m2"])) ** 2), str(Q(*rec["m1"])), str(Q(*rec["m2"]))]
        ent = found.setdefault(sig, [f"clause {clause} {list(info) if isinstance(info, tuple) else info} rejected by Trace_C11: {describe(rec)}",
                                     {"clause": clause, "info": info, "point": point, "record": rec}, set(), 0])
        ent[2].add(where)
        ent[3] += 1
    for sig, (detail, rep, wheres, n) in found.items():
        if sig.startswith("derived:"):
            # laws that hold on the reference tree but are not sentences of C11: reported, never an alarm
            chk.spec_drift(f"{sig}: {n} record(s) ({detail})")
            continue
        chk.violation(sig, f"{n} record(s) rejected ({', '.join(sorted(w for w in wheres if w)) or 'all'}); first: {detail}", rep)
    for k, d in drift.items():
        chk.spec_drift(f"{k}: value outside the regions the property speaks about differs from Lineshape.tla: {d}")

    # 4. the model check
    res = mc_future.result()
    pool.shutdown()
    chk.add_tlc("reference_laws_exhaustive", res)
    if not res.ok:
        raise Machinery(f"the reference laws fail on the model ({res.violated}): specification error\n" + "\n".join(res.error_trace[:60]))
    if res.coverage.get("ScanS", 0) == 0:
        raise Machinery("vacuous model check: the s axis was not scanned")

    # 5. binding demonstration: corrupted logs must be rejected with the right clause
    if tier == "thorough" and not replay:
        demo_binding(chk, pt_recs, thr_recs, cs_recs)

    chk.cov["rule"] = (
        "lattice points (s, m1, m2): integer s in -20..60 x 8 integer mass pairs incl. swaps (thorough: s in steps of 1/4 and 7 rational "
        "mass pairs, exact threshold and pseudo-threshold points), each evaluated for q^2 (both mass orders) and all five variants; "
        "one-sided approaches s_thr +- 10^-k, k = 3..9; ComplexSqrt through the numpy / pycode printers at 20 rationals x 3-5 input types; "
        "lambdified variants (float64, complex128) at the lattice points. distinct non-trivial = distinct point (per family) at which the "
        "implementation returned a defined value (s = 0 and NaN results are observations, not counted)"
    )
    chk.cov["explanation"] = (
        "Sentences 1, 2, 4: TLC computes the expected square/quadrant exactly and compares with the implementation's exact value (level "
        "model_checking: exhaustive on the lattice, reference laws model-checked). Sentence 3 and the lambdify family are observation laws "
        "over values the implementation computes itself (50-digit evalf rounded to 1e-12; doubles), TLC evaluates the law and the bounds."
    )
    chk.cov["exhaustive"] = True


def demo_binding(chk, pt_recs, thr_recs, cs_recs):
    """Corrupt one logged field at a time; the trace spec must reject with the named clause."""

    def find(pred):
        for r in pt_recs:
            if pred(r):
                return copy.deepcopy(r)
        raise Machinery("binding demonstration: no suitable record")

    cases = []
    a = find(lambda r: r["s"] == [20, 1] and r["m1"] == [1, 1] and r["m2"] == [2, 1])
    a["PhaseSpaceFactor"]["quad"] = "nr"
    cases.append(("AboveThreshold", a))
    b = find(lambda r: r["s"] == [20, 1] and r["m1"] == [2, 1] and r["m2"] == [3, 1])
    b["q2"]["v"] = [b["q2"]["v"][0] + 1, b["q2"]["v"][1]]
    cases.append(("Q2Value", b))
    c = find(lambda r: r["s"] == [30, 1] and r["m1"] == [1, 1] and r["m2"] == [1, 1])
    c["PhaseSpaceFactorSWave"]["re"][0][0] = (c["PhaseSpaceFactorSWave"]["re"][0][0] + 7) % 1000
    cases.append(("AboveThreshold", c))
    d = find(lambda r: r["s"] == [5, 1] and r["m1"] == [1, 1] and r["m2"] == [2, 1])
    d["PhaseSpaceFactorAbs"]["quad"] = "pi"
    cases.append(("Between", d))
    e = find(lambda r: r["s"] == [2, 1] and r["m1"] == [3, 1] and r["m2"] == [3, 1])
    e["EqualMassPhaseSpaceFactor"]["im"][0][1] = (e["EqualMassPhaseSpaceFactor"]["im"][0][1] + 1) % 1000
    cases.append(("EqualMassVsChewMandelstam", e))
    f = copy.deepcopy(next(r for r in thr_recs if r["k"] == "thr" and r["kexp"] == 9 and r["side"] > 0))
    f["sw"]["re"] = [[0, 0, 0, 1], []]  # 1e-3 away from the threshold value at eps = 1e-9
    cases.append(("ContinuityAtThreshold", f))
    g = copy.deepcopy(next(r for r in cs_recs if r["printer"] == "numpy" and r["x"] == [-4, 1]))
    g["o"]["im"] = [g["o"]["im"][1], g["o"]["im"][0]]  # -2i instead of +2i
    cases.append(("ComplexSqrtPrinting", g))
    recs = []
    for i, (_, r) in enumerate(cases):
        r["id"] = i
        recs.append(r)
    tv = trace.validate("Trace_C11", recs, timeout=600)
    got = {}
    for rej in tv.rejects:
        got.setdefault(rej[1], set()).add(rej[0])
    missing = [(i, want) for i, (want, _) in enumerate(cases) if want not in got.get(i, set())]
    if missing:
        raise Machinery(f"binding demonstration failed: corrupted records not rejected by the expected clause: {missing}; got {got}")
    chk.part("binding_demonstration", corrupted=len(cases), rejected_by={str(i): sorted(v) for i, v in got.items()})
