"""Reactions (real qrules reactions, cached; synthetic hand-built ReactionInfo objects) and
projection of HelicityModel objects to the abstract structures of spec/Amplitude.tla."""
from __future__ import annotations

import hashlib
import itertools
import json
import logging
import pickle
import re
from fractions import Fraction as F
from pathlib import Path

import sympy as sp

from . import topo

CACHE = Path(__file__).resolve().parents[2] / ".cache" / "reactions"
NONE = -99  # sentinel for "not given" (JSON null is not used in traces)


# ---- real reactions (depend on qrules only, never on /repo: cached) -----------------------------
REAL = {
    "jpsi_gpp_f0": dict(initial_state=[("J/psi(1S)", [-1, 1])], final_state=["gamma", "pi0", "pi0"], allowed_intermediate_particles=["f(0)(980)", "f(0)(1500)"], allowed_interaction_types=["strong", "EM"]),
    "jpsi_gpp_f2": dict(initial_state=[("J/psi(1S)", [1])], final_state=["gamma", "pi0", "pi0"], allowed_intermediate_particles=["f(2)(1270)"], allowed_interaction_types=["strong", "EM"]),
    "jpsi_gpp_omega": dict(initial_state=[("J/psi(1S)", [1])], final_state=["gamma", "pi0", "pi0"], allowed_intermediate_particles=["omega(782)"], allowed_interaction_types=["strong", "EM"]),
    "jpsi_gpp_omega_all": dict(initial_state="J/psi(1S)", final_state=["gamma", "pi0", "pi0"], allowed_intermediate_particles=["omega(782)"], allowed_interaction_types=["strong", "EM"]),
    "jpsi_3pi_rho0": dict(initial_state="J/psi(1S)", final_state=["pi0", "pi+", "pi-"], allowed_intermediate_particles=["rho(770)0"], allowed_interaction_types="strong"),
    "jpsi_3pi_rho": dict(initial_state="J/psi(1S)", final_state=["pi0", "pi+", "pi-"], allowed_intermediate_particles=["rho(770)"], allowed_interaction_types="strong"),
    "jpsi_ksp_sigma": dict(initial_state="J/psi(1S)", final_state=["K0", "Sigma+", "p~"], allowed_intermediate_particles=["Sigma(1660)"], allowed_interaction_types="strong"),
    "jpsi_ksp_two": dict(initial_state="J/psi(1S)", final_state=["K0", "Sigma+", "p~"], allowed_intermediate_particles=["Sigma(1660)", "N(1650)"], allowed_interaction_types="strong"),
    "etac_lambdas": dict(initial_state="eta(c)(1S)", final_state=["Lambda", "Lambda~"], allowed_interaction_types="strong"),
    "lc_pkpi": dict(initial_state="Lambda(c)+", final_state=["p", "K-", "pi+"], allowed_intermediate_particles=["Lambda(1405)", "Delta(1232)++"], allowed_interaction_types=["strong", "EM", "weak"]),
    "d0_kskk": dict(initial_state="D0", final_state=["K~0", "K+", "K-"], allowed_intermediate_particles=["a(0)(980)", "phi(1020)"], allowed_interaction_types=["strong", "EM", "weak"]),
    "psi2s_ggjpsi": dict(initial_state=[("psi(2S)", [1])], final_state=["gamma", "gamma", "J/psi(1S)"], allowed_intermediate_particles=["chi(c1)(1P)"], allowed_interaction_types=["em"]),
    "psi2s_ggjpsi_all": dict(initial_state="psi(2S)", final_state=["gamma", "gamma", "J/psi(1S)"], allowed_intermediate_particles=["chi(c1)(1P)"], allowed_interaction_types=["em"]),
    "jpsi_4body": dict(initial_state=[("J/psi(1S)", [1])], final_state=["gamma", "pi0", "pi0", "pi0"], allowed_intermediate_particles=["omega(782)", "f(0)(980)"], allowed_interaction_types=["strong", "EM"]),
}


def real_reaction(name: str, formalism: str):
    CACHE.mkdir(parents=True, exist_ok=True)
    f = CACHE / f"{name}__{formalism}.pkl"
    if f.exists():
        try:
            return pickle.loads(f.read_bytes())
        except Exception:  # noqa: BLE001
            f.unlink()
    import qrules

    lvl = logging.root.manager.disable
    logging.disable(logging.CRITICAL)
    try:
        r = qrules.generate_transitions(**REAL[name], formalism=formalism)
    finally:
        logging.disable(lvl)
    tmp = f.with_suffix(".tmp")
    tmp.write_bytes(pickle.dumps(r))
    tmp.replace(f)
    return r


# ---- synthetic reactions ------------------------------------------------------------------------------
def make_particle(name, spin2, parity=1, mass=1.0, pid=None):
    from qrules.particle import Particle

    return Particle(name=name, pid=pid if pid is not None else abs(hash(name)) % 10**6 + 100, spin=F(spin2, 2), mass=mass, width=0.1 if name.startswith("R") else 0.0, parity=parity)


def make_reaction(spec: dict):
    """spec = {"formalism", "particles": {pname: {"spin2","parity","mass"}},
               "transitions": [{"topology": <qrules Topology>, "states": {eid: [pname, hel2]},
                                 "nodes": {nid: {"L2","S2","eta"}}}]}"""
    from qrules.quantum_numbers import InteractionProperties
    from qrules.topology import FrozenTransition
    from qrules.transition import ReactionInfo, State

    parts = {n: make_particle(n, d["spin2"], d.get("parity", 1), d.get("mass", 1.0), pid=100 + i) for i, (n, d) in enumerate(spec["particles"].items())}
    trs = []
    if spec.get("meta", {}).get("reverse_nodes"):
        # a hand-built reaction need not number its interaction nodes from the production node on: node ids reversed
        from qrules.topology import Edge, Topology

        tops = {}
        transitions = []
        for t in spec["transitions"]:
            top = t["topology"]
            if id(top) not in tops:
                ns = sorted(top.nodes)
                perm = dict(zip(ns, reversed(ns)))
                tops[id(top)] = (Topology(nodes=frozenset(perm.values()), edges={e: Edge(None if ed.originating_node_id is None else perm[ed.originating_node_id],
                                                                                     None if ed.ending_node_id is None else perm[ed.ending_node_id]) for e, ed in top.edges.items()}), perm)
            new_top, perm = tops[id(top)]
            transitions.append({"topology": new_top, "states": t["states"], "nodes": {perm[int(n)]: nd for n, nd in t["nodes"].items()}})
        spec = {**spec, "transitions": transitions}
    for t in spec["transitions"]:
        states = {int(e): State(parts[p], F(h2, 2)) for e, (p, h2) in t["states"].items()}
        inter = {}
        for nid, nd in t["nodes"].items():
            proj = {}
            if spec["formalism"].startswith("canonical") and nd.get("L2", NONE) != NONE:
                # as qrules' solver provides them (clebsch_gordan_helicity_to_canonical): L has projection 0 and the
                # coupled spin the helicity difference of the outgoing edges taken in EDGE-ID order
                out = sorted(e for e, ed in t["topology"].edges.items() if ed.originating_node_id == int(nid))
                proj = {"l_projection": 0, "s_projection": states[out[0]].spin_projection - states[out[1]].spin_projection}
            inter[int(nid)] = InteractionProperties(
                l_magnitude=None if nd.get("L2", NONE) == NONE else nd["L2"] // 2,
                s_magnitude=None if nd.get("S2", NONE) == NONE else F(nd["S2"], 2),
                parity_prefactor=None if nd.get("eta", 0) == 0 else float(nd["eta"]),
                **proj,
            )
        trs.append(FrozenTransition(t["topology"], states, inter))
    return ReactionInfo(trs, formalism=spec["formalism"])


# ---- abstraction of transitions ---------------------------------------------------------------------------
def abstract_transition(tr) -> dict:
    t = tr.topology
    edges = []
    for eid, st in sorted(tr.states.items()):
        edges.append({
            "set": list(topo.attached(t, eid)), "hel2": int(2 * F(st.spin_projection)), "spin2": int(2 * F(st.particle.spin)),
            "part": st.particle.name, "eid": eid, "parity": NONE if st.particle.parity is None else int(st.particle.parity),
        })
    nodes = []
    for n in sorted(t.nodes):
        pe = next(k for k, e in t.edges.items() if e.ending_node_id == n)
        ip = tr.interactions[n]
        nodes.append({
            "parent": list(topo.attached(t, pe)),
            "L2": NONE if ip.l_magnitude is None else int(2 * F(ip.l_magnitude)),
            "S2": NONE if ip.s_magnitude is None else int(2 * F(ip.s_magnitude)),
            "eta": 0 if ip.parity_prefactor is None else int(ip.parity_prefactor),
        })
    return {"edges": edges, "nodes": nodes}


def abstract_reaction(reaction) -> dict:
    return {"canonical": int(reaction.formalism.startswith("canonical")), "trs": [abstract_transition(t) for t in reaction.transitions]}


# ---- projection of expressions ------------------------------------------------------------------------------
def sym_tag(s) -> str:
    """Symbol identity = name + the assumptions that were set explicitly."""
    a = getattr(s, "_assumptions_orig", None)
    if a is None:
        a = {k: v for k, v in s.assumptions0.items() if k in ("real", "nonnegative", "positive", "complex", "rational", "integer")}
    flags = ",".join(f"{k}={'T' if v else 'F'}" for k, v in sorted(a.items()) if k != "commutative")
    return f"{s.name}|{flags}"


def parse_suffix(name: str):
    """'phi_1^12,123' -> [[1],[1,2],[1,2,3]]"""
    return topo.parse_name(name)[1]


class AmpProjectionError(Exception):
    pass


def project_term(term) -> dict:
    """One chain: a flat product of coefficient symbols, WignerD, CG and dynamics factors."""
    from sympy.physics.quantum.cg import CG
    from sympy.physics.quantum.spin import WignerD

    coef, rest = term.as_coeff_Mul()
    if not coef.is_Rational:
        raise AmpProjectionError(f"numeric prefactor {coef}")
    Ds, CGs, syms, dyn = [], [], [], []
    factors = []
    for f in sp.Mul.make_args(rest):
        # equal factors are merged by Mul into a power: CG(...)**2
        if isinstance(f, sp.Pow) and isinstance(f.args[0], (WignerD, CG)) and f.args[1].is_Integer and f.args[1] > 0:
            factors += [f.args[0]] * int(f.args[1])
        else:
            factors.append(f)
    for f in factors:
        if isinstance(f, WignerD):
            j, m, mp, a, b, g = f.args
            asign = -1
            phi = -a
            if a.is_Symbol:
                phi, asign = a, 1
            if not (phi.is_Symbol and phi.name.startswith("phi_")) or not (b.is_Symbol and b.name == "theta" + phi.name[3:]):
                raise AmpProjectionError(f"WignerD arguments {f.args}")
            # [J2, m2, m'2, angle name, sign of the phi argument (-1 = conjugate D), gamma is zero]
            Ds.append([int(2 * j), int(2 * m), int(2 * mp), parse_suffix(phi.name), asign, int(g == 0)])
        elif isinstance(f, CG):
            CGs.append([int(2 * x) for x in f.args])
        elif f.is_Symbol:
            syms.append(f.name)
        elif isinstance(f, sp.Pow) and f.args[0].is_Symbol:
            raise AmpProjectionError(f"power of a symbol in a chain: {f}")
        else:
            dyn.append(f)
    return {"sign_num": int(coef.p), "sign_den": int(coef.q), "D": Ds, "CG": CGs, "coef": sorted(syms), "dyn": dyn}


def project_amplitudes(model) -> list[dict]:
    out = []
    for key, expr in model.amplitudes.items():
        base = str(key.base)
        m = re.fullmatch(r"A\^(.*)", base)
        topid = [[int(c) for c in g] for g in m.group(1).split(",")] if m and m.group(1) else []
        hel2 = [int(2 * sp.Rational(i)) for i in key.indices]
        terms = [] if expr == 0 else [project_term(t) for t in sp.Add.make_args(expr)]
        out.append({"top": topid, "hel2": hel2, "terms": terms, "zero": int(expr == 0)})
    return out


def digest(obj) -> str:
    return hashlib.sha256(json.dumps(obj, sort_keys=True, default=str).encode()).hexdigest()[:16]
