"""Numeric observation layer: phase-space events, rotations, an independent
boost-and-rotate evaluation of Dir(S, frame)/Mass(S) (spec/Topo.tla meanings), and
two-stage evaluation of HelicityModels.  numpy only; nothing here imports ampform's
kinematics, so that it is an independent route."""
from __future__ import annotations

import numpy as np
import sympy as sp


# ---- events ------------------------------------------------------------------------------
def _two_body(M, m1, m2, rng):
    n = len(M)
    lam = (M**2 - (m1 + m2) ** 2) * (M**2 - (m1 - m2) ** 2)
    q = np.sqrt(np.maximum(lam, 0)) / (2 * M)
    ct = rng.uniform(-1, 1, n)
    ph = rng.uniform(-np.pi, np.pi, n)
    st = np.sqrt(1 - ct**2)
    p = np.stack([q * st * np.cos(ph), q * st * np.sin(ph), q * ct], 1)
    return np.column_stack([np.sqrt(m1**2 + q**2), p]), np.column_stack([np.sqrt(m2**2 + q**2), -p])


def boost_from_rest(p, frame):
    """p is given in the rest frame of `frame`; return it in the frame where `frame` has its momentum."""
    m = np.sqrt(np.maximum(frame[:, 0] ** 2 - (frame[:, 1:] ** 2).sum(1), 0))
    b = frame[:, 1:] / frame[:, [0]]
    g = frame[:, 0] / m
    bp = (b * p[:, 1:]).sum(1)
    b2 = (b**2).sum(1)
    k = np.where(b2 > 0, (g - 1) / np.where(b2 > 0, b2, 1), 0)
    E = g * (p[:, 0] + bp)
    v = p[:, 1:] + (k * bp + g * p[:, 0])[:, None] * b
    return np.column_stack([E, v])


def gen_events(tree, masses: dict[int, float], M: float, n: int, rng, near_threshold=False):
    """Events for the isobar tree (list of id-tuples, the laminar family) in the rest frame of
    the root: recursive two-body decays with intermediate masses drawn uniformly."""
    sets = [frozenset(s) for s in tree]
    root = max(sets, key=len)

    def kids(S):
        sub = [c for c in sets if c < S]
        return [c for c in sub if not any(c < d for d in sub)]

    def min_mass(S):
        return sum(masses[i] for i in S)

    out = {}

    def decay(S, p4, mS):
        if len(S) == 1:
            (i,) = S
            out[i] = p4
            return
        a, b = kids(S)
        lo_a, lo_b = min_mass(a), min_mass(b)
        free = mS - lo_a - lo_b
        u = rng.uniform(0, 1, (n, 2))
        if near_threshold:
            u = u * 1e-3
        # split the free energy between the two children (only for those that decay further)
        fa = u[:, 0] if len(a) > 1 else np.zeros(n)
        fb = (1 - fa) * u[:, 1] if len(b) > 1 else np.zeros(n)
        ma = lo_a + free * fa * 0.999
        mb = lo_b + free * fb * 0.999
        pa, pb = _two_body(mS, ma, mb, rng)
        decay(a, boost_from_rest(pa, p4), ma)
        decay(b, boost_from_rest(pb, p4), mb)

    rest = np.column_stack([np.full(n, M), np.zeros((n, 3))])
    decay(root, rest, np.full(n, float(M)))
    return out


def random_rotation(rng):
    q = rng.normal(size=4)
    q /= np.linalg.norm(q)
    a, b, c, d = q
    return np.array([
        [a * a + b * b - c * c - d * d, 2 * (b * c - a * d), 2 * (b * d + a * c)],
        [2 * (b * c + a * d), a * a - b * b + c * c - d * d, 2 * (c * d - a * b)],
        [2 * (b * d - a * c), 2 * (c * d + a * b), a * a - b * b - c * c + d * d],
    ])


def cube_rotations():
    """The 24 proper rotations of the cube as signed permutation matrices."""
    import itertools

    out = []
    for perm in itertools.permutations(range(3)):
        for signs in itertools.product((1, -1), repeat=3):
            R = np.zeros((3, 3))
            for i, (j, s) in enumerate(zip(perm, signs)):
                R[i, j] = s
            if round(np.linalg.det(R)) == 1:
                out.append(R)
    return out


def rotate(P: dict, R):
    return {i: np.column_stack([p[:, 0], p[:, 1:] @ R.T]) for i, p in P.items()}


def boost_all(P: dict, beta_vec):
    """Boost every momentum with velocity beta_vec (3-vector)."""
    b = np.asarray(beta_vec, float)
    b2 = b @ b
    g = 1 / np.sqrt(1 - b2)
    out = {}
    for i, p in P.items():
        bp = p[:, 1:] @ b
        E = g * (p[:, 0] + bp)
        v = p[:, 1:] + (((g - 1) / b2 if b2 > 0 else 0) * bp + g * p[:, 0])[:, None] * b
        out[i] = np.column_stack([E, v])
    return out


# ---- independent evaluation of the meanings of spec/Topo.tla --------------------------------
def _helicity_frame(P: dict, Q):
    """Transform all momenta into the helicity frame of subsystem Q: Bz Ry(-theta) Rz(-phi)."""
    q = sum(P[i] for i in Q)
    qx, qy, qz = q[:, 1], q[:, 2], q[:, 3]
    norm = np.sqrt(qx**2 + qy**2 + qz**2)
    phi = np.arctan2(qy, qx)
    theta = np.arccos(np.clip(qz / norm, -1, 1))
    beta = norm / q[:, 0]
    gamma = 1 / np.sqrt(1 - beta**2)
    out = {}
    for i, p in P.items():
        E, x, y, z = p[:, 0], p[:, 1], p[:, 2], p[:, 3]
        x1 = x * np.cos(phi) + y * np.sin(phi)
        y1 = -x * np.sin(phi) + y * np.cos(phi)
        x2 = x1 * np.cos(theta) - z * np.sin(theta)
        z2 = x1 * np.sin(theta) + z * np.cos(theta)
        E3 = gamma * (E - beta * z2)
        z3 = gamma * (z2 - beta * E)
        out[i] = np.column_stack([E3, x2, y1, z3])
    return out


def dir_angles(P: dict, target, frame_inner_first):
    """(theta, phi) of sum_{i in target} p_i after the chain of helicity frames; `frame` is
    listed innermost first as in Topo!Frame, i.e. applied in reverse order."""
    cur = P
    for Q in reversed(list(frame_inner_first)):
        cur = _helicity_frame(cur, Q)
    p = sum(cur[i] for i in target)
    norm = np.sqrt((p[:, 1:] ** 2).sum(1))
    theta = np.arccos(np.clip(p[:, 3] / norm, -1, 1))
    phi = np.arctan2(p[:, 2], p[:, 1])
    return theta, phi


def inv_mass(P: dict, S):
    p = sum(P[i] for i in S)
    return np.sqrt(np.maximum(p[:, 0] ** 2 - (p[:, 1:] ** 2).sum(1), 0))


def angle_diff(a, b):
    d = np.abs(a - b) % (2 * np.pi)
    return np.minimum(d, 2 * np.pi - d)


# ---- lambdified library expressions ---------------------------------------------------------------
def lambdify_kin(expr, cse=True):
    e = expr.doit()
    syms = sorted(e.free_symbols, key=str)
    f = sp.lambdify(syms, e, "numpy", cse=cse)
    return syms, f


def eval_kin(expr, P: dict, cse=True):
    syms, f = lambdify_kin(expr, cse)
    args = []
    for s in syms:
        name = str(s)
        if not name.startswith("p"):
            raise ValueError(f"kinematic variable depends on non-momentum symbol {s}")
        args.append(P[int(name[1:])])
    with np.errstate(all="ignore"):
        return np.asarray(f(*args))


# ---- two-stage evaluation of a HelicityModel on four-momenta ----------------------------------------
class ModelEvaluator:
    """intensity(P) for a HelicityModel: kinematic variables are lambdified on the momenta,
    every amplitude definition on (kinematic variables), and the unfolded intensity on
    placeholders for the amplitude symbols plus the alignment angles.  (The flat
    model.expression of an aligned spinful model is far too large to lambdify.)"""

    def __init__(self, model, params: dict | None = None, cse=True):
        self.model = model
        pars = dict(model.parameter_defaults)
        if params:
            pars.update(params)
        self.pars = pars
        self.kin = {}
        for s, e in model.kinematic_variables.items():
            e = e.xreplace(pars).doit()
            ps = sorted(e.free_symbols, key=str)
            self.kin[s] = (ps, sp.lambdify(ps, e, "numpy", cse=cse))
        self.amps = {}
        for a, e in model.amplitudes.items():
            e = e.xreplace(pars).doit()
            fs = sorted(e.free_symbols, key=str)
            self.amps[a] = (fs, sp.lambdify(fs, e, "numpy", cse=cse))
        inten = model.intensity.xreplace(pars).doit()
        atoms = sorted(inten.atoms(sp.Indexed), key=str)
        self.place = {a: sp.Dummy(f"A{i}") for i, a in enumerate(atoms)}
        inten = inten.xreplace(self.place)
        self.int_syms = sorted(inten.free_symbols, key=str)
        self.f = sp.lambdify(self.int_syms, inten, "numpy", cse=cse)
        self.undefined = [a for a in atoms if a not in model.amplitudes]

    def kinematics(self, P):
        n = len(next(iter(P.values())))
        vals = {}
        with np.errstate(all="ignore"):
            for s, (ps, f) in self.kin.items():
                v = f(*[P[int(str(x)[1:])] for x in ps])
                vals[s] = np.broadcast_to(np.asarray(v), (n,)) if np.ndim(v) == 0 else np.asarray(v)
        return vals

    def __call__(self, P):
        n = len(next(iter(P.values())))
        kv = self.kinematics(P)
        byplace = {}
        with np.errstate(all="ignore"):
            for a, d in self.place.items():
                if a not in self.amps:
                    raise KeyError(f"intensity uses undefined amplitude {a}")
                fs, f = self.amps[a]
                v = f(*[kv[s] for s in fs])
                byplace[d] = np.broadcast_to(np.asarray(v, dtype=complex), (n,))
            args = [byplace[s] if s in byplace else kv[s] for s in self.int_syms]
            out = self.f(*args)
        return np.real(np.broadcast_to(np.asarray(out), (n,)))


def random_couplings(model, rng):
    out = {}
    for k, v in model.parameter_defaults.items():
        if k.name.startswith(("C_", "H_")):
            out[k] = complex(rng.uniform(0.3, 1.5) * np.exp(1j * rng.uniform(0, 2 * np.pi)))
    return out
