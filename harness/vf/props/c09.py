"""C09 — K-matrix amplitudes are unitary and symmetric.

spec/KMatrixLaw.tla   Gaussian-rational matrix algebra and the laws (no inverse)
spec/KMatrixRef.tla   (a) TLC computes T by Cramer's rule on the whole lattice, n <= 2, and
                          checks every law as an invariant (+ deviation sensitivity)
spec/Trace_KMatrix.tla (b) the IMPLEMENTATION's exact T^, T at every lattice point
                          (parametrize=False skeleton, SymPy Rationals substituted),
                      (c) pole parametrisations projected to bags of factors, expected bag
                          computed in TLA+; formulate = skeleton o parametrisation,
                      (d) observation law on the fully parametrised T at seeded real points."""
from __future__ import annotations

import multiprocessing as mp
import random
import time
from concurrent.futures import ProcessPoolExecutor, ThreadPoolExecutor

from .. import kmatrix_common as kc
from .. import tlc, trace
from ..core import Machinery

LEVEL = "model_checking"
META = {
    "technique": "TLA+ modules KMatrixLaw/KMatrixLattice (Gaussian-rational matrix arithmetic, laws without inverse) "
    "model-checked exhaustively with TLC on a reference computed by Cramer's rule (KMatrixRef, all real symmetric K and "
    "positive rho of the lattice, n<=2); the implementation's exact T-hat/T matrices (parametrize=False skeleton with SymPy "
    "Rationals substituted) logged per lattice point and judged by TLC in Trace_KMatrix, which decodes the lattice point "
    "itself; pole parametrisations projected to factor bags with the expected bag computed in TLA+; quantised 30-digit "
    "observations of the fully parametrised T judged by a TLA+ law",
    "text": "Exhaustive TLC evaluation of unitarity (1+2iT)^dagger(1+2iT)=1 and symmetry T=T^T, in exact integer arithmetic, on "
    "the matrices the library itself builds, at every point of a lattice of real symmetric K and positive rho for 1-2 "
    "channels (sampled for 3), bound to the code by trace validation with the lattice point decoded in the specification; "
    "the parametrisation layer (which K_ij gets which residues, widths and channel masses) is checked as terms against "
    "the structure the specification computes. A quantifier over all K/rho/index combinations no unit test samples.",
    "note": "Trusted: TLC/SANY, SymPy's exact rational arithmetic and xreplace, the projection code (exercised by the "
    "corruption demonstration). Bounds: K entries in {-1,0,1/2,1,2}, rho in {1/4,1,4,9/25} (+ three sub-threshold values "
    "for the sqrt(rho)* mechanism law only), n_channels<=2 exhaustive, 3 sampled (thorough), points whose common "
    "denominator exceeds 18000 are outside the 32-bit budget and only cross-checked against the reference. The clause "
    "'at every real parameter point' of the fully parametrised T is an observation law (kind N): 30-digit evaluation of the "
    "library's expression at seeded points; the main family keeps pole masses above all thresholds, a dedicated family puts a pole "
    "mass below the threshold of one of its channels (finding RelativisticKMatrix:unitarity:pole-mass-below-a-channel-threshold); "
    "TLC judges the quantised residuals only.",
    "design_ref": "DESIGN.md §4 C09",
}

REF_CFG = """SPECIFICATION Spec
CONSTANTS
 MaxN = 2
 Dev = "{dev}"
 WithP = {withp}
{invs}CHECK_DEADLOCK FALSE
"""
REF_INVS = ["TypeOK", "AllLaws"]
REF_LAWS = ["RelThatLaw", "RelTLaw", "NonRelLaw", "RelIsNonRelOfScaledK", "RelSymmetric", "NonRelSymmetric", "RelUnitary",
            "NonRelUnitary", "UnitaryFormsAgree", "NonRelFLaw", "FViaT", "RelFhatLaw", "RelFLaw", "FrelClosed"]

MACHINERY_CLAUSES = {"lattice-point", "order", "K-logged", "rho-logged", "P-logged", "budget", "class", "record-kind",
                     "run-open", "run-complete", "run-closed", "param-args", "pparam-args", "spec-symmetric", "obs-precondition", "obsb-precondition"}
MECHANISM = {"That(1-i.rho.K)=K", "T=sqrt(rho)*.That.sqrt(rho)", "T(1-iK)=K"}


def ref_cfg(dev="None", invs=REF_INVS, withp=False):
    return REF_CFG.format(dev=dev, withp="TRUE" if withp else "FALSE", invs="".join(f"INVARIANT {i}\n" for i in invs))


def run_reference(chk, workers, withp=False):
    res = tlc.run("KMatrixRef", ref_cfg(withp=withp), workers=workers, fast_start=False, timeout=1500, heap="4g")
    if not res.ok:
        named = [p for p in res.prints if isinstance(p, tuple) and p and p[0] == "LAW-VIOLATED"]
        raise Machinery(f"the reference solution violates {res.violated} {named[:2]} on the lattice: specification error\n" + "\n".join(res.error_trace[:60]))
    # vacuity: the walk must have visited every lattice point (n <= 2) with each of the 3 production vectors
    expected = sum(kc.cls_size("RelK", n) * (kc.NP if withp else 1) for n in (1, 2))
    if res.distinct != expected:
        raise Machinery(f"reference model check visited {res.distinct} states, the lattice has {expected}")
    return res


def run_sensitivity():
    """each named deviation of the reference must break unitarity / symmetry in the model"""
    out = {}
    for dev, invs in (("KRhoOrder", ["RelSymmetric"]), ("RhoNotSqrt", ["RelUnitary"])):
        r = tlc.run("KMatrixRef", ref_cfg(dev, invs), workers=2, timeout=600, heap="2g")
        if r.ok:
            raise Machinery(f"laws insensitive: deviation {dev} does not violate {invs} on the lattice")
        out[dev] = r.violated
    return out


# ---- lattice evaluation -----------------------------------------------------------------------
def chunks(lo, hi, k):
    step = max(1, (hi - lo + k - 1) // k)
    return [(a, min(hi, a + step)) for a in range(lo, hi, step)]


def below_points(n, rng, count):
    """sub-threshold points: at least one purely imaginary rho (mechanism law only)"""
    pts = []
    if n == 1:
        for r in (5, 6, 7):
            for o in range(kc.NK):
                pts.append((o, [r]))
    else:
        while len(pts) < count:
            rx = [rng.randint(1, 7) for _ in range(n)]
            if all(r <= kc.NRHO for r in rx):
                continue
            pts.append((rng.randrange(kc.NK ** kc.tri(n)), rx))
    return pts


def lattice_jobs(tags, tier, rng, n3_points):
    """work units (tag, n, name, flag, points) and the plan of runs / samples"""
    jobs, plan = [], []
    for tag in tags:
        for n in (1, 2):
            size = kc.cls_size(tag, n)
            parts = chunks(0, size, 6 if size > 500 else 1)
            for lo, hi in parts:
                pts = [(o, None) for o in range(lo, hi)]
                plan.append(("run", tag, n, lo, hi))
                for name, flag in kc.MATS[tag]:
                    jobs.append((tag, n, name, flag, pts))
            if tag in ("RelK", "RelP"):
                pts = below_points(n, rng, 12 if tier == "quick" else 150)
                plan.append(("below", tag, n, pts))
                for name, flag in kc.MATS[tag]:
                    jobs.append((tag, n, name, flag, pts))
        if tier == "thorough" and n3_points.get(tag):
            pts = [(o, None) for o in n3_points[tag]]
            plan.append(("sample", tag, 3, pts))
            for name, flag in kc.MATS[tag]:
                jobs.append((tag, 3, name, flag, pts))
    return jobs, plan


def select_n3(tag, rng, want):
    """ordinals of n = 3 lattice points whose reference T fits the integer budget"""
    out, tried = [], 0
    size = kc.cls_size(tag, 3)
    while len(out) < want and tried < want * 20:
        tried += 1
        o = rng.randrange(size)
        kx, rx, px = kc.decode(tag, 3, o)
        if not kc.nontrivial_point(3, kx):
            continue
        Kv, _, sqv, _ = kc.point_values(3, kx, rx, px)
        if kc.ref_T_den(Kv, sqv if tag == "RelK" else [1, 1, 1]) <= kc.CMAX:
            out.append(o)
    return sorted(set(out))


def build_skel_records(results, plan):
    """merge worker outputs (one per matrix name) into records, in plan order"""
    table = {}
    for r in results:
        for (o, sub), (rows, used, err) in zip(r["points"], r["out"]):
            key = (r["tag"], r["n"], o, tuple(sub) if sub else None)
            table.setdefault(key, {})[r["name"]] = (rows, used, err)
    recs, errors = [], []

    def one(tag, n, o, fam, sub):
        ent = table[(tag, n, o, tuple(sub) if sub else None)]
        bad = [(nm, e) for nm, (rows, used, e) in ent.items() if e]
        if bad:
            errors.append((tag, n, o, sub, bad))
            return None
        vals = {nm: rows for nm, (rows, used, e) in ent.items()}
        used = next(iter(ent.values()))[1]
        return kc.assemble_skel(tag, n, o, fam, sub, vals, used) or "skip"

    for item in plan:
        if item[0] == "run":
            _, tag, n, lo, hi = item
            recs.append({"k": "run", "cls": tag, "n": n, "from": lo, "to": hi})
            for o in range(lo, hi):
                r = one(tag, n, o, "x", None)
                if r is None:  # keep the run well-formed: an undefined point is reported separately
                    recs.pop()
                    recs.append({"k": "run", "cls": tag, "n": n, "from": lo, "to": lo})
                    break
                recs.append(r)
            recs.append({"k": "endrun", "from": lo})
        else:
            _, tag, n, pts = item
            for o, sub in pts:
                r = one(tag, n, o, "s", sub)
                if r is not None and r != "skip":
                    if r["oob"] == 1 and n > 2:
                        continue  # sampled point whose T^ (not T) exceeds the integer budget: not used
                    recs.append(r)
    return recs, errors


def check_runs(tv, tags, exhaustive_n=(1, 2)):
    """the runs TLC accepted tile every lattice completely"""
    runs = {}
    for p in tv.res.prints:
        if isinstance(p, tuple) and p and p[0] == "RUN":
            _, cls, n, lo, hi, size = p
            runs.setdefault((cls, n), []).append((lo, hi, size))
    complete = {}
    for tag in tags:
        for n in exhaustive_n:
            segs = sorted(runs.get((tag, n), []))
            pos = 0
            for lo, hi, size in segs:
                if lo != pos:
                    break
                pos = hi
            complete[f"{tag}/n={n}"] = bool(segs) and pos == segs[0][2] == kc.cls_size(tag, n)
    return complete


def full_name(tag):
    return kc.CLS[tag]


def handle_skel_rejects(chk, tv, recs_by_id, prop_laws):
    """classify the rejections of skeleton records; prop_laws: clauses that are part of the
    property as stated (others are mechanism laws -> SPEC-DRIFT when unitarity/symmetry hold)"""
    by_rec = {}
    for rej in tv.rejects:
        by_rec.setdefault(rej[1], []).append(rej)
    for rid, rejs in sorted(by_rec.items()):
        rec = recs_by_id.get(rid)
        names = {r[0] for r in rejs}
        if rec is None or rec.get("k") != "skel":
            continue
        if names & MACHINERY_CLAUSES:
            raise Machinery(f"driver and specification disagree on record {rid}: {sorted(names)} {rejs[0][2:]}\n{str(rec)[:600]}")
        where = f"{full_name(rec['cls'])}.formulate(parametrize=False)"
        case = {"kind": "skel", "cls": rec["cls"], "n": rec["n"], "ord": rec["ord"], "sub_rx": rec["rx"] if rec["sub"] else None}
        pt = f"n_channels={rec['n']} K={rec['K']} rho={rec.get('rho')} (lattice ordinal {rec['ord']})"
        if rec["sub"] == 1:
            chk.spec_drift(f"{where}: below threshold (imaginary rho) the skeleton leaves the mechanism laws {sorted(names)} at {pt}; "
                           "outside the property's domain, reported only")
            continue
        hit = names & prop_laws
        if hit:
            for c in sorted(hit):
                chk.violation(f"{where}:{c}:n_channels={rec['n']}",
                              f"TLC rejects clause '{c}' on the implementation's exact matrices at {pt}: "
                              + ", ".join(f"{k}={rec[k]}" for k in ("That", "T", "Fhat", "F", "P") if k in rec), case)
        elif "shape" in names:
            chk.violation(f"{where}:result-shape:n_channels={rec['n']}", f"result has the wrong shape at {pt}", case)
        elif "oob-claim" in names:
            continue  # handled by the caller (exact adjudication)
        else:
            chk.spec_drift(f"{where}: T differs from the documented K(1-i rho K)^-1 form ({sorted(names)}) at {pt} but is unitary and symmetric")


def run(chk, replay=None):
    tier = chk.tier
    rng = random.Random(chk.seed)
    t0 = time.time()
    chk.assume(
        "TLC/SANY; TLC's 32-bit integer arithmetic (overflow aborts the run: machinery failure, never a verdict)",
        "SymPy: exact rational arithmetic, xreplace, sqrt of rational squares, expand_complex (projection to Gaussian rationals)",
        "the skeleton returned by formulate(parametrize=False) is the matrix formulate(parametrize=True) substitutes into "
        "(checked separately by the 'compose' records)",
        "observation law: 30-digit evaluation by SymPy/mpmath of the library's expression; pole masses above every threshold, "
        "s above every threshold and >= 2% away from every pole; positive residue constants and widths as the symbols are declared",
    )
    tags = ("RelK", "NRK")
    pool = ProcessPoolExecutor(max_workers=10, mp_context=mp.get_context("fork"))
    tpool = ThreadPoolExecutor(max_workers=3)
    try:
        # (a) reference model check, in the background
        ref_future = None
        if not replay:
            ref_future = tpool.submit(run_reference, chk, 4)
            sens_future = tpool.submit(run_sensitivity)

        # (b) lattice
        n3 = {}
        if tier == "thorough" and not replay:
            n3 = {tag: select_n3(tag, rng, 800) for tag in tags}
        if replay and replay.get("case", {}).get("kind") == "skel":
            c = replay["case"]
            pts = [(c["ord"], c.get("sub_rx"))]
            jobs = [(c["cls"], c["n"], name, flag, pts) for name, flag in kc.MATS[c["cls"]]]
            plan = [("sample", c["cls"], c["n"], pts)]
        elif replay:
            jobs, plan = [], []
        else:
            jobs, plan = lattice_jobs(tags, tier, rng, n3)
        lattice_futs = [pool.submit(kc.work_eval, j) for j in jobs]

        # (c) structural records
        Xs = ["PhaseSpaceFactor", "PhaseSpaceFactorAbs", "PhaseSpaceFactorComplex", "PhaseSpaceFactorSWave",
              "EqualMassPhaseSpaceFactor", "BreakupMomentumSquared", "VfPhaseSpace"]
        pjobs, cjobs, ojobs = [], [], []
        if not replay or replay.get("case", {}).get("kind") in ("param", "compose", "obs", "obsb"):
            nps = (1, 2, 4) if tier == "quick" else (1, 2, 3, 4)
            argsets = [(0, 1, "PhaseSpaceFactor"), (2, 3, "PhaseSpaceFactorAbs"), (1, 2, "VfPhaseSpace"), (4, 1, "PhaseSpaceFactorComplex")]
            if tier == "thorough":
                argsets = [(L, d, X) for L in range(5) for d in (1, 3) for X in Xs]
            for i in range(3):
                for j in range(3):
                    for np_ in nps:
                        pjobs.append(("NRK", i, j, np_, 0, 0, "none", chk.seed))
                        for L, d, X in argsets:
                            pjobs.append(("RelK", i, j, np_, L, d, X, chk.seed))
            ns = (1, 2) if tier == "quick" else (1, 2, 3)
            for n in ns:
                for np_ in (1, 2):
                    cjobs.append(("NRK", n, np_, False, 0, 1, "none", chk.seed))
                    for flag in (False, True):
                        cjobs.append(("RelK", n, np_, flag, 0, 1, "none", chk.seed))
                        for L, d, X in argsets[:4] if tier == "quick" else argsets[::5]:
                            cjobs.append(("RelK", n, np_, flag, L, d, X, chk.seed))
            # (d) observation law
            real_X = ["PhaseSpaceFactor", "PhaseSpaceFactorAbs", "PhaseSpaceFactorComplex"]
            k = 0
            for n in ns:
                for np_ in (1, 2, 3, 4):
                    for rep in range(1 if tier == "quick" else 6):
                        k += 1
                        ojobs.append(("NRK", n, np_, 0, 1, "none", chk.seed * 7919 + k))
                    for L in range(5):
                        for rep in range(1 if tier == "quick" else 4):
                            k += 1
                            X = real_X[(L + np_ + rep) % 3] if tier == "quick" else real_X[k % 3]
                            ojobs.append(("RelK", n, np_, L, 1 + (k % 3), X, chk.seed * 7919 + k))
            if tier == "thorough":  # n = 3 needs the 20-30 s skeletons: keep the list short
                ojobs = [j for j in ojobs if j[1] < 3 or (j[2] in (1, 3) and j[3] in (0, 2, 4))]
            else:
                # quick: one three-channel observation of the non-relativistic K-matrix (the top of the quantified range; 20-30 s)
                ojobs.append(("NRK", 3, 1, 0, 1, "none", chk.seed * 7919 + 999))
                # ... and one of the relativistic one (from three channels on the upper and the lower triangle of K are listed in different orders)
                ojobs.append(("RelK", 3, 2, 1, 2, "PhaseSpaceFactor", chk.seed * 7919 + 998))
                cjobs.append(("RelK", 3, 1, False, 0, 1, "none", chk.seed))
        if replay and replay.get("case", {}).get("kind") in ("param", "compose", "obs", "obsb"):
            c = replay["case"]
            pjobs = [tuple(c["job"])] if c["kind"] == "param" else []
            cjobs = [tuple(c["job"])] if c["kind"] == "compose" else []
            ojobs = [tuple(c["job"])] if c["kind"] == "obs" else []
        # n = 3 jobs first: they are the long ones
        cjobs.sort(key=lambda j: -j[1])
        ojobs.sort(key=lambda j: -j[1])
        pfut = [pool.submit(kc.work_param, j) for j in pjobs]
        cfut = [pool.submit(kc.work_compose, j) for j in cjobs]
        ofut = [pool.submit(kc.work_obs, j) for j in ojobs]
        # dedicated family: a pole mass below the threshold of one of its channels (the property
        # quantifies over all real pole masses); every such failure maps to ONE finding signature
        bjobs = []
        if not replay:
            bjobs = [(1, 0, 1, "PhaseSpaceFactor", chk.seed, True), (1, 1, 1, "PhaseSpaceFactor", chk.seed, True),
                     (1, 0, 1, "PhaseSpaceFactorAbs", chk.seed, True), (1, 1, 1, "PhaseSpaceFactorAbs", chk.seed, True)]
            if tier == "thorough":
                k = 0
                for np_ in (1, 2):
                    for L in (0, 1, 2):
                        for X in ("PhaseSpaceFactor", "PhaseSpaceFactorAbs", "PhaseSpaceFactorComplex"):
                            k += 1
                            bjobs.append((np_, L, 1 + k % 2, X, chk.seed * 104729 + k, False))
        elif replay.get("case", {}).get("kind") == "obsb":
            bjobs = [tuple(replay["case"]["job"])]
        bfut = [pool.submit(kc.work_obs_below, j) for j in bjobs]

        results = [f.result() for f in lattice_futs]
        skel_recs, errors = build_skel_records(results, plan)
        t_lattice = time.time() - t0
        srecs = [f.result() for f in pfut] + [f.result() for f in cfut]
        orecs = [f.result() for f in ofut]
        orecs += [f.result() for f in bfut]
    finally:
        pool.shutdown(wait=True, cancel_futures=True)

    for tag, n, o, sub, bad in errors:
        if sub:  # a pole of the amplitude below threshold (1 - i rho K singular): not in the property's domain
            continue
        kx, rx, px = kc.decode(tag, n, o)
        Kv, rhov, _, _ = kc.point_values(n, kx, rx, px)
        chk.violation(f"{full_name(tag)}.formulate(parametrize=False):not-finite-on-lattice:n_channels={n}",
                      f"the skeleton has no finite exact value for real symmetric K={Kv}, positive rho={rhov}: {bad}",
                      {"kind": "skel", "cls": tag, "n": n, "ord": o, "sub_rx": None})

    # ---- TLC judges ----------------------------------------------------------------------------
    def validate(recs, label):
        if not recs:
            return None
        recs = [dict(r) for r in recs] + [{"k": "end"}]
        for i, r in enumerate(recs):
            r["id"] = i + 1
        tv = trace.validate("Trace_KMatrix", [kc.strip(r) for r in recs], timeout=1500, heap="4g")
        return tv, {r["id"]: r for r in recs}

    # split the skeleton records over a few TLC processes (runs are self-contained)
    groups, cur = [], []
    for r in skel_recs:
        cur.append(r)
        if r["k"] == "endrun" and len(cur) > 900:
            groups.append(cur)
            cur = []
    if cur:
        groups.append(cur)
    futs = [tpool.submit(validate, g, f"skel{i}") for i, g in enumerate(groups)]
    sfut = tpool.submit(validate, srecs + orecs, "terms")
    verdicts = [f.result() for f in futs]
    sverdict = sfut.result()
    tpool_done = time.time() - t0

    stats = {}
    complete = {}
    n_skel = 0
    for i, (tv, by_id) in enumerate(v for v in verdicts if v):
        chk.add_tlc(f"trace_skeleton_{i}", tv.res, traces=sum(1 for r in by_id.values() if r["k"] == "skel"))
        for k, v in tv.stats.items():
            stats[k] = stats.get(k, 0) + v
        handle_skel_rejects(chk, tv, by_id, {"unitarity", "symmetry"})
        # out-of-budget claims TLC does not accept: the implementation's T has denominators the
        # reference solution does not have.  It cannot be sent to TLC; adjudicate exactly in SymPy.
        for rej in tv.rejects:
            if rej[0] == "oob-claim":
                rec = by_id[rej[1]]
                vals = rec.get("_vals", {})
                uni, sym = kc.exact_unitary(vals["T"]) if "T" in vals else (True, True)
                where = f"{full_name(rec['cls'])}.formulate(parametrize=False)"
                pt = f"n_channels={rec['n']} K={rec['K']} rho={rec.get('rho')} (lattice ordinal {rec['ord']})"
                case = {"kind": "skel", "cls": rec["cls"], "n": rec["n"], "ord": rec["ord"], "sub_rx": None}
                if not uni:
                    chk.violation(f"{where}:unitarity:n_channels={rec['n']}",
                                  f"T differs from the reference solution (TLC: its denominators exceed those of K(1-i rho K)^-1) and exact evaluation of "
                                  f"(1+2iT)^dagger(1+2iT) in SymPy is not the identity at {pt}: T={vals['T']}", case)
                if not sym:
                    chk.violation(f"{where}:symmetry:n_channels={rec['n']}",
                                  f"T differs from the reference solution and is not symmetric at {pt}: T={vals['T']}", case)
                if uni and sym:
                    raise Machinery(f"matrices at {rec['cls']} n={rec['n']} ordinal {rec['ord']} exceed the integer budget although the "
                                    "reference does not, yet are unitary and symmetric: cannot be judged by TLC")
        for r in by_id.values():
            if r["k"] == "skel":
                n_skel += 1
                chk.count(1)
                if r["oob"] == 0 and r["sub"] == 0 and kc.nontrivial_point(r["n"], r["kx"]):
                    chk.nontrivial(("skel", r["cls"], r["n"], r["ord"]))
                if r["cls"] == "RelK" and r["n"] == 2 and r["oob"] == 0 and r["kx"][1] != 2 and r["rx"][0] != r["rx"][1]:
                    chk.sample({"kind": "skel", "cls": r["cls"], "ordinal": r["ord"], "K": r["K"], "rho": r["rho"], "That": r["That"], "T": r["T"]}, limit=2)
    if not replay:
        alltv = [v[0] for v in verdicts if v]
        runs_ok = {}
        for tv in alltv:
            for key, ok in check_runs(tv, tags).items():
                runs_ok[key] = runs_ok.get(key, False) or ok
        # tiling across groups: collect all RUN prints
        segs = {}
        for tv in alltv:
            for p in tv.res.prints:
                if isinstance(p, tuple) and p and p[0] == "RUN":
                    segs.setdefault((p[1], p[2]), []).append((p[3], p[4], p[5]))
        for (cls, n), ss in segs.items():
            pos = 0
            for lo, hi, size in sorted(ss):
                if lo == pos:
                    pos = hi
            complete[f"{cls}/n={n}"] = pos == kc.cls_size(cls, n)
        if not errors and not all(complete.get(f"{t}/n={n}") for t in tags for n in (1, 2)):
            raise Machinery(f"the accepted runs do not tile the lattice: {complete}")
        if stats.get("unitary", 0) < 0.5 * stats.get("skel", 1) or stats.get("unitary", 0) == 0:
            raise Machinery(f"vacuous: unitarity evaluated on {stats.get('unitary', 0)} of {stats.get('skel', 0)} lattice records")

    if sverdict:
        tv, by_id = sverdict
        chk.add_tlc("trace_terms_observations", tv.res, traces=len(by_id) - 1)
        for k, v in tv.stats.items():
            stats[k] = stats.get(k, 0) + v
        by_rec = {}
        for rej in tv.rejects:
            by_rec.setdefault(rej[1], []).append(rej)
        for rid, rejs in sorted(by_rec.items()):
            rec = by_id[rid]
            names = {r[0] for r in rejs}
            if names & MACHINERY_CLAUSES:
                raise Machinery(f"driver and specification disagree on record {rid}: {sorted(names)}\n{str(rec)[:800]}")
            if rec["k"] == "param":
                job = [rec["cls"], rec["i"], rec["j"], rec["np"], rec["L"], rec["d"], rec["X"], chk.seed]
                where = f"{full_name(rec['cls'])}.parametrization"
                if "parametrization(i,j)=parametrization(j,i)" in names:
                    chk.violation(f"{where}:not-symmetric-in-channels",
                                  f"parametrization(i={rec['i']}, j={rec['j']}) differs numerically from parametrization(j, i) (n_poles={rec['np']}, "
                                  f"L={rec['L']}, d={rec['d']}, phsp={rec['X']}); terms {rec['t1']} vs {rec['t2']}", {"kind": "param", "job": job})
                if names & {"residues(i,j)", "residues(j,i)"}:
                    diff = kc.adjudicate_param(*job)
                    if diff > 1e-9:
                        chk.violation(f"{where}:residues-not-g_i*g_j/(m^2-s)",
                                      f"parametrization(i={rec['i']}, j={rec['j']}, n_poles={rec['np']}, L={rec['L']}, d={rec['d']}, phsp={rec['X']}) projects to "
                                      f"{rec['t1']}; the expected term is sum_R gamma[R,i] gamma[R,j] m[R] sqrt(W_i W_j)/(m[R]^2-s) with W_c the width of "
                                      f"channel c (channel masses m_a[c], m_b[c]); numeric difference {diff:.3g}", {"kind": "param", "job": job})
                    else:
                        chk.spec_drift(f"{where}(i={rec['i']}, j={rec['j']}) has an unexpected term shape ({rec['t1'].get('why', 'bag differs')}) but equals the expected formula numerically")
            elif rec["k"] == "compose" and names == {"compose-maps"}:
                chk.spec_drift(f"{full_name(rec['cls'])}.formulate(parametrize=False) (n={rec['n']}) does not contain one symbol per K_ij / rho_i slot "
                               f"(K slots {rec['kmap']}, rho {rec['rmap']}): composition not checked for it")
            elif rec["k"] == "compose":
                job = [rec["cls"], rec["n"], rec["np"], bool(rec["flag"]), rec["L"], rec["d"], rec["X"], chk.seed]
                chk.violation(f"{full_name(rec['cls'])}.formulate:not-skeleton-of-parametrization",
                              f"formulate(n_channels={rec['n']}, n_poles={rec['np']}, flag={rec['flag']}, phsp={rec['X']}, L={rec['L']}, d={rec['d']}) differs "
                              f"numerically (rel. {rec['_diff']:.3g}) from its own parametrize=False skeleton with K_ij := parametrization(i,j), "
                              "rho_i := phsp(s, m_a[i], m_b[i])", {"kind": "compose", "job": job})
            elif rec["k"] == "obsb":
                pt = (f"n_channels=2 n_poles={rec['np']} L={rec['L']} d={rec['d']} phsp={rec['X']} at {rec['_pt']} "
                      f"(s above every threshold, a pole mass below the threshold of channel 1): unitarity residual {rec.get('_u')}, symmetry {rec.get('_s')} {rec.get('_err', '')}")
                case = {"kind": "obsb", "job": rec["_job"]}
                if "unitarity-observed-pole-below-threshold" in names:
                    chk.violation("RelativisticKMatrix:unitarity:pole-mass-below-a-channel-threshold",
                                  "(1+2iT)^dagger(1+2iT) != 1 for real parameters, " + pt + ". EnergyDependentWidth divides by rho(m_R^2) and the form factor at "
                                  "m_R^2, which are imaginary / negative below the channel threshold, so K is not real", case)
                if "symmetry-observed-pole-below-threshold" in names:
                    chk.violation("RelativisticKMatrix:symmetry:pole-mass-below-a-channel-threshold", "T != T^T, " + pt, case)
                if "finite-observed-pole-below-threshold" in names:
                    chk.violation("RelativisticKMatrix:not-finite:pole-mass-below-a-channel-threshold", "T has no finite value, " + pt, case)
            elif rec["k"] == "obs":
                job = [rec["cls"], rec["n"], rec["np"], rec["L"], rec["d"], rec["X"], None]
                for c in sorted(names):
                    chk.violation(f"{full_name(rec['cls'])}.formulate:{c}",
                                  f"{c}: n_channels={rec['n']} n_poles={rec['np']} L={rec['L']} d={rec['d']} phsp={rec['X']} residuals "
                                  f"unitarity={rec.get('_u')} symmetry={rec.get('_s')} {rec.get('_err', '')} at {rec['_pt']}",
                                  {"kind": "obs", "job": [j for j in ojobs if j[:6] == tuple(job[:6])][0] if ojobs else job})
        for r in by_id.values():
            if r["k"] in ("param", "compose") and r.get("eq") == 2:
                chk.spec_drift(f"{full_name(r['cls'])}: {r['k']} record equal only numerically, not as terms ({ {k: r[k] for k in ('i', 'j', 'n', 'np', 'X') if k in r} })")
            if r["k"] in ("param", "compose", "obs", "obsb"):
                chk.count(1)
                key = tuple(r.get(k) for k in ("k", "cls", "i", "j", "n", "np", "flag", "L", "d", "X"))
                if r["k"] != "param" or r["i"] != r["j"]:
                    chk.nontrivial(key)
        ex = next((r for r in by_id.values() if r["k"] == "param" and r["cls"] == "RelK" and r["i"] != r["j"]), None)
        if ex:
            chk.sample(kc.strip(ex))
        ex = next((r for r in by_id.values() if r["k"] == "obs" and r["cls"] == "RelK" and r["n"] == 2), None)
        if ex:
            chk.sample({k: v for k, v in ex.items() if k != "id"})

    # ---- reference model check result -----------------------------------------------------------
    if ref_future is not None:
        res = ref_future.result()
        chk.add_tlc("reference_exhaustive", res)
        chk.part("reference_exhaustive", invariants=REF_INVS, laws_in_AllLaws=REF_LAWS, lattice_states=res.distinct)
        chk.part("deviation_sensitivity", **sens_future.result())
    tpool.shutdown(wait=True)

    # ---- binding demonstration (thorough) --------------------------------------------------------
    if tier == "thorough" and not replay:
        demo = binding_demo(skel_recs)
        chk.part("binding_demonstration", **demo)

    chk.part("lattice", records=n_skel, stats=stats, complete=complete, n3_points={k: len(v) for k, v in n3.items()},
             python_s=round(t_lattice, 1), tlc_done_s=round(tpool_done, 1))
    chk.cov["rule"] = (
        "skeleton: every point of the lattice K_ij in {-1,0,1/2,1,2} (real symmetric), rho_i in {1/4,1,4,9/25} for n_channels 1-2 "
        "(ordinal decoded and order checked by the trace specification; n=3 sampled in the thorough tier among points whose "
        "reference T fits the 32-bit budget), plus sub-threshold points for the sqrt(rho)* mechanism law; a lattice point is "
        "non-trivial when K != 0 and its matrices fit the budget (unitarity evaluated by TLC). terms: parametrization(i,j) for i,j in 0..2, "
        "n_poles, (L, d, phase-space class) combinations, non-trivial when i != j; compose/observation records: one per "
        "(class, n, n_poles, flag, L, d, phase-space class); observation points are seeded (VERIF_SEED)."
    )
    chk.cov["exhaustive"] = False
    chk.cov["explanation"] = (
        "model_checking: TLC evaluates the laws exactly on the reference (all lattice points) and on the implementation's exact "
        "matrices; the observation records (kind 'obs') are floating-point values computed by the implementation/SymPy and only "
        "judged (tolerance 1e-9) by the TLA+ law"
    )


def binding_demo(skel_recs):
    """corrupt one logged matrix entry / drop one record: the trace must be rejected"""
    import copy

    run_ix = next(i for i, r in enumerate(skel_recs) if r["k"] == "run" and r["cls"] == "RelK" and r["n"] == 2)
    end_ix = next(i for i in range(run_ix, len(skel_recs)) if skel_recs[i]["k"] == "endrun")
    base = copy.deepcopy(skel_recs[run_ix : min(end_ix, run_ix + 40)])
    base[0]["to"] = base[0]["from"] + len(base) - 1
    base.append({"k": "endrun", "from": base[0]["from"]})
    out = {}

    def judge(recs):
        recs = [dict(r) for r in recs] + [{"k": "end"}]
        for i, r in enumerate(recs):
            r["id"] = i + 1
        return trace.validate("Trace_KMatrix", [kc.strip(r) for r in recs])

    tv = judge(base)
    if tv.rejects:
        raise Machinery(f"binding demonstration: the uncorrupted excerpt is rejected: {tv.rejects[:3]}")
    target = next(i for i, r in enumerate(base) if r["k"] == "skel" and r["oob"] == 0 and kc.nontrivial_point(2, r["kx"]))
    for label, mut in (
        ("T_entry_numerator+1", lambda rs: rs[target]["T"][0][1].__setitem__(0, rs[target]["T"][0][1][0] + 1)),
        ("T_replaced_by_symmetric_wrong_matrix", lambda rs: rs[target].__setitem__("T", [[[1, 7, 0, 1], [1, 7, 0, 1]], [[1, 7, 0, 1], [1, 7, 0, 1]]])),
        ("That_transposed_entry", lambda rs: rs[target]["That"][0].__setitem__(1, [rs[target]["That"][0][1][0] + 1] + rs[target]["That"][0][1][1:])),
        ("logged_K_changed", lambda rs: rs[target]["K"][0].__setitem__(0, [2, 1] if rs[target]["K"][0][0] != [2, 1] else [1, 1])),
        ("record_dropped", lambda rs: rs.pop(target)),
    ):
        rs = copy.deepcopy(base)
        mut(rs)
        tv = judge(rs)
        if not tv.rejects:
            raise Machinery(f"binding demonstration failed: corruption '{label}' was accepted by Trace_KMatrix (vacuous check)")
        out[label] = sorted({r[0] for r in tv.rejects})
    return out
