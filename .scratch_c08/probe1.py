import sympy as sp, numpy as np, time
from ampform.kinematics.lorentz import *
from ampform.sympy._array_expressions import *
p = ArraySymbol("p", shape=[])
B = BoostMatrix(p)
ex = B.as_explicit()
print(ex[0,0])
print(ex.atoms(Energy, FourMomentumX, FourMomentumY, FourMomentumZ, EuclideanNormSquared))
E,x,y,z = map(sp.Rational,(25,2,3,6))
sub = {Energy(p):E, FourMomentumX(p):x, FourMomentumY(p):y, FourMomentumZ(p):z, EuclideanNormSquared(ThreeMomentum(p)): x*x+y*y+z*z}
t=time.time(); m = ex.xreplace(sub); print(time.time()-t)
print(m)
ev = B.evaluate()
print(type(ev), [a.xreplace(sub) for a in ev.args[1:]])
# doit
d = B.doit()
print(type(d), d.args[1])
# BoostZ
b = sp.Symbol("b")
bz = BoostZMatrix(b, n_events=ArraySize(b))
print(bz.as_explicit().xreplace({b: sp.Rational(3,5)}), bz.as_explicit().xreplace({b: sp.Rational(3,5)}).doit())
print(bz.evaluate().args)
print([a.xreplace({b: sp.Rational(3,5)}) for a in bz.evaluate().args[:3]])
a = sp.Symbol("a")
ry = RotationYMatrix(a, n_events=ArraySize(a))
print(ry.as_explicit().xreplace({sp.cos(a): sp.Rational(3,5), sp.sin(a): sp.Rational(4,5)}))
print(ry.evaluate().args)
f = sp.lambdify([p], B.doit(), cse=True)
import inspect; print(inspect.getsource(f))
print(f(np.array([[25.,2,3,6]])))
# at rest
print(f(np.array([[25.,0,0,0]])))
nm = NegativeMomentum(p)
print(nm.doit(), type(nm.doit()))
g = sp.lambdify([p], nm.doit()); print(inspect.getsource(g)); print(g(np.array([[25.,2,3,6],[5,1,2,3]])))
