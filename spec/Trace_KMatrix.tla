---------------------------- MODULE Trace_KMatrix ----------------------------
(***************************************************************************)
(* Trace specification for C09 / C10: consumes ndjson records logged from  *)
(* ampform.dynamics.kmatrix and evaluates the laws of KMatrixLaw on the    *)
(* IMPLEMENTATION's exact matrices, computes the expected structural terms *)
(* of the pole parametrisations, states the dataflow law of formulate()    *)
(* and judges quantised floating-point observations.                       *)
(*                                                                         *)
(* Record kinds (field k):                                                 *)
(*  run / endrun  a run of consecutive lattice ordinals of one (cls, n)    *)
(*  skel   exact matrices of the parametrize=False skeleton at one lattice *)
(*         point: the spec decodes the point it asked for from the ordinal *)
(*         (KMatrixLattice), checks the logged K / rho / P are that point  *)
(*         and evaluates the laws on the logged T^, T, F^, F               *)
(*  param  K-matrix pole parametrisation (i,j) and (j,i) projected to a    *)
(*         bag of factors; the expected bag is computed here               *)
(*  pparam P-vector pole parametrisation i                                 *)
(*  compose formulate(...) equals skeleton o parametrisation with the      *)
(*         identity index map                                              *)
(*  flow   which phase-space classes / angular momenta / radii occur in a  *)
(*         formulated result (C10 dataflow)                                *)
(*  reduce one-channel one-pole reduction to the Breit-Wigner functions    *)
(*  obs    quantised float residuals of unitarity / symmetry (observation  *)
(*         law, kind N: the numbers are the implementation's)              *)
(*  obsb   the same observation with a pole mass BELOW the threshold of one *)
(*         of its channels and s above every threshold: the property       *)
(*         quantifies over all real pole masses, so unitarity is judged    *)
(*         there too (a dedicated family, one finding signature)           *)
(*  end    prints the counters                                             *)
(* Gaussian rationals are logged as [re_num, re_den, im_num, im_den],      *)
(* rationals as [num, den]; channel indices are 0-based as in the library. *)
(***************************************************************************)
EXTENDS KMatrixLattice, Json, IOUtils

Log == ndJsonDeserialize(IOEnv.TRACE_FILE)

VARIABLES l,      \* next record
          run,    \* the open run: [cls, n, next, to]  (next = -1: none)
          stat    \* counters (vacuity)
tvars == <<l, run, stat>>

Rec == Log[l]
Clause(name, ok, info) == IF ok THEN TRUE ELSE PrintT(<<"REJECT", name, Rec.id, info>>)
NoRun == [cls |-> "", n |-> 0, next |-> -1, to |-> -1]
StatKeys == {"skel", "unitary", "symmetric", "oob", "below", "linear", "plaw", "param", "pparam",
             "compose", "flow", "flow_rel", "reduce", "obs", "obsb", "runs"}
Bump(s, keys) == [k \in StatKeys |-> IF k \in keys THEN s[k] + 1 ELSE s[k]]

\* ---- decoding logged values -----------------------------------------------------
ROf(x) == RNorm(x[1], x[2])
GOf(x) == <<RNorm(x[1], x[2]), RNorm(x[3], x[4])>>
MOfG(M) == Mk(Len(M), Len(M[1]), LAMBDA i, j : GOf(M[i][j]))
MOfR(M) == Mk(Len(M), Len(M[1]), LAMBDA i, j : ROf(M[i][j]))
VOfG(v) == MkV(Len(v), LAMBDA i : GOf(v[i]))
SeqToSet(s) == {s[k] : k \in 1..Len(s)}
IsRel(cls) == cls \in {"RelK", "RelP"}
IsK(cls) == cls \in {"RelK", "NRK"}
Ones(n) == [i \in 1..n |-> 1]
ClsSize(cls, n) == IF IsRel(cls) THEN LatticeSize(n) ELSE Pow(NK, Tri(n))

\* ---- skeleton records -------------------------------------------------------------
SkelLaws(r) ==
  LET n == r.n
      Kq == KOf(n, r.kx)
      K == MReal(Kq)
      rho == RhoOf(n, r.rx)
      sq == SqOf(n, r.rx)
      P == Col(POf(n, r.px))
      above == AboveThreshold(n, r.rx)
  IN
  /\ Clause("lattice-point",
            /\ n \in 1..3 /\ r.ord >= 0
            /\ Len(r.kx) = Tri(n) /\ Len(r.rx) = n
            /\ \A e \in 1..Tri(n) : r.kx[e] = KxOfOrd(n, r.ord)[e]
            /\ r.px = PxOfOrd(r.ord)
            /\ IF r.sub = 1 THEN /\ IsRel(r.cls) /\ ~above /\ \A i \in 1..n : r.rx[i] \in 1..NRhoAll
               ELSE IF IsRel(r.cls) THEN r.ord < LatticeSize(n) /\ \A i \in 1..n : r.rx[i] = RxOfOrd(n, r.ord)[i]
               ELSE r.ord < Pow(NK, Tri(n)) /\ \A i \in 1..n : r.rx[i] = 1,
            <<r.cls, n, r.ord>>)
  /\ Clause("order", r.fam = "x" => (run.next = r.ord /\ run.cls = r.cls /\ run.n = n /\ r.ord < run.to /\ r.sub = 0),
            <<r.cls, n, r.ord, run.next>>)
  \* the logged inputs are the lattice point that was asked for
  /\ Clause("K-logged", MOfR(r.K) = Kq /\ RealSymmetric(Kq), <<r.cls, n, r.ord>>)
  /\ Clause("rho-logged", IsRel(r.cls) => (VOfG(r.rho) = rho /\ VOfG(r.sq) = sq), <<r.cls, n, r.ord>>)
  /\ Clause("P-logged", ~IsK(r.cls) => MOfG(r.P) = P, <<r.cls, n, r.ord>>)
  /\ CASE r.cls = "RelK" /\ r.oob = 1 ->
            \* the driver claims the matrices do not fit the integer budget: only legitimate
            \* when the reference solution does not fit either
            Clause("oob-claim", above /\ n <= 2 /\ (~InBudget(RefT(K, rho, sq)) \/ ~InBudget(RefThat(K, rho))),
                   <<r.cls, n, r.ord>>)
       [] r.cls = "NRK" /\ r.oob = 1 ->
            Clause("oob-claim", n <= 2 /\ ~InBudget(RefTnr(K)), <<r.cls, n, r.ord>>)
       [] r.cls = "RelK" /\ r.oob = 0 ->
            LET That == MOfG(r.That)  T == MOfG(r.T) IN
            /\ Clause("shape", IsSquare(That, n) /\ IsSquare(T, n), <<r.cls, n, r.ord>>)
            /\ Clause("That(1-i.rho.K)=K", RelThatLaw(That, K, rho), <<r.cls, n, r.ord>>)
            /\ Clause("T=sqrt(rho)*.That.sqrt(rho)", RelTLaw(T, That, sq), <<r.cls, n, r.ord>>)
            /\ above => /\ Clause("budget", InBudget(T) /\ InBudget(That), <<r.cls, n, r.ord>>)
                        /\ Clause("symmetry", Symmetric(T) /\ Symmetric(That), <<r.cls, n, r.ord>>)
                        /\ InBudget(T) => Clause("unitarity", Unitary(T), <<r.cls, n, r.ord>>)
       [] r.cls = "NRK" /\ r.oob = 0 ->
            LET T == MOfG(r.T) IN
            /\ Clause("shape", IsSquare(T, n), <<r.cls, n, r.ord>>)
            /\ Clause("T(1-iK)=K", NonRelLaw(T, K), <<r.cls, n, r.ord>>)
            /\ Clause("budget", InBudget(T), <<r.cls, n, r.ord>>)
            /\ Clause("symmetry", Symmetric(T), <<r.cls, n, r.ord>>)
            /\ InBudget(T) => Clause("unitarity", Unitary(T), <<r.cls, n, r.ord>>)
       [] r.cls = "NRP" ->
            LET F == MOfG(r.F) IN
            /\ Clause("shape", Len(F) = n /\ \A i \in 1..n : Len(F[i]) = 1, <<r.cls, n, r.ord>>)
            /\ Clause("(1-iK)F=P", NonRelFLaw(F, K, P), <<r.cls, n, r.ord>>)
            /\ n <= 2 => Clause("F=(1+iT)P", FViaT(F, RefTnr(K), P), <<r.cls, n, r.ord>>)
       [] r.cls = "RelP" ->
            LET F == MOfG(r.F)  Fhat == MOfG(r.Fhat) IN
            /\ Clause("shape", Len(F) = n /\ Len(Fhat) = n /\ \A i \in 1..n : Len(F[i]) = 1 /\ Len(Fhat[i]) = 1,
                      <<r.cls, n, r.ord>>)
            /\ Clause("(sqrt(rho)*-iK.sqrt(rho))Fhat=sqrt(rho)*P", RelFhatLaw(Fhat, K, sq, P), <<r.cls, n, r.ord>>)
            /\ Clause("F=sqrt(rho)Fhat", RelFLaw(F, Fhat, sq), <<r.cls, n, r.ord>>)
            /\ above => Clause("(1-iK)F=sqrt(rho)P", MMul(OneMinusIK(K), F) = MMul(MDiag(sq), P), <<r.cls, n, r.ord>>)
       [] OTHER -> Clause("class", FALSE, r.cls)

SkelStat(r) ==
  {"skel"} \cup (IF r.sub = 1 THEN {"below"} ELSE {})
           \cup (IF IsK(r.cls) /\ r.oob = 1 THEN {"oob"} ELSE {})
           \cup (IF IsK(r.cls) /\ r.oob = 0 /\ r.sub = 0 THEN {"unitary", "symmetric"} ELSE {})
           \cup (IF IsK(r.cls) /\ r.oob = 0 THEN {"linear"} ELSE {})
           \cup (IF ~IsK(r.cls) THEN {"plaw"} ELSE {})

\* ---- structural terms of the pole parametrisations ------------------------------------
\* A projected term is [lo, hi, coef, bag, w]:  sum over the pole index from lo to hi of
\* coef * prod base^(e2/2); bag = <<kind, channel, e2, pole-index-is-the-summation-index>>,
\* w = argument lists of the width / form-factor nodes.
Cnt(a, i, j) == (IF a = i THEN 1 ELSE 0) + (IF a = j THEN 1 ELSE 0)
KBag(W, i, j) ==      {<<"gamma", a, 2 * Cnt(a, i, j), 1>> : a \in {i, j}}
                 \cup {<<W, a, Cnt(a, i, j), 1>> : a \in {i, j}}
                 \cup {<<"m", 0, 2, 1>>, <<"den", 0, -2, 1>>}
\* <<channel of Gamma0, index of m_a, index of m_b, L, d, phase-space class, s/m0/Gamma0 arguments ok>>
KWidths(rel, i, j, L, d, X) == IF rel THEN {<<a, a, a, L, d, X, 1>> : a \in {i, j}} ELSE {}
PBag(rel, i) == {<<"beta", 0, 2, 1>>, <<"gamma", i, 2, 1>>, <<"m", 0, 2, 1>>, <<"Gamma", i, 2, 1>>,
                 <<"den", 0, -2, 1>>} \cup (IF rel THEN {<<"FF", i, 2, 1>>} ELSE {})
PFormFactors(rel, i, L, d) == IF rel THEN {<<i, i, L, d, 1>>} ELSE {}
TermIs(t, np, bag, w) ==
  /\ t.parsed = 1
  /\ t.lo = 1 /\ t.hi = np /\ t.coef = <<1, 1>>
  /\ SeqToSet(t.bag) = bag /\ Len(t.bag) = Cardinality(bag)
  /\ SeqToSet(t.w) = w /\ Len(t.w) = Cardinality(w)

ParamLaws(r) ==
  LET rel == r.cls = "RelK"
      W == IF rel THEN "EDW" ELSE "Gamma"
      bag == KBag(W, r.i, r.j)
      w == KWidths(rel, r.i, r.j, r.L, r.d, r.X)
  IN /\ Clause("param-args", r.cls \in {"RelK", "NRK"} /\ r.i >= 0 /\ r.j >= 0 /\ r.np >= 1, <<r.cls, r.i, r.j>>)
     \* the expected structure itself is symmetric under i <-> j
     /\ Clause("spec-symmetric", KBag(W, r.j, r.i) = bag /\ KWidths(rel, r.j, r.i, r.L, r.d, r.X) = w, <<r.i, r.j>>)
     \* eq: 1 equal as terms, 2 equal only numerically (the driver reports drift), 0 different
     /\ Clause("parametrization(i,j)=parametrization(j,i)", r.eq \in {1, 2}, <<r.cls, r.i, r.j, r.np>>)
     /\ Clause("residues(i,j)", TermIs(r.t1, r.np, bag, w), <<r.cls, r.i, r.j, r.np, r.L, r.d, r.X>>)
     /\ Clause("residues(j,i)", TermIs(r.t2, r.np, bag, w), <<r.cls, r.j, r.i, r.np, r.L, r.d, r.X>>)

PParamLaws(r) ==
  LET rel == r.cls = "RelP" IN
  /\ Clause("pparam-args", r.cls \in {"RelP", "NRP"} /\ r.i >= 0 /\ r.np >= 1, <<r.cls, r.i>>)
  /\ Clause("production-residues(i)", TermIs(r.t1, r.np, PBag(rel, r.i), PFormFactors(rel, r.i, r.L, r.d)),
            <<r.cls, r.i, r.np, r.L, r.d>>)

\* formulate(n, np, args) = skeleton with K_ij := parametrization(i,j), P_i := parametrization(i),
\* rho_i := X(s, m_a[i], m_b[i]).  The driver recomposes with the maps it logs; they must be
\* the identity maps on all slots.  eq: 1 structurally equal, 2 only numerically equal
\* (reported as drift by the driver), 0 different.
ComposeLaws(r) ==
  LET n == r.n
      slots == {<<i, j, i, j>> : i \in 0..(n - 1), j \in 0..(n - 1)}
      rhos == IF IsRel(r.cls) THEN {<<i, i, i>> : i \in 0..(n - 1)} ELSE {}
      ps == IF IsK(r.cls) THEN {} ELSE {<<i, i>> : i \in 0..(n - 1)}
  IN /\ Clause("compose-maps", /\ SeqToSet(r.kmap) = slots /\ Len(r.kmap) = n * n
                               /\ SeqToSet(r.rmap) = rhos /\ Len(r.rmap) = Cardinality(rhos)
                               /\ SeqToSet(r.pmap) = ps /\ Len(r.pmap) = Cardinality(ps), <<r.cls, n>>)
     /\ Clause("formulate=skeleton.parametrization", r.eq \in {1, 2}, <<r.cls, n, r.np, r.flag, r.X, r.L, r.d>>)

\* ---- C10 dataflow: the caller's arguments are the only ones that occur ---------------------
FlowLaws(r) ==
  LET rel == IsRel(r.cls)
      expX == IF rel THEN {r.X} ELSE {}
      expL == IF rel THEN {r.L} ELSE {}
      expD == IF rel THEN {r.d} ELSE {}
      info == <<r.cls, r.n, r.np, r.flag, r.X, r.L, r.d>>
  IN /\ Clause("phsp-at-rho", SeqToSet(r.xrho) = expX, <<info, r.xrho>>)
     /\ Clause("phsp-in-widths", SeqToSet(r.xwidth) = expX, <<info, r.xwidth>>)
     /\ Clause("angular-momentum-in-widths", SeqToSet(r.lwidth) = expL, <<info, r.lwidth>>)
     /\ Clause("meson-radius-in-widths", SeqToSet(r.dwidth) = expD, <<info, r.dwidth>>)
     \* form factors occur in the production vector only
     /\ Clause("angular-momentum-in-form-factors",
               SeqToSet(r.lff) = (IF r.cls = "RelP" THEN {r.L} ELSE {}), <<info, r.lff>>)
     /\ Clause("meson-radius-in-form-factors",
               SeqToSet(r.dff) = (IF r.cls = "RelP" THEN {r.d} ELSE {}), <<info, r.dff>>)
     \* every channel index of a mass argument is the channel of the width it sits in
     /\ Clause("channel-masses", r.chan_ok = 1, info)
     /\ Clause("n-poles", SeqToSet(r.sums) \subseteq {<<1, r.np>>}, <<info, r.sums>>)

\* ---- one channel, one pole ------------------------------------------------------------------
\* the comparison is made numerically on pts >= 3 seeded points: resq = max relative
\* difference / 1e-12 (struct = 1 records that the expressions are also equal as terms;
\* informational, because term manipulation ignores the non-SymPy phsp_factor attribute)
Tol == 1000                     \* 1e-9 relative, in units of 1e-12
ReduceLaws(r) ==
  Clause("breit-wigner-reduction", r.pts >= 3 /\ r.resq <= Tol, <<r.cls, r.X, r.L, r.d, r.resq>>)

\* ---- observation law (floats, quantised) -----------------------------------------------------
\* margins in units of 1e-6 (relative), residuals in units of 1e-12 (relative to max(1,|T|))
Margin == 1000
ObsApplicable(r) == r.thr >= Margin /\ r.pole >= Margin /\ r.mthr >= Margin
ObsLaws(r) ==
  /\ Clause("obs-precondition", ObsApplicable(r), <<r.cls, r.n, r.np, r.L, r.X, r.thr, r.pole, r.mthr>>)
  \* a value that is not a finite number (NaN, leftover symbols) is an observation of its own
  /\ ObsApplicable(r) => Clause("finite-observed", r.finite = 1, <<r.cls, r.n, r.np, r.L, r.X>>)
  /\ (ObsApplicable(r) /\ r.finite = 1) =>
       /\ Clause("unitarity-observed", r.uq <= Tol, <<r.cls, r.n, r.np, r.L, r.X, r.uq>>)
       /\ Clause("symmetry-observed", r.sq <= Tol, <<r.cls, r.n, r.np, r.L, r.X, r.sq>>)

\* pole mass below a channel threshold: mbelow = max over poles R and channels i of
\* (m_a[i] + m_b[i] - m_R) / m_R in units of 1e-6; s still above every threshold (thr) and
\* away from every pole (pole)
ObsBelowApplicable(r) == r.thr >= Margin /\ r.pole >= Margin /\ r.mbelow >= Margin
ObsBelowLaws(r) ==
  /\ Clause("obsb-precondition", ObsBelowApplicable(r), <<r.cls, r.n, r.np, r.L, r.X, r.thr, r.pole, r.mbelow>>)
  /\ ObsBelowApplicable(r) => Clause("finite-observed-pole-below-threshold", r.finite = 1, <<r.cls, r.n, r.np, r.L, r.X>>)
  /\ (ObsBelowApplicable(r) /\ r.finite = 1) =>
       /\ Clause("unitarity-observed-pole-below-threshold", r.uq <= Tol, <<r.cls, r.n, r.np, r.L, r.X, r.uq>>)
       /\ Clause("symmetry-observed-pole-below-threshold", r.sq <= Tol, <<r.cls, r.n, r.np, r.L, r.X, r.sq>>)

\* ---- the trace machine --------------------------------------------------------------------
Step ==
  /\ l <= Len(Log)
  /\ CASE Rec.k = "run" ->
            /\ Clause("run-open", run.next = -1 /\ Rec.from >= 0 /\ Rec.from <= Rec.to
                                  /\ Rec.to <= ClsSize(Rec.cls, Rec.n), <<Rec.cls, Rec.n>>)
            /\ run' = [cls |-> Rec.cls, n |-> Rec.n, next |-> Rec.from, to |-> Rec.to]
            /\ stat' = stat
       [] Rec.k = "endrun" ->
            /\ Clause("run-complete", run.next = run.to, <<run.cls, run.n, run.next, run.to>>)
            /\ PrintT(<<"RUN", run.cls, run.n, Rec.from, run.next, ClsSize(run.cls, run.n)>>)
            /\ run' = NoRun
            /\ stat' = Bump(stat, {"runs"})
       [] Rec.k = "skel" ->
            /\ SkelLaws(Rec)
            /\ run' = IF Rec.fam = "x" THEN [run EXCEPT !.next = Rec.ord + 1] ELSE run
            /\ stat' = Bump(stat, SkelStat(Rec))
       [] Rec.k = "param" -> ParamLaws(Rec) /\ run' = run /\ stat' = Bump(stat, {"param"})
       [] Rec.k = "pparam" -> PParamLaws(Rec) /\ run' = run /\ stat' = Bump(stat, {"pparam"})
       [] Rec.k = "compose" -> ComposeLaws(Rec) /\ run' = run /\ stat' = Bump(stat, {"compose"})
       [] Rec.k = "flow" -> FlowLaws(Rec) /\ run' = run
                            /\ stat' = Bump(stat, {"flow"} \cup (IF IsRel(Rec.cls) THEN {"flow_rel"} ELSE {}))
       [] Rec.k = "reduce" -> ReduceLaws(Rec) /\ run' = run /\ stat' = Bump(stat, {"reduce"})
       [] Rec.k = "obs" -> ObsLaws(Rec) /\ run' = run /\ stat' = Bump(stat, {"obs"})
       [] Rec.k = "obsb" -> ObsBelowLaws(Rec) /\ run' = run /\ stat' = Bump(stat, {"obsb"})
       [] Rec.k = "end" ->
            /\ Clause("run-closed", run.next = -1, <<run.cls, run.n>>)
            /\ \A key \in StatKeys : PrintT(<<"STAT", key, stat[key]>>)
            /\ run' = run /\ stat' = stat
       [] OTHER -> Clause("record-kind", FALSE, Rec.k) /\ UNCHANGED <<run, stat>>
  /\ l' = l + 1

TraceInit == l = 1 /\ run = NoRun /\ stat = [k \in StatKeys |-> 0]
TraceSpec == TraceInit /\ [][Step]_tvars
TraceAccepted == TLCGet("stats").diameter = Len(Log) + 1
=============================================================================
