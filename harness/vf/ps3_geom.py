"""Floating-point side of C19's observation family (never an oracle for the exact clauses):
angles from four-momenta by explicit Lorentz boosts (mpmath, 30 digits), four-momenta from
invariants for Dalitz lattice points, quantisation to integers for the TLA+ law module."""
from __future__ import annotations

import mpmath as mp

mp.mp.dps = 30
Q = 10**7  # quanta per radian (pi -> 31 415 927 fits TLC's 32-bit integers)
TOL = 20  # allowed difference in quanta (2e-6 rad)
UNDEF = -999999999


def quant(x) -> int:
    """real mpmath/float -> quanta; anything else (complex, nan, inf) -> UNDEF."""
    try:
        if isinstance(x, mp.mpc):
            # arccos(1 + 1e-30) = 1e-15 i: rounding at cos = +/-1 exactly (collinear / massless
            # configurations) is not a complex angle; a genuine |arg| > 1 on the lattice has
            # arg^2 - 1 >= 1/(K1 K2) > 1e-8, i.e. |imag| > 1e-4
            if abs(x.imag) > mp.mpf(10) ** -10:
                return UNDEF
            x = x.real
        x = mp.mpf(x)
        if not mp.isfinite(x) or abs(x) > 50:  # not an angle (and would not fit 32 bits): "no value"
            return UNDEF
        return int(mp.nint(x * Q))
    except (TypeError, ValueError):
        return UNDEF


def _dot4(a, b):
    return a[0] * b[0] - a[1] * b[1] - a[2] * b[2] - a[3] * b[3]


def boost_to_rest(a, q):
    """three-momentum of a in the rest frame of q (q timelike)."""
    mq = mp.sqrt(_dot4(q, q))
    aq = a[1] * q[1] + a[2] * q[2] + a[3] * q[3]
    f = aq / (mq * (q[0] + mq)) - a[0] / mq
    return [a[n] + f * q[n] for n in (1, 2, 3)]


def angle3(u, v):
    nu = mp.sqrt(sum(x * x for x in u))
    nv = mp.sqrt(sum(x * x for x in v))
    if nu < mp.mpf(10) ** -20 or nv < mp.mpf(10) ** -20:
        return None
    c = sum(x * y for x, y in zip(u, v)) / (nu * nv)
    c = max(mp.mpf(-1), min(mp.mpf(1), c))
    return mp.acos(c)


def vectors_from_invariants(M, S):
    """p1, p2, p3 in the parent rest frame (p1 along z, p2 in the x-z plane) for a physical point."""
    M = [mp.mpf(x) for x in M]
    S = [mp.mpf(x) for x in S]
    m0 = mp.sqrt(M[0])
    E = [None] + [(M[0] + M[i] - S[i - 1]) / (2 * m0) for i in (1, 2, 3)]
    p = [None] + [mp.sqrt(max(mp.mpf(0), E[i] ** 2 - M[i])) for i in (1, 2, 3)]
    p1 = [E[1], mp.mpf(0), mp.mpf(0), p[1]]
    if p[1] > 0 and p[2] > 0:
        c = (M[1] + M[2] + 2 * E[1] * E[2] - S[2]) / (2 * p[1] * p[2])
        c = max(mp.mpf(-1), min(mp.mpf(1), c))
    else:
        c = mp.mpf(1)
    s = mp.sqrt(max(mp.mpf(0), 1 - c * c))
    p2 = [E[2], p[2] * s, mp.mpf(0), p[2] * c]
    p3 = [E[3], -p2[1], mp.mpf(0), -p1[3] - p2[3]]
    return [p1, p2, p3]


def geometric_angles(P, raw=False):
    """(gh, gt): 16-entry lists indexed 4*i+j of theta-hat_{i(j)} (signed: + for cyclic pairs) and
    theta_ij (helicity angle of i in the (ij) rest frame from the flight direction of (ij)).
    raw=True: mpmath values (None where undefined) instead of quanta."""
    P = [[mp.mpf(x) for x in p] for p in P]
    tot = [sum(p[n] for p in P) for n in range(4)]
    undef = None if raw else UNDEF
    q = (lambda x: x) if raw else quant
    gh = [undef] * 16
    gt = [undef] * 16
    rest = [boost_to_rest(p, tot) for p in P]
    for i in (1, 2, 3):
        for j in (1, 2, 3):
            if i == j:
                continue
            a = angle3(rest[i - 1], rest[j - 1])
            if a is not None:
                gh[4 * i + j] = q(a if j == i % 3 + 1 else -a)
            k = 6 - i - j
            pq = [P[i - 1][n] + P[j - 1][n] for n in range(4)]
            if _dot4(pq, pq) > mp.mpf(10) ** -20:
                pi_ = boost_to_rest(P[i - 1], pq)
                pk = boost_to_rest(P[k - 1], pq)
                a = angle3(pi_, [-x for x in pk])
                if a is not None:
                    gt[4 * i + j] = q(a)
    return gh, gt
