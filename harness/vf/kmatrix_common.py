"""Shared driver code for C09 / C10 (ampform.dynamics.kmatrix).

Python only drives the implementation and projects its results:
  * exact evaluation of the parametrize=False skeletons on the lattice of
    spec/KMatrixLattice.tla (SymPy Rationals -> Gaussian rationals as 4 integers),
  * projection of the pole parametrisations to bags of factors,
  * the expression-tree walk for the dataflow clause,
  * seeded numeric evaluation (30 digits) for adjudication and the observation law.
Verdicts are TLC's (spec/Trace_KMatrix.tla, spec/KMatrixRef.tla, spec/KMatrixCalls.tla)."""
from __future__ import annotations

import itertools
import math
import random
from fractions import Fraction

import sympy as sp

CLS = {
    "RelK": "RelativisticKMatrix",
    "NRK": "NonRelativisticKMatrix",
    "NRP": "NonRelativisticPVector",
    "RelP": "RelativisticPVector",
}
FLAG = {"RelK": "return_t_hat", "RelP": "return_f_hat"}
CMAX = 18000  # = CMax of KMatrixLaw.tla

# mirror of KMatrixLattice.tla (the trace specification decodes the ordinal itself and
# rejects with clause "lattice-point"/"K-logged" if this mirror ever disagrees)
KVALS = [sp.Rational(-1), sp.Rational(0), sp.Rational(1, 2), sp.Rational(1), sp.Rational(2)]
RHOVALS = [sp.Rational(1, 4), sp.Rational(1), sp.Rational(4), sp.Rational(9, 25), sp.I / 2, 2 * sp.I, 8 * sp.I]
SQVALS = [sp.Rational(1, 2), sp.Rational(1), sp.Rational(2), sp.Rational(3, 5), (1 + sp.I) / 2, 1 + sp.I, 2 + 2 * sp.I]
PENTRIES = [sp.Integer(1), sp.I / 2, -1 + 2 * sp.I]
NK, NRHO, NP = 5, 4, 3


def km():
    from ampform.dynamics import kmatrix

    return kmatrix


def cls_of(tag):
    return getattr(km(), CLS[tag])


def tri(n):
    return n * (n + 1) // 2


def tri_idx(n, i, j):  # 1-based, i <= j
    return (i - 1) * n - ((i - 1) * (i - 2)) // 2 + (j - i) + 1


def cls_size(tag, n):
    return NK ** tri(n) * (NRHO**n if tag in ("RelK", "RelP") else 1)


def decode(tag, n, ord_):
    kx = [((ord_ // NK**e) % NK) + 1 for e in range(tri(n))]
    if tag in ("RelK", "RelP"):
        rx = [((ord_ // (NK ** tri(n) * NRHO**i)) % NRHO) + 1 for i in range(n)]
    else:
        rx = [1] * n
    return kx, rx, (ord_ % NP) + 1


def point_values(n, kx, rx, px):
    K = [[KVALS[kx[tri_idx(n, min(i, j), max(i, j)) - 1] - 1] for j in range(1, n + 1)] for i in range(1, n + 1)]
    rho = [RHOVALS[r - 1] for r in rx]
    sq = [SQVALS[r - 1] for r in rx]
    P = [PENTRIES[(px + i - 2) % NP] for i in range(1, n + 1)]
    return K, rho, sq, P


# ---- exact projection ---------------------------------------------------------------
class NotExact(Exception):
    pass


def gauss(e):
    """SymPy number -> [re_num, re_den, im_num, im_den] (exact)."""
    e = sp.sympify(e)
    if e.has(sp.nan, sp.zoo, sp.oo, -sp.oo):
        raise NotExact(f"not finite: {e}")
    re, im = sp.expand_complex(e).as_real_imag()
    if not (re.is_Rational and im.is_Rational):
        re, im = sp.nsimplify(sp.simplify(re)), sp.nsimplify(sp.simplify(im))
        if not (re.is_Rational and im.is_Rational):
            raise NotExact(f"not a Gaussian rational: {e}")
    return [int(re.p), int(re.q), int(im.p), int(im.q)]


def rat(e):
    e = sp.Rational(e)
    return [int(e.p), int(e.q)]


def common_den(rows):
    c = 1
    for r in rows:
        for g in r:
            c = math.lcm(c, g[1], g[3])
    return c


def skeleton_symbols(M):
    """K[i,j], P[i,0], rho_i symbols occurring in a skeleton, found by name."""
    import re

    K, P, rho, other = {}, {}, {}, []
    bases = set()
    for a in M.atoms(sp.Indexed):
        name = str(a.base.label)
        bases.add(a.base.label)
        try:
            idx = tuple(int(i) for i in a.indices)
        except TypeError:
            other.append(a)
            continue
        if name == "K" and len(idx) == 2:
            K[idx] = a
        elif name == "P":
            P[idx[0]] = a
        else:
            other.append(a)
    for s in M.free_symbols:
        if s in bases or isinstance(s, sp.Indexed):
            continue
        m = re.fullmatch(r"rho(\d+)", getattr(s, "name", ""))
        if m:
            rho[int(m.group(1))] = s
        elif not isinstance(s, sp.IndexedBase):
            other.append(s)
    return K, P, rho, other


def skeleton(tag, n, flag=False):
    kw = {FLAG[tag]: flag} if tag in FLAG else {}
    return cls_of(tag).formulate(n_channels=n, n_poles=1, parametrize=False, **kw)


def eval_skeleton(M, n, Kv, rhov, Pv, symbols=None):
    """Substitute a lattice point into a skeleton; returns rows of Gaussian 4-tuples and the
    substitution actually made, projected by symbol name (what gets logged as K / rho / P)."""
    K, P, rho, other = symbols or skeleton_symbols(M)
    sub = {}
    used_K = [[None] * n for _ in range(n)]
    for (i, j), sym in K.items():
        if i < n and j < n:
            sub[sym] = Kv[i][j]
            used_K[i][j] = Kv[i][j]
    for i, sym in rho.items():
        if i < n:
            sub[sym] = rhov[i]
    for i, sym in P.items():
        if i < n:
            sub[sym] = Pv[i]
    V = M.xreplace(sub)
    rows = [[gauss(V[i, j]) for j in range(V.shape[1])] for i in range(V.shape[0])]
    return rows, used_K


# ---- python-side reference in Fractions (only to pre-select in-budget n = 3 points) -----
def ref_T_den(Kv, sqv):
    """lcm of the denominators of T = K'(1 - iK')^-1 with K' = sq K sq (real positive rho)."""
    n = len(Kv)
    Ks = sp.Matrix(n, n, lambda i, j: sqv[i] * Kv[i][j] * sqv[j])
    T = Ks * (sp.eye(n) - sp.I * Ks).inv()
    rows = [[gauss(T[i, j]) for j in range(n)] for i in range(n)]
    return common_den(rows)


# ---- library symbols as formulate() names them --------------------------------------------
def std_symbols():
    return dict(
        s=sp.Symbol("s", nonnegative=True),
        m=sp.IndexedBase("m", nonnegative=True),
        Gamma=sp.IndexedBase("Gamma", nonnegative=True),
        gamma=sp.IndexedBase("gamma", nonnegative=True),
        beta=sp.IndexedBase("beta", nonnegative=True),
        m_a=sp.IndexedBase("m_a", nonnegative=True),
        m_b=sp.IndexedBase("m_b", nonnegative=True),
        R=sp.Symbol("R", integer=True, positive=True),
    )


def k_parametrization(tag, i, j, np_, L=0, d=1, X=None):
    """The library's K-matrix pole parametrisation for slot (i, j) (public staticmethod)."""
    y = std_symbols()
    if tag in ("RelK", "RelP"):
        kw = dict(angular_momentum=L, meson_radius=d)
        if X is not None:
            kw["phsp_factor"] = X
        return km().RelativisticKMatrix.parametrization(
            i=i, j=j, s=y["s"], pole_position=y["m"], pole_width=y["Gamma"], m_a=y["m_a"], m_b=y["m_b"],
            residue_constant=y["gamma"], n_poles=np_, pole_id=y["R"], **kw)
    return km().NonRelativisticKMatrix.parametrization(
        i=i, j=j, s=y["s"], pole_position=y["m"], pole_width=y["Gamma"], residue_constant=y["gamma"],
        n_poles=np_, pole_id=y["R"])


def p_parametrization(tag, i, np_, L=0, d=1):
    y = std_symbols()
    if tag == "RelP":
        return km().RelativisticPVector.parametrization(
            i=i, s=y["s"], pole_position=y["m"], pole_width=y["Gamma"], m_a=y["m_a"], m_b=y["m_b"],
            beta_constant=y["beta"], residue_constant=y["gamma"], n_poles=np_, pole_id=y["R"],
            angular_momentum=L, meson_radius=d)
    return km().NonRelativisticPVector.parametrization(
        i=i, s=y["s"], pole_position=y["m"], pole_width=y["Gamma"], residue_constant=y["gamma"],
        beta_constant=y["beta"], n_poles=np_, pole_id=y["R"])


# ---- phase-space implementations --------------------------------------------------------
def make_custom_phsp():
    """A PhaseSpaceFactorProtocol implementation that is not part of the library."""
    from ampform.dynamics.phasespace import BreakupMomentumSquared
    from ampform.sympy import unevaluated

    @unevaluated
    class VfPhaseSpace(sp.Expr):
        s: object
        m1: object
        m2: object
        _latex_repr_ = R"\rho^\mathrm{{vf}}\left({s}\right)"

        def evaluate(self):
            s, m1, m2 = self.args
            return 3 * sp.sqrt(BreakupMomentumSquared(s, m1, m2)) / sp.sqrt(s + 1)

    return VfPhaseSpace


_CUSTOM = None


def phsp_classes():
    """name -> callable for every protocol implementation that leaves a node in the tree."""
    global _CUSTOM
    from ampform.dynamics import phasespace as ps

    out = {}
    for name in ("PhaseSpaceFactor", "PhaseSpaceFactorAbs", "PhaseSpaceFactorComplex", "PhaseSpaceFactorSWave",
                 "EqualMassPhaseSpaceFactor", "BreakupMomentumSquared"):
        if hasattr(ps, name):
            out[name] = getattr(ps, name)
    if _CUSTOM is None:
        _CUSTOM = make_custom_phsp()
    out["VfPhaseSpace"] = _CUSTOM
    return out


def phsp_name(obj):
    return getattr(obj, "__name__", None) or type(obj).__name__


# ---- projection of a pole parametrisation to a bag of factors -----------------------------
def _powers(e, exp, acc):
    """Flatten products and powers-of-products formally into base -> exponent."""
    if isinstance(e, sp.Mul):
        for a in e.args:
            _powers(a, exp, acc)
    elif isinstance(e, sp.Pow) and e.exp.is_Rational:
        _powers(e.base, exp * e.exp, acc)
    else:
        acc[e] = acc.get(e, 0) + exp


def _int_or(v, default=-99):
    try:
        return int(v)
    except (TypeError, ValueError):
        return default


def project_term(expr):
    """Sum(prod, (R, lo, hi)) -> {"parsed":1, lo, hi, coef, bag, w}; unknown shapes give
    {"parsed":0, "why":...} (the trace specification rejects, the driver adjudicates)."""
    from ampform.dynamics import EnergyDependentWidth
    from ampform.dynamics.form_factor import FormFactor

    bad = lambda why: {"parsed": 0, "why": why, "lo": -99, "hi": -99, "coef": [0, 1], "bag": [], "w": []}  # noqa: E731
    if not isinstance(expr, sp.Sum) or len(expr.limits) != 1:
        return bad("not a single Sum")
    R, lo, hi = expr.limits[0]
    acc = {}
    _powers(expr.function, sp.Integer(1), acc)
    coef = sp.Integer(1)
    bag, w = [], []
    s = std_symbols()["s"]

    def pole_ok(idx):
        return 1 if idx == R else 0

    for base, ex in acc.items():
        e2 = 2 * ex
        if not e2.is_Integer:
            return bad(f"exponent {ex}")
        e2 = int(e2)
        if base.is_Number:
            coef *= base**ex
        elif isinstance(base, sp.Indexed):
            name = str(base.base.label)
            idx = base.indices
            if name in ("gamma", "Gamma") and len(idx) == 2:
                bag.append([name, _int_or(idx[1]), e2, pole_ok(idx[0])])
            elif name in ("m", "beta") and len(idx) == 1:
                bag.append([name, 0, e2, pole_ok(idx[0])])
            else:
                return bad(f"unexpected indexed {base}")
        elif isinstance(base, EnergyDependentWidth):
            a = base.args
            g0 = a[2]
            ok = int(a[0] == s and isinstance(a[1], sp.Indexed) and str(a[1].base.label) == "m" and a[1].indices == (R,)
                     and isinstance(g0, sp.Indexed) and str(g0.base.label) == "Gamma" and len(g0.indices) == 2 and g0.indices[0] == R)
            ch = _int_or(g0.indices[1]) if isinstance(g0, sp.Indexed) and len(g0.indices) == 2 else -99
            bag.append(["EDW", ch, e2, ok])
            w.append([ch, _chan(a[3], "m_a"), _chan(a[4], "m_b"), _int_or(a[5]), _int_or(a[6]), phsp_name(base.phsp_factor), ok])
        elif isinstance(base, FormFactor):
            a = base.args
            ok = int(a[0] == s)
            ch = _chan(a[1], "m_a")
            bag.append(["FF", ch, e2, ok])
            w.append([ch, _chan(a[2], "m_b"), _int_or(a[3]), _int_or(a[4]), ok])
        elif isinstance(base, sp.Add):
            m = std_symbols()["m"]
            if base == m[R] ** 2 - s:
                bag.append(["den", 0, e2, 1])
            elif base == s - m[R] ** 2:
                bag.append(["den", 0, e2, 1])
                coef *= sp.Integer(-1) ** ex
            else:
                return bad(f"unexpected sum {base}")
        else:
            return bad(f"unexpected factor {sp.srepr(base)[:80]}")
    if not coef.is_Rational:
        return bad(f"coefficient {coef}")
    # merge duplicates (same key), sort for a canonical record
    merged = {}
    for k, ch, e2, ok in bag:
        key = (k, ch)
        if key in merged:
            merged[key][2] += e2
            merged[key][3] = min(merged[key][3], ok)
        else:
            merged[key] = [k, ch, e2, ok]
    wset = sorted({tuple(x) for x in w})
    return {"parsed": 1, "lo": _int_or(lo), "hi": _int_or(hi), "coef": rat(coef),
            "bag": sorted(merged.values()), "w": [list(x) for x in wset]}


def _chan(a, base):
    if isinstance(a, sp.Indexed) and str(a.base.label) == base and len(a.indices) == 1:
        return _int_or(a.indices[0])
    return -99


def expected_k_term(tag, i, j, np_, L, d, X):
    """The property's parametrisation written out independently (for numeric adjudication)."""
    from ampform.dynamics import EnergyDependentWidth

    y = std_symbols()
    R, s, m = y["R"], y["s"], y["m"]

    def width(ch):
        if tag in ("RelK", "RelP"):
            return EnergyDependentWidth(s, m[R], y["Gamma"][R, ch], y["m_a"][ch], y["m_b"][ch], L, d, X)
        return y["Gamma"][R, ch]

    g = lambda ch: y["gamma"][R, ch] * sp.sqrt(m[R] * width(ch))  # noqa: E731
    return sp.Sum(g(i) * g(j) / (m[R] ** 2 - s), (R, 1, np_))


def expected_p_term(tag, i, np_, L, d):
    from ampform.dynamics.form_factor import FormFactor

    y = std_symbols()
    R, s, m = y["R"], y["s"], y["m"]
    ff = FormFactor(s, y["m_a"][i], y["m_b"][i], L, d) if tag == "RelP" else 1
    return sp.Sum(y["beta"][R] * y["gamma"][R, i] * m[R] * y["Gamma"][R, i] * ff / (m[R] ** 2 - s), (R, 1, np_))


# ---- the tree walk of the dataflow clause ---------------------------------------------------
def walk_flow(M):
    """Which phase-space classes, angular momenta, radii occur anywhere in a formulated
    result, including the non-SymPy phsp_factor attribute of every EnergyDependentWidth."""
    from ampform.dynamics import EnergyDependentWidth
    from ampform.dynamics.form_factor import BlattWeisskopfSquared, FormFactor

    phs = tuple(phsp_classes().values())
    xrho, xwidth, lwidth, dwidth, lff, dff, sums = set(), set(), set(), set(), set(), set(), set()
    chan_ok = 1
    seen = set()
    entries = list(M) if hasattr(M, "shape") else [M]
    for e in entries:
        for node in sp.preorder_traversal(e):
            if node in seen:
                continue
            seen.add(node)
            if isinstance(node, EnergyDependentWidth):
                xwidth.add(phsp_name(node.phsp_factor))
                lwidth.add(_int_or(node.args[5]))
                dwidth.add(_int_or(node.args[6]))
                g0 = node.args[2]
                ch = _int_or(g0.indices[1]) if isinstance(g0, sp.Indexed) and len(g0.indices) == 2 else -99
                if not (_chan(node.args[3], "m_a") == ch and _chan(node.args[4], "m_b") == ch):
                    chan_ok = 0
            elif isinstance(node, FormFactor):
                lff.add(_int_or(node.args[3]))
                dff.add(_int_or(node.args[4]))
                if _chan(node.args[1], "m_a") != _chan(node.args[2], "m_b"):
                    chan_ok = 0
            elif isinstance(node, BlattWeisskopfSquared):
                lff.add(_int_or(node.args[1]))
            elif isinstance(node, phs):
                xrho.add(type(node).__name__)
                if _chan(node.args[1], "m_a") != _chan(node.args[2], "m_b"):
                    chan_ok = 0
            elif isinstance(node, sp.Sum):
                for lim in node.limits:
                    sums.add((_int_or(lim[1]), _int_or(lim[2])))
    return dict(xrho=sorted(xrho), xwidth=sorted(xwidth), lwidth=sorted(lwidth), dwidth=sorted(dwidth),
                lff=sorted(lff), dff=sorted(dff), chan_ok=chan_ok, sums=[list(x) for x in sorted(sums)])


def digest(M):
    """Identity of a formulated result: srepr plus the non-SymPy attributes of every node."""
    import hashlib

    from ampform.dynamics import EnergyDependentWidth

    parts = [type(M).__name__, str(getattr(M, "shape", "")), sp.srepr(M)]
    for e in (list(M) if hasattr(M, "shape") else [M]):
        for node in sp.preorder_traversal(e):
            if isinstance(node, EnergyDependentWidth):
                parts.append(f"{phsp_name(node.phsp_factor)}|{node.name}")
    return hashlib.sha256("\n".join(parts).encode()).hexdigest()


# ---- seeded numeric evaluation (adjudication, observation law) ------------------------------
class Point:
    """A real parameter point above all thresholds and away from the poles."""

    def __init__(self, rng: random.Random, n, np_, real_beta=False):
        q = lambda lo, hi: sp.Rational(rng.randint(int(lo * 1000), int(hi * 1000)), 1000)  # noqa: E731
        self.n, self.np = n, np_
        self.m_a = [q(0.10, 0.55) for _ in range(n)]
        self.m_b = [q(0.10, 0.55) for _ in range(n)]
        top = max(a + b for a, b in zip(self.m_a, self.m_b))
        while True:
            self.m = [top + q(0.15, 1.60) for _ in range(np_)]
            if all(abs(x - y) > sp.Rational(1, 20) for x, y in itertools.combinations(self.m, 2)):
                break
        while True:
            self.sqrt_s = top + q(0.10, 1.90)
            self.s = self.sqrt_s**2
            if all(abs(self.s - mm**2) > sp.Rational(1, 50) * self.s for mm in self.m):
                break
        self.Gamma = [[q(0.05, 0.45) for _ in range(n)] for _ in range(np_)]
        self.gamma = [[q(0.25, 1.50) for _ in range(n)] for _ in range(np_)]
        self.beta = [q(0.2, 1.5) + (0 if real_beta else sp.I * q(-1.0, 1.0)) for _ in range(np_)]
        self.top = top

    def margins(self):
        thr = min(1 - (a + b) ** 2 / self.s for a, b in zip(self.m_a, self.m_b))
        pole = min(abs(self.s - mm**2) / self.s for mm in self.m)
        mthr = min(1 - (a + b) / mm for mm in self.m for a, b in zip(self.m_a, self.m_b))
        f = lambda x: max(-(2**30), min(2**30, int(sp.floor(x * 10**6))))  # noqa: E731
        return f(thr), f(pole), f(mthr)

    def value(self, sym):
        """value of a library symbol; KeyError for a symbol the call's arguments do not explain"""
        try:
            return self._value(sym)
        except (IndexError, TypeError, ValueError) as e:
            raise KeyError(f"{sym}: {e}") from e

    def _value(self, sym):
        if isinstance(sym, sp.Indexed):
            name = str(sym.base.label)
            idx = [int(i) for i in sym.indices]
            if name == "m":
                return self.m[idx[0] - 1]
            if name == "beta":
                return self.beta[idx[0] - 1]
            if name == "Gamma":
                return self.Gamma[idx[0] - 1][idx[1]]
            if name == "gamma":
                return self.gamma[idx[0] - 1][idx[1]]
            if name == "m_a":
                return self.m_a[idx[0]]
            if name == "m_b":
                return self.m_b[idx[0]]
        elif getattr(sym, "name", None) == "s":
            return self.s
        raise KeyError(str(sym))

    def describe(self):
        return {"s": str(self.s), "m_a": [str(x) for x in self.m_a], "m_b": [str(x) for x in self.m_b],
                "m": [str(x) for x in self.m], "Gamma": [[str(x) for x in r] for r in self.Gamma],
                "gamma": [[str(x) for x in r] for r in self.gamma], "beta": [str(x) for x in self.beta]}


DIGITS = 30


def unroll(e):
    return e.replace(lambda x: isinstance(x, sp.Sum), lambda x: x.doit(deep=False))


def num(e, pt: Point):
    """30-digit complex value of a (sub)expression at a parameter point."""
    e = unroll(sp.sympify(e))
    sub = {}
    for a in e.atoms(sp.Indexed):
        sub[a] = pt.value(a)
    for a in e.free_symbols:
        if isinstance(a, sp.Symbol) and not isinstance(a, sp.Indexed) and a.name == "s":
            sub[a] = pt.value(a)
    v = e.xreplace(sub).doit()
    v = sp.N(v, DIGITS)
    c = complex(v)  # raises TypeError if symbols remain
    if c != c:
        raise ValueError("nan")
    return v


def num_matrix(M, pt: Point):
    """Value of a formulated matrix *as formulated*: Sum and phase-space subtrees are
    evaluated once each and substituted into the matrix expression."""
    phs = tuple(phsp_classes().values())
    sub = {}
    for node in M.atoms(sp.Sum):
        sub[node] = num(node, pt)
    M1 = M.xreplace(sub)
    for node in M1.atoms(*phs):
        sub[node] = num(node, pt)
    M2 = M.xreplace(sub)
    rest = {}
    for a in M2.atoms(sp.Indexed):
        rest[a] = pt.value(a)
    for a in M2.free_symbols:
        if getattr(a, "name", None) == "s":
            rest[a] = pt.value(a)
    M3 = M2.xreplace(rest).doit()
    return sp.Matrix(M3.shape[0], M3.shape[1], lambda i, j: sp.N(M3[i, j], DIGITS))


def rel_diff(a, b):
    a, b = sp.N(a, DIGITS), sp.N(b, DIGITS)
    scale = max(1, abs(a), abs(b))
    return abs(a - b) / scale


def quant(x, unit=10**-12):
    """float residual -> integer in units of `unit`, capped for 32-bit TLC integers."""
    v = sp.N(x, DIGITS) / sp.Float(unit, DIGITS)
    if not v.is_finite:
        return 2**30
    return int(min(sp.Integer(2**30), sp.ceiling(v)))


def unitarity_residuals(T):
    n = T.shape[0]
    S = sp.eye(n) + 2 * sp.I * T
    U = (S.H * S - sp.eye(n)).applyfunc(lambda x: sp.N(x, DIGITS))
    scale = max([1] + [abs(x) for x in T])
    u = max(abs(x) for x in U) / scale
    sy = max(abs(x) for x in (T - T.T)) / scale
    return u, sy


# ---- skeleton records for Trace_KMatrix -------------------------------------------------------
MATS = {"RelK": (("T", False), ("That", True)), "NRK": (("T", False),), "NRP": (("F", False),),
        "RelP": (("F", False), ("Fhat", True))}


def work_eval(job):
    """(tag, n, name, flag, points) -> [(rows | None, usedK | None, error | None)];
    points = [(ord, sub_rx | None)].  Runs in a worker process: formulates the skeleton
    itself (nothing derived from the library is cached between runs)."""
    import time

    tag, n, name, flag, points = job
    t0 = time.time()
    M = skeleton(tag, n, flag)
    t_form = time.time() - t0
    symbols = skeleton_symbols(M)
    out = []
    for ord_, sub_rx in points:
        kx, rx, px = decode(tag, n, ord_)
        if sub_rx is not None:
            rx = list(sub_rx)
        Kv, rhov, sqv, Pv = point_values(n, kx, rx, px)
        try:
            rows, used = eval_skeleton(M, n, Kv, rhov, Pv, symbols)
            out.append((rows, [[None if x is None else rat(x) for x in r] for r in used], None))
        except (NotExact, ZeroDivisionError) as e:
            out.append((None, None, f"{type(e).__name__}: {e}"[:300]))
    return {"tag": tag, "n": n, "name": name, "points": points, "out": out, "t_form": t_form, "t": time.time() - t0}


def assemble_skel(tag, n, ord_, fam, sub_rx, vals, used):
    """One "skel" record from the implementation's exact matrices (vals: name -> rows)."""
    kx, rx, px = decode(tag, n, ord_)
    sub = 0
    if sub_rx is not None:
        rx, sub = list(sub_rx), 1
    Kv, rhov, sqv, Pv = point_values(n, kx, rx, px)
    rec = {"k": "skel", "fam": fam, "cls": tag, "n": n, "ord": ord_, "sub": sub, "kx": kx, "rx": rx, "px": px, "oob": 0}
    # what was substituted, as logged inputs (slots a skeleton does not contain fall back to the point)
    rec["K"] = [[(used[i][j] if used and used[i][j] is not None else rat(Kv[i][j])) for j in range(n)] for i in range(n)]
    if tag in ("RelK", "RelP"):
        rec["rho"] = [gauss(x) for x in rhov]
        rec["sq"] = [gauss(sp.sqrt(x)) for x in rhov]
    if tag in ("NRP", "RelP"):
        rec["P"] = [[gauss(x)] for x in Pv]
    big = max(abs(x) for v in vals.values() for r in v for g in r for x in g)
    if tag in ("RelK", "NRK"):
        c = max(common_den(v) for v in vals.values())
        if c > CMAX or big >= 2**31:
            if sub:
                return None  # a sub-threshold sample outside the integer budget is simply not used
            rec["oob"] = 1
            rec["_vals"] = vals
            return rec
    elif big >= 2**31:
        rec["oob"] = 2  # cannot be sent to TLC at all (never seen on the lattice)
        return rec
    rec.update(vals)
    return rec


def to_matrix(rows):
    return sp.Matrix(len(rows), len(rows[0]), lambda i, j: sp.Rational(rows[i][j][0], rows[i][j][1]) + sp.I * sp.Rational(rows[i][j][2], rows[i][j][3]))


def exact_unitary(rows):
    """Exact adjudication in SymPy (only used when a matrix cannot be sent to TLC)."""
    T = to_matrix(rows)
    n = T.shape[0]
    S = sp.eye(n) + 2 * sp.I * T
    return (S.H * S - sp.eye(n)).applyfunc(sp.expand) == sp.zeros(n, n), T == T.T


def nontrivial_point(n, kx):
    return any(k != 2 for k in kx)  # K is not the zero matrix (KVals[2] = 0)


# ---- workers for the structural and observation records ------------------------------------------
def _numeric_same(a, b, n, np_, seed, pts=3, real_beta=False):
    """max relative difference of two expressions / matrices on seeded points."""
    rng = random.Random(seed)
    worst = sp.Float(0)
    try:
        for _ in range(pts):
            pt = Point(rng, n, np_, real_beta=real_beta)
            if hasattr(a, "shape"):
                A, B = num_matrix(a, pt), num_matrix(b, pt)
                for x, y in zip(A, B):
                    worst = max(worst, rel_diff(x, y))
            else:
                worst = max(worst, rel_diff(num(a, pt), num(b, pt)))
    except (KeyError, TypeError, ValueError, ZeroDivisionError):
        # symbols that the arguments do not explain / no finite value: certainly not the same
        return sp.Float(10) ** 6
    return worst


def work_param(job):
    tag, i, j, np_, L, d, Xn, seed = job
    X = phsp_classes()[Xn] if Xn != "none" else None
    e1 = k_parametrization(tag, i, j, np_, L, d, X)
    e2 = k_parametrization(tag, j, i, np_, L, d, X)
    if e1 == e2:
        eq = 1
    else:
        eq = 2 if _numeric_same(e1, e2, max(i, j) + 1, np_, seed) < sp.Float("1e-12") else 0
    return {"k": "param", "cls": tag, "i": i, "j": j, "np": np_, "L": L, "d": d, "X": Xn, "eq": eq,
            "t1": project_term(e1), "t2": project_term(e2)}


def adjudicate_param(tag, i, j, np_, L, d, Xn, seed):
    """library parametrization(i,j) against the property's formula, numerically."""
    X = phsp_classes()[Xn] if Xn != "none" else None
    kw = {} if X is None else {"X": X}
    lib = k_parametrization(tag, i, j, np_, L, d, X)
    from ampform.dynamics import PhaseSpaceFactor

    exp = expected_k_term(tag, i, j, np_, L, d, X or PhaseSpaceFactor)
    return float(_numeric_same(lib, exp, max(i, j) + 1, np_, seed))


def work_pparam(job):
    tag, i, np_, L, d, seed = job
    return {"k": "pparam", "cls": tag, "i": i, "np": np_, "L": L, "d": d, "t1": project_term(p_parametrization(tag, i, np_, L, d))}


def adjudicate_pparam(tag, i, np_, L, d, seed):
    return float(_numeric_same(p_parametrization(tag, i, np_, L, d), expected_p_term(tag, i, np_, L, d), i + 1, np_, seed))


def formulate(tag, n, np_, flag=False, L=0, d=1, Xn="none", parametrize=True):
    kw = {}
    if tag in FLAG:
        kw[FLAG[tag]] = bool(flag)
    if Xn != "none":
        kw.update(phsp_factor=phsp_classes()[Xn], angular_momentum=L, meson_radius=d)
    return cls_of(tag).formulate(n_channels=n, n_poles=np_, parametrize=parametrize, **kw)


def work_compose(job):
    """formulate(...) against skeleton o parametrisation with the identity index maps."""
    tag, n, np_, flag, L, d, Xn, seed = job
    y = std_symbols()
    R = formulate(tag, n, np_, flag, L, d, Xn)
    S = skeleton(tag, n, flag)
    K, P, rho, _ = skeleton_symbols(S)
    ktag = {"RelP": "RelK", "NRP": "NRK"}.get(tag, tag)
    X = phsp_classes()[Xn if Xn != "none" else "PhaseSpaceFactor"]
    Lx, dx = (L, d) if Xn != "none" else (0, 1)
    E = S.xreplace({sym: k_parametrization(ktag, i, j, np_, Lx, dx, X) for (i, j), sym in K.items()})
    E = E.xreplace({sym: p_parametrization(tag, i, np_, Lx, dx) for i, sym in P.items()})
    E = E.xreplace({sym: X(y["s"], y["m_a"][i], y["m_b"][i]) for i, sym in rho.items()})
    diff = 0.0
    if E == R:
        eq = 1
    else:
        diff = float(_numeric_same(sp.Matrix(E), sp.Matrix(R), n, np_, seed))
        eq = 2 if diff < 1e-12 else 0
    return {"k": "compose", "cls": tag, "n": n, "np": np_, "flag": int(bool(flag)), "L": L, "d": d, "X": Xn, "eq": eq,
            "kmap": [[i, j, i, j] for (i, j) in sorted(K)], "rmap": [[i, i, i] for i in sorted(rho)],
            "pmap": [[i, i] for i in sorted(P)], "_diff": diff}


def work_obs(job):
    tag, n, np_, L, d, Xn, seed = job
    rng = random.Random(seed)
    pt = Point(rng, n, np_)
    thr, pole, mthr = pt.margins()
    rec = {"k": "obs", "cls": tag, "n": n, "np": np_, "L": L, "d": d, "X": Xn, "thr": thr, "pole": pole, "mthr": mthr,
           "uq": 0, "sq": 0, "finite": 1, "_pt": pt.describe()}
    try:
        T = formulate(tag, n, np_, False, L, d, Xn)
        Tv = num_matrix(T, pt)
        u, sy = unitarity_residuals(Tv)
        rec["uq"], rec["sq"] = quant(u), quant(sy)
        rec["_u"], rec["_s"] = float(u), float(sy)
    except (KeyError, TypeError, ValueError, ZeroDivisionError) as e:
        rec["finite"] = 0
        rec["_err"] = f"{type(e).__name__}: {e}"[:200]
    return rec


def work_obs_below(job):
    """Observation with a pole mass below the threshold of channel 1 (n_channels = 2), s above
    every threshold.  job = (n_poles, L, d, phase-space class, seed, fixed): fixed = the
    reference point m_R = 1.5, m_a[1] = m_b[1] = 0.9, s = 5; otherwise seeded around it."""
    np_, L, d, Xn, seed, fixed = job
    rng = random.Random(seed)
    q = lambda lo, hi: sp.Rational(rng.randint(int(lo * 1000), int(hi * 1000)), 1000)  # noqa: E731
    pt = Point(rng, 2, np_)
    heavy = sp.Rational(9, 10) if fixed else q(0.88, 1.0)
    pt.m_a[1] = pt.m_b[1] = heavy                                 # threshold of channel 1 >= 1.76
    pt.m = [sp.Rational(3, 2) if fixed else q(1.2, 1.7)]          # above channel 0 (<= 1.1), below channel 1
    pt.m += [sp.Rational(13, 5) + sp.Rational(k, 4) for k in range(np_ - 1)]   # further poles above every threshold
    pt.s = sp.Integer(5) if fixed else q(4.2, 6.0)
    thr = min(1 - (a + b) ** 2 / pt.s for a, b in zip(pt.m_a, pt.m_b))
    pole = min(abs(pt.s - mm**2) / pt.s for mm in pt.m)
    mbelow = max((a + b - mm) / mm for mm in pt.m for a, b in zip(pt.m_a, pt.m_b))
    f = lambda x: max(-(2**30), min(2**30, int(sp.floor(x * 10**6))))  # noqa: E731
    rec = {"k": "obsb", "cls": "RelK", "n": 2, "np": np_, "L": L, "d": d, "X": Xn, "thr": f(thr), "pole": f(pole), "mbelow": f(mbelow),
           "uq": 0, "sq": 0, "finite": 1, "_pt": pt.describe(), "_job": list(job)}
    try:
        u, sy = unitarity_residuals(num_matrix(formulate("RelK", 2, np_, False, L, d, Xn), pt))
        rec["uq"], rec["sq"] = quant(u), quant(sy)
        rec["_u"], rec["_s"] = float(u), float(sy)
    except (KeyError, TypeError, ValueError, ZeroDivisionError) as e:
        rec["finite"] = 0
        rec["_err"] = f"{type(e).__name__}: {e}"[:200]
    return rec


def strip(rec):
    """drop driver-side fields (leading underscore) before a record is sent to TLC."""
    return {k: v for k, v in rec.items() if not k.startswith("_")}


# ---- C10: dataflow and one-channel one-pole reduction ---------------------------------------------
# phase-space implementations that are real above threshold (the others are complex there)
REAL_X = ("PhaseSpaceFactor", "PhaseSpaceFactorAbs", "PhaseSpaceFactorComplex", "BreakupMomentumSquared", "VfPhaseSpace")
ALL_X = REAL_X + ("PhaseSpaceFactorSWave", "EqualMassPhaseSpaceFactor")


def work_flow_group(jobs):
    """several flow jobs in one process (shares the expensive n = 3 skeleton)"""
    return [work_flow(j) for j in jobs]

def work_flow(job):
    tag, n, np_, flag, L, d, Xn = job
    kw = {}
    if tag in FLAG:
        kw[FLAG[tag]] = bool(flag)
    M = cls_of(tag).formulate(n_channels=n, n_poles=np_, phsp_factor=phsp_classes()[Xn], angular_momentum=L, meson_radius=d, **kw)
    rec = {"k": "flow", "cls": tag, "n": n, "np": np_, "flag": int(bool(flag)), "X": Xn, "L": L, "d": d}
    rec.update(walk_flow(M))
    return rec


def work_reduce(job):
    """n_channels = 1, n_poles = 1 against the library's Breit-Wigner functions (as the
    K-matrix documentation states the reduction), numerically on seeded points."""
    from ampform.dynamics import (
        EnergyDependentWidth,
        relativistic_breit_wigner,
        relativistic_breit_wigner_with_ff,
    )
    from ampform.dynamics.form_factor import FormFactor

    tag, form, L, d, Xn, unit, seed = job  # unit: gamma = beta = 1 (the documentation's statement)
    y = std_symbols()
    s, m, G, g, b = y["s"], y["m"][1], y["Gamma"][1, 0], y["gamma"][1, 0], y["beta"][1]
    ma, mb = y["m_a"][0], y["m_b"][0]
    X = phsp_classes()[Xn if Xn != "none" else "PhaseSpaceFactor"]
    flag = form in ("That", "Fhat")
    lib = formulate(tag, 1, 1, flag, L, d, Xn)[0]
    if form == "Fdoc":
        # the documentation's own procedure: "neglect the phase space factors sqrt(rho_0(s))"
        r0 = X(s, ma, mb)
        lib = lib.xreplace({sp.sqrt(r0): 1, sp.conjugate(sp.sqrt(r0)): 1})
    if tag == "NRK":
        exp = relativistic_breit_wigner(s, m, g**2 * G)
    elif tag == "NRP":
        exp = b / g * relativistic_breit_wigner(s, m, g**2 * G)
    elif tag == "RelK":
        width = EnergyDependentWidth(s, m, G, ma, mb, L, d, X)
        rho = X(s, ma, mb)
        exp = g**2 * m * width / (m**2 - s - sp.I * rho * g**2 * m * width)
        if not flag:
            exp = sp.conjugate(sp.sqrt(rho)) * sp.sqrt(rho) * exp
    else:
        width = EnergyDependentWidth(s, m, G, ma, mb, L, d, X)
        if unit:
            exp = relativistic_breit_wigner_with_ff(s, m, G, ma, mb, L, d, X)
        else:
            exp = b * g * m * G * FormFactor(s, ma, mb, L, d) / (m**2 - s - sp.I * g**2 * m * width)
        if form == "F":
            exp = sp.sqrt(X(s, ma, mb)) * exp
    lib_u = unroll(lib)
    if unit:
        one = {g: 1, b: 1}
        lib_u, exp = lib_u.xreplace(one), exp.xreplace(one)
    # equality as terms is informational only: sympy.together/cancel conflate EnergyDependentWidth
    # nodes that differ only in their non-SymPy phsp_factor attribute, so the verdict is numeric
    struct = int(lib_u == exp)
    if not struct and tag in ("NRK", "NRP"):
        try:
            struct = int(sp.simplify(lib_u - exp) == 0)
        except Exception:  # noqa: BLE001  a failed simplification is not a verdict
            struct = 0
    rng = random.Random(seed)
    worst = sp.Float(0)
    pts = 4
    err = ""
    try:
        for _ in range(pts):
            pt = Point(rng, 1, 1)
            if unit:
                pt.gamma, pt.beta = [[sp.Integer(1)]], [sp.Integer(1)]
            worst = max(worst, rel_diff(num(lib_u, pt), num(exp, pt)))
    except (KeyError, TypeError, ValueError, ZeroDivisionError) as e:
        worst, err = sp.Float(10) ** 6, f" [{type(e).__name__}: {e}]"[:200]
    return {"k": "reduce", "cls": tag, "form": form, "X": Xn, "L": L, "d": d, "unit": int(unit), "struct": struct, "pts": pts,
            "resq": quant(worst), "_diff": float(worst), "_lib": str(lib)[:400] + err, "_exp": str(exp)[:400]}
