"""Discovery of ampform's expression classes and generic instance factories (C14 / C15).

The class universe is found by introspecting the installed ampform package at run time:
every sp.Basic subclass defined in an ampform module — the classes produced by the
@unevaluated decorator (they carry dataclass fields), the array / sum helper classes,
PoolSum, UnevaluatableIntegral, ComplexSqrt, ... — so that a class added later is included.
Each class gets an Embedding: how abstract arguments (model positions) and abstract attribute
labels are placed into a real instance, and its signature (number of SymPy positions used by
the model: 1 or 2, number of non-SymPy attributes varied: 0..2, whether doit() unfolds)."""
from __future__ import annotations

import dataclasses
import importlib
import inspect
import pkgutil
import warnings

import sympy as sp

# fields whose generic symbol filler would make doit() needlessly expensive or ill-typed
FILLERS = {
    "angular_momentum": sp.Integer(1),
    "meson_radius": sp.Integer(1),
    "l": sp.Integer(1),
}
ATTR_ALT_STR = "q"
# fields that are summation limits / orders, not expressions: they keep their filler value in the replays
# (Trace_Expr still covers substitution into them)
INDEX_LIKE = ("angular_momentum", "l")


def walk_modules():
    import ampform

    mods, failed = [], []
    for m in pkgutil.walk_packages(ampform.__path__, "ampform."):
        try:
            with warnings.catch_warnings():
                warnings.simplefilter("ignore")
                mods.append(importlib.import_module(m.name))
        except Exception as e:  # noqa: BLE001
            failed.append((m.name, repr(e)))
    return mods, failed


def _is_sympify(f):
    return bool(f.metadata.get("sympify", True))


class Embedding:
    """One real class + how model arguments/attributes are embedded into an instance."""

    def __init__(self, cls, *, kind, sympy_fields=(), attr_fields=(), attr_values=None, builder=None, parter=None,
                 n_positions=None, has_eval=False, note=""):
        self.cls = cls
        self.name = cls.__name__
        self.qualname = f"{cls.__module__}.{cls.__qualname__}"
        self.kind = kind  # "decorated" | "helper" | "fixture"
        self.sympy_fields = list(sympy_fields)
        self.attr_fields = list(attr_fields)
        self.attr_values = attr_values or {}  # field -> [value for label "a", value for label "b"]
        self.builder = builder
        self.parter = parter
        self.n_positions = n_positions if n_positions is not None else len(self.sympy_fields)
        self.has_eval = has_eval
        self.note = note

    @property
    def expr_positions(self):
        """real positions that accept arbitrary (nested) expressions"""
        if self.builder is not None:
            return list(range(self.ar))
        return [i for i, f in enumerate(self.sympy_fields) if f not in INDEX_LIKE]

    # ---- signature -----------------------------------------------------------------------
    @property
    def ar(self):
        if self.builder is None and self.sympy_fields:
            return min(len([f for f in self.sympy_fields if f not in INDEX_LIKE]), 2)
        return min(self.n_positions, 2)

    @property
    def na(self):
        return min(len([f for f in self.attr_fields if len(self.attr_values.get(f, [])) >= 2]), 2)

    @property
    def varied_attr_fields(self):
        return [f for f in self.attr_fields if len(self.attr_values.get(f, [])) >= 2][:2]

    @property
    def sig(self):
        return f"{self.ar}{self.na}{'e' if self.has_eval else 'n'}"

    def all_sympy(self):
        return not self.attr_fields

    # ---- building ---------------------------------------------------------------------------
    def filler(self, i):
        name = self.sympy_fields[i] if i < len(self.sympy_fields) else f"arg{i}"
        return FILLERS.get(name, sp.Symbol(f"u{i}"))

    def build(self, args, attrs=(), active=None):
        """args: real objects for the model positions; active: tuple of real positions (default first ones)"""
        if active is None:
            active = tuple(range(len(args)))
        if self.builder is not None:
            return self.builder(list(args), active, tuple(attrs))
        values = {f: self.filler(i) for i, f in enumerate(self.sympy_fields)}
        for pos, a in zip(active, args):
            values[self.sympy_fields[pos]] = a
        for f in self.attr_fields:
            vals = self.attr_values.get(f)
            if vals:
                values[f] = vals[0]
        for f, lbl in zip(self.varied_attr_fields, attrs):
            values[f] = self.attr_values[f][0 if lbl == "a" else 1]
        return self.cls(**values)

    def parts(self, obj, active):
        """inverse of build: (model args, attribute labels) or None if obj does not have the embedded shape"""
        if type(obj) is not self.cls:
            return None
        if self.parter is not None:
            r = self.parter(obj, active)
            if r is None:
                return None
            return r if isinstance(r, tuple) else (r, ())
        args = []
        for i, f in enumerate(self.sympy_fields):
            v = getattr(obj, f)
            if i in active:
                continue
            if v != self.filler(i):
                return None
        for pos in active:
            args.append(getattr(obj, self.sympy_fields[pos]))
        labels = []
        for f in self.varied_attr_fields:
            v = getattr(obj, f)
            vals = self.attr_values[f]
            if v is vals[0] or (v == vals[0] and type(v) is type(vals[0])):
                labels.append("a")
            elif v is vals[1] or (v == vals[1] and type(v) is type(vals[1])):
                labels.append("b")
            else:
                return None
        return args, tuple(labels)

    def attrs_of(self, obj):
        return {f: getattr(obj, f, "<missing>") for f in self.attr_fields}

    def describe(self):
        return {"class": self.qualname, "kind": self.kind, "sympy_fields": self.sympy_fields or self.n_positions,
                "non_sympy_fields": self.attr_fields, "signature": self.sig, "doit_unfolds": self.has_eval, **({"note": self.note} if self.note else {})}


def _attr_candidates(field, all_classes):
    """admissible values of a non-SymPy field: its default plus one alternative of the same type"""
    default = field.default if field.default is not dataclasses.MISSING else None
    tp = str(field.type)
    if default is None and ("str" in tp):
        return [None, ATTR_ALT_STR]
    if isinstance(default, str):
        return [default, default + ATTR_ALT_STR]
    if isinstance(default, bool):
        return [default, not default]
    if isinstance(default, int):
        return [default, default + 1]
    if inspect.isclass(default):
        # another discovered class with the same constructor fields (e.g. another phase-space factor)
        try:
            want = [f.name for f in dataclasses.fields(default)]
        except TypeError:
            return [default]
        for c in all_classes:
            if c is not default and dataclasses.is_dataclass(c) and [f.name for f in dataclasses.fields(c)] == want and "PhaseSpaceFactor" in c.__name__:
                return [default, c]
        for c in all_classes:
            if c is not default and dataclasses.is_dataclass(c) and [f.name for f in dataclasses.fields(c)] == want:
                return [default, c]
        return [default]
    if default is None:
        return [None]
    return [default]


_K = sp.Symbol("k_")
_T = sp.Symbol("t_")
_F = sp.Function("F")


def _special(cls):
    """hand-written embeddings for the helper classes that are not dataclass-like"""
    n = cls.__name__
    if n == "PoolSum":
        return dict(n_positions=1, has_eval=True, builder=lambda a, act, at=(): cls(_F(a[0], _K), (_K, (0, 1))),
                    parter=lambda e, act: [e.args[0].args[0]] if getattr(e.args[0], "func", None) == _F and e.args[1][0] == _K else None)
    if n == "UnevaluatableIntegral":
        return dict(n_positions=2, builder=lambda a, act, at=(): cls(_F(a[0], _T), (_T, 0, a[1] if len(a) > 1 else sp.Symbol("u1"))),
                    parter=lambda e, act: [e.args[0].args[0], e.args[1][2]][: len(act)] if getattr(e.args[0], "func", None) == _F else None)
    if n == "_SymbolicSum":
        return dict(n_positions=1, has_eval=True, builder=lambda a, act, at=(): cls(_F(a[0], _K), (_K, 0, 2)),
                    parter=lambda e, act: [e.args[0].args[0]] if getattr(e.args[0], "func", None) == _F else None)
    if n == "ArraySlice":
        return dict(n_positions=1, builder=lambda a, act, at=(): cls(a[0], (slice(None), 0)), parter=lambda e, act: [e.args[0]])
    if n == "ArrayElement":
        return dict(n_positions=1, builder=lambda a, act, at=(): cls(a[0], (0,)), parter=lambda e, act: [e.args[0]])
    if n == "ArrayAxisSum":
        return dict(n_positions=1, builder=lambda a, act, at=(): cls(a[0], 1), parter=lambda e, act: [e.args[0]])
    if n in ("ArraySum", "ArrayMultiplication", "MatrixMultiplication"):
        return dict(n_positions=2, builder=lambda a, act, at=(): cls(*a), parter=lambda e, act: list(e.args))
    if n == "ComplexSqrt":
        return dict(n_positions=1, builder=lambda a, act, at=(): cls(a[0]), parter=lambda e, act: [e.args[0]])
    return None


def discover():
    """-> (embeddings, not_instantiable, failed_imports)"""
    mods, failed = walk_modules()
    classes = []
    for mod in mods:
        for _, c in sorted(vars(mod).items()):
            if inspect.isclass(c) and c.__module__.startswith("ampform") and issubclass(c, sp.Basic) and c not in classes:
                classes.append(c)
    classes.sort(key=lambda c: (c.__module__, c.__qualname__))
    embs, bad = [], []
    x, y = sp.symbols("x y")
    for c in classes:
        try:
            emb = _embedding_for(c, classes)
            # smoke test: the generic instance must be constructible
            probe = emb.build([x, y][: emb.ar], tuple("a" for _ in range(emb.na)), tuple(range(emb.ar)))
            if not isinstance(probe, sp.Basic):
                raise TypeError(f"constructor returned {type(probe).__name__}")
            if type(probe) is not c:
                raise TypeError(f"constructor returned an instance of {type(probe).__name__}")
            embs.append(emb)
        except Exception as e:  # noqa: BLE001
            bad.append({"class": f"{c.__module__}.{c.__qualname__}", "reason": repr(e)[:200]})
    return embs, bad, failed


def _has_unfolding_doit(c):
    return callable(getattr(c, "evaluate", None)) and c.doit is not sp.Basic.doit and c.doit is not sp.Expr.doit


def _embedding_for(c, classes):
    if dataclasses.is_dataclass(c) and dataclasses.fields(c):
        flds = dataclasses.fields(c)
        sf = [f.name for f in flds if _is_sympify(f)]
        af = [f for f in flds if not _is_sympify(f)]
        if not sf:
            raise TypeError("no SymPy field")
        return Embedding(c, kind="decorated", sympy_fields=sf, attr_fields=[f.name for f in af],
                         attr_values={f.name: _attr_candidates(f, classes) for f in af}, has_eval=_has_unfolding_doit(c))
    sp_ = _special(c)
    if sp_ is not None:
        return Embedding(c, kind="helper", **sp_)
    # generic fallback for an unknown class: positional symbols
    x, y = sp.symbols("x y")
    last = None
    for n in (1, 2):
        try:
            obj = c(*[x, y][:n])
            if isinstance(obj, c):
                return Embedding(c, kind="helper", n_positions=n, has_eval=_has_unfolding_doit(c),
                                 builder=lambda a, act, at=(), c=c: c(*a), parter=lambda e, act: list(e.args), note="generic positional instance")
        except Exception as e:  # noqa: BLE001
            last = e
    raise TypeError(f"no generic instance: {last!r}")


def fixtures():
    """classes built with the deprecated UnevaluatedExpression API (the package itself no longer
    contains a subclass, the machinery is still public)"""
    from .expr_fixtures import InterleavedExpr, LegacyExpr

    inter = _embedding_for(InterleavedExpr, [InterleavedExpr])
    inter.kind = "fixture"
    inter.note = "harness fixture built with @unevaluated: a non-SymPy field declared between two SymPy fields"
    return [inter, Embedding(LegacyExpr, kind="fixture", n_positions=2, has_eval=True,
                      attr_fields=["_name"], attr_values={"_name": [None, "q"]},
                      builder=lambda a, act, at=(): LegacyExpr(*a, name=(None if not at or at[0] == "a" else "q")),
                      parter=lambda e, act: (list(e.args), ("a" if e._name is None else "b",)),
                      note="harness fixture built with UnevaluatedExpression/create_expression/implement_doit_method")]
