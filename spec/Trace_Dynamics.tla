--------------------------- MODULE Trace_Dynamics ---------------------------
(* C13, code -> spec.  One trace per (reaction, history of assignments):
     Start      {trs}                abstract transitions of the reaction
     AssignName {name, tag}          dynamics.assign(<particle name or Particle>, builder_tag)
     AssignNode {tr, node, tag}      dynamics.assign(TwoBodyDecay | (transition, node), builder_tag)
     Formulate  {chains}             per transition: the tagged dynamics factors found in its chain,
                                      each <<tag, m(parent), m(child1), m(child2), L2>> with masses as id lists
     Defaults   {rows}               library builders: <<resonance, table mass, table width, default mass, default width>> (micro-units)
   The specification keeps its own selector state `choice` keyed by the decay identity it computes
   from the abstract transitions, and recomputes the expected factors of every chain. *)
EXTENDS Amplitude, Json, IOUtils

Log == ndJsonDeserialize(IOEnv.TRACE_FILE)
VARIABLES l, trs, choice
Rec == Log[l]
Clause(name, ok, info) == IF ok THEN TRUE ELSE PrintT(<<"REJECT", name, Rec.tid, info>>)

\* identity of a decay: parent and children with edge id, particle and helicity, plus the interaction
EdgeKey(tr, S) == LET e == tr.edges[EdgeIx(tr, S)] IN <<e.eid, e.part, e.hel2>>
DecayKey(tr, S) == LET T == TreeOf(tr)  nd == tr.nodes[NodeIx(tr, S)] IN
  <<EdgeKey(tr, S), EdgeKey(tr, HelChild(T, S)), EdgeKey(tr, OppChild(T, S)), nd.L2, nd.S2, nd.eta>>
\* the selector knows the decays of every transition and of its symmetrisation variants
Variants(ts) == UNION { SymVariants(ts[i]) : i \in DOMAIN ts }
AllDecays(ts) == UNION { { DecayKey(v, S) : S \in Inner(TreeOf(v)) } : v \in Variants(ts) }
ParentName(k) == k[1][2]

\* orbital angular momentum handed to the lineshape: the node's L when the transition specifies
\* one, else the parent's spin if that is integral, else none
EffL2(tr, S) == LET nd == tr.nodes[NodeIx(tr, S)] IN
  IF nd.L2 # NONE THEN nd.L2 ELSE IF Spin2(tr, S) % 2 = 0 THEN Spin2(tr, S) ELSE NONE
ExpectedDyn(tr) == LET T == TreeOf(tr) IN
  { <<choice[DecayKey(tr, S)], S, HelChild(T, S), OppChild(T, S), EffL2(tr, S)>> :
      S \in { X \in Inner(T) : choice[DecayKey(tr, X)] # "none" } }
ObsDyn(c) == { <<c.dyn[i][1], ToSet(c.dyn[i][2]), ToSet(c.dyn[i][3]), ToSet(c.dyn[i][4]), c.dyn[i][5]>> : i \in DOMAIN c.dyn }

TStart == /\ Rec.ev = "Start"
          /\ trs' = Rec.trs
          /\ choice' = [k \in AllDecays(Rec.trs) |-> "none"]
TAssignName == /\ Rec.ev = "AssignName"
               /\ choice' = [k \in DOMAIN choice |-> IF ParentName(k) = Rec.name THEN Rec.tag ELSE choice[k]]
               /\ UNCHANGED trs
TAssignNode == /\ Rec.ev = "AssignNode"
               /\ LET k == DecayKey(trs[Rec.tr], ToSet(Rec.node)) IN choice' = [choice EXCEPT ![k] = Rec.tag]
               /\ UNCHANGED trs
TFormulate == /\ Rec.ev = "Formulate"
              /\ \A i \in DOMAIN trs :
                   /\ Clause("dynamics-attached-to-exactly-the-selected-nodes-with-their-own-variables",
                             \* (with identical final-state particles the named component holds one symmetrisation variant)
                             Rec.chains[i].found = 1 => \E v \in SymVariants(trs[i]) :
                                  /\ ObsDyn(Rec.chains[i]) = ExpectedDyn(v)
                                  /\ Len(Rec.chains[i].dyn) = Cardinality(ExpectedDyn(v)),   \* one factor per selected node
                             <<i, ObsDyn(Rec.chains[i]), ExpectedDyn(trs[i])>>)
              /\ PrintT(<<"STAT", "formulate-chains", Len(trs)>>)
              /\ PrintT(<<"STAT", "nodes-with-dynamics", Cardinality(UNION { ExpectedDyn(trs[i]) : i \in DOMAIN trs })>>)
              /\ UNCHANGED <<trs, choice>>
TDefaults == /\ Rec.ev = "Defaults"
             /\ \A i \in DOMAIN Rec.rows :
                  LET r == Rec.rows[i] IN
                  /\ Clause("mass-default-is-tabulated-mass", r[2] = r[4], r)
                  /\ Clause("width-default-is-tabulated-width", r[3] = r[5], r)
             /\ \A i \in DOMAIN Rec.dups : Clause("equal-named-parameters-carry-equal-defaults", Rec.dups[i][2] = Rec.dups[i][3], Rec.dups[i])
             \* (builders that share parameter names: every parameter of every lineshape still gets its default)
             /\ Clause("every-lineshape-parameter-has-a-default", Rec.missing = <<>>, Rec.missing)
             /\ PrintT(<<"STAT", "default-rows", Len(Rec.rows)>>)
             /\ UNCHANGED <<trs, choice>>
\* the selector is a mapping over exactly the decays of the reaction (incl. symmetrisation variants);
\* lookup by (transition, node) and by decay agree
TShape == /\ Rec.ev = "Shape"
          /\ Clause("selector-has-one-entry-per-decay", Rec.n = Cardinality(DOMAIN choice), <<Rec.n, Cardinality(DOMAIN choice)>>)
          /\ Clause("lookup-by-tuple-equals-lookup-by-decay", Rec.tuple_lookup_ok = 1, "")
          /\ Clause("initially-non-dynamic", Rec.all_non_dynamic = 1, "")
          /\ UNCHANGED <<trs, choice>>
Step == /\ l <= Len(Log)
        /\ (TStart \/ TAssignName \/ TAssignNode \/ TFormulate \/ TDefaults \/ TShape)
        /\ l' = l + 1
TraceInit == l = 1 /\ trs = <<>> /\ choice = <<>>
TraceSpec == TraceInit /\ [][Step]_<<l, trs, choice>>
TraceAccepted == TLCGet("stats").diameter = Len(Log) + 1
=============================================================================
