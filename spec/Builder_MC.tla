---------------------------- MODULE Builder_MC ----------------------------
EXTENDS Builder
DevNone == {}
DevPinned == {"DpdCacheAliasing"}
DevNoReset == {"NoReset"}
DevResetAtEnd == {"ResetAtEnd"}
DevSharedNameMap == {"SharedNameMap"}
DevLazyNameMapOnLs == {"LazyNameMapOnLs"}
DevCrossReactionCache == {"CrossReactionCache"}
\* builders 1 and 2 work on the reaction as generated ("full"), builder 3 on the same decay with a restricted
\* helicity set of the initial state ("sub")
DevProcessWideMemo == {"ProcessWideMemo"}
\* builder 4: the same reaction with another label (LaTeX name) of its resonances - equal for qrules, different for the model
RxMap == [b \in Builders |-> IF b = 3 THEN "sub" ELSE IF b = 4 THEN "relab" ELSE "full"]
\* bound the configuration space explored exhaustively: at most one builder has assigned dynamics
=============================================================================
