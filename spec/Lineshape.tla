------------------------------ MODULE Lineshape ------------------------------
(***************************************************************************)
(* Reference semantics of ampform.dynamics lineshape ingredients, exact.   *)
(*                                                                         *)
(*  Part 1 (C11)  two-body phase space on small rationals <<num,den>>      *)
(*     (gcd-normalised, den > 0, every intermediate < 2^31):               *)
(*     q^2(s,m1,m2), the regions of the real s axis, and for every         *)
(*     algebraic phase-space-factor variant X its SQUARE rho_X^2 and the   *)
(*     QUADRANT of rho_X (positive/negative real/imaginary, zero), derived *)
(*     from the definitions 2 sqrt(arg)/sqrt(s) with the principal square  *)
(*     root.  The transcendental variants (Chew-Mandelstam S-wave, equal-  *)
(*     mass continuation) have a reference only where the property gives   *)
(*     one: Re rho = 2q/sqrt(s) above threshold; value 0 at threshold.     *)
(*                                                                         *)
(*  Part 2 (C12)  Blatt-Weisskopf B_L^2(z) = |h_L(1)|^2 / (|h_L(sqrt z)|^2 *)
(*     z) from the spherical-Hankel sum                                    *)
(*        h_L(x) = (-i)^(L+1) e^(ix)/x  SUM_k (L+k)!/((L-k)! k!) (i/2x)^k  *)
(*     so that |h_L(sqrt z)|^2 z = Re^2 + Im^2/z with Re, Im polynomials   *)
(*     in 1/z.  Coefficients b(L,k) = (L+k)!/((L-k)! k! 2^k) reach 6.5e8   *)
(*     and their squares 4.3e17 for L = 10, so this part uses LineshapeBig *)
(*     (limb arithmetic) throughout; the energy-dependent width            *)
(*     Gamma(s)/Gamma0 = B_L^2(z)/B_L^2(z0) * rho(s)/rho(m0^2) as square   *)
(*     and quadrant.                                                       *)
(***************************************************************************)
EXTENDS LineshapeBig

----------------------------------------------------------------------------
\* small rationals
AbsI(x) == IF x < 0 THEN -x ELSE x
SgnI(x) == IF x > 0 THEN 1 ELSE IF x < 0 THEN -1 ELSE 0
RECURSIVE GCD(_, _)
GCD(a, b) == IF b = 0 THEN a ELSE GCD(b, a % b)
RNorm(n, d) == LET g == GCD(AbsI(n), AbsI(d))
                   sg == IF d < 0 THEN -1 ELSE 1
               IN <<(sg * n) \div g, (sg * d) \div g>>                \* d # 0
IsRat(a) == Len(a) = 2 /\ a[2] > 0 /\ GCD(AbsI(a[1]), a[2]) = 1
R(i) == <<i, 1>>
RAdd(a, b) == RNorm(a[1] * b[2] + b[1] * a[2], a[2] * b[2])
RNeg(a) == <<-a[1], a[2]>>
RSub(a, b) == RAdd(a, RNeg(b))
RMul(a, b) == RNorm(a[1] * b[1], a[2] * b[2])
RDiv(a, b) == RNorm(a[1] * b[2], a[2] * b[1])                          \* b # 0
RSq(a) == RMul(a, a)
RSign(a) == SgnI(a[1])
RAbs(a) == <<AbsI(a[1]), a[2]>>
RLt(a, b) == a[1] * b[2] < b[1] * a[2]

----------------------------------------------------------------------------
\* Part 1: break-up momentum, regions, phase-space factors
Thr(m1, m2) == RSq(RAdd(m1, m2))
PThr(m1, m2) == RSq(RSub(m1, m2))
\* (s - (m1+m2)^2)(s - (m1-m2)^2)/(4s), s # 0
Q2(s, m1, m2) == RDiv(RMul(RSub(s, Thr(m1, m2)), RSub(s, PThr(m1, m2))), RMul(R(4), s))

Region(s, m1, m2) ==
  IF RSign(s) < 0 THEN "neg"
  ELSE IF RSign(s) = 0 THEN "pole"                      \* q^2 has a pole (or 0/0 for m1 = m2)
  ELSE IF RLt(s, PThr(m1, m2)) THEN "low"
  ELSE IF s = PThr(m1, m2) THEN "pth"
  ELSE IF RLt(s, Thr(m1, m2)) THEN "mid"
  ELSE IF s = Thr(m1, m2) THEN "thr"
  ELSE "above"
Regions == <<"neg", "pole", "low", "pth", "mid", "thr", "above">>
RegionRank(r) == CHOOSE i \in 1..7 : Regions[i] = r

\* quadrants of the complex plane as multiples of i: value = |value| * i^k
Quads == <<"pr", "pi", "nr", "ni">>
QIdx(q) == CHOOSE k \in 0..3 : Quads[k + 1] = q
QuadMul(a, b) == IF a = "zero" \/ b = "zero" THEN "zero" ELSE Quads[((QIdx(a) + QIdx(b)) % 4) + 1]
QuadDiv(a, b) == IF a = "zero" THEN "zero" ELSE Quads[((QIdx(a) - QIdx(b) + 4) % 4) + 1]   \* b # zero
\* principal square root of a real of the given sign; ComplexSqrt is defined to coincide
\* with it ("positive imaginary values for negative input")
QuadSqrt(sign) == IF sign > 0 THEN "pr" ELSE IF sign < 0 THEN "pi" ELSE "zero"
QuadOfSign(sign) == IF sign > 0 THEN "pr" ELSE IF sign < 0 THEN "nr" ELSE "zero"

PSF == "PhaseSpaceFactor"
PSFAbs == "PhaseSpaceFactorAbs"
PSFComplex == "PhaseSpaceFactorComplex"
PSFSWave == "PhaseSpaceFactorSWave"
PSFEqual == "EqualMassPhaseSpaceFactor"
Algebraic == {PSF, PSFAbs, PSFComplex}
Transcendental == {PSFSWave, PSFEqual}

\* X(s,m1,m2) = 2 sqrt(arg_X) / sqrt(s)
SqrtArg(X, s, m1, m2) == IF X = PSFAbs THEN RAbs(Q2(s, m1, m2)) ELSE Q2(s, m1, m2)
Rho2(X, s, m1, m2) == RDiv(RMul(R(4), SqrtArg(X, s, m1, m2)), s)
RhoQuad(X, s, m1, m2) ==
  LET sg == RSign(SqrtArg(X, s, m1, m2))
  IN IF sg = 0 THEN "zero" ELSE QuadDiv(QuadSqrt(sg), QuadSqrt(RSign(s)))
\* the physical phase space factor 2q/sqrt(s) above threshold (q > 0), as a square
RefRho2(s, m1, m2) == RDiv(RMul(R(4), Q2(s, m1, m2)), s)

\* ComplexSqrt(x): square x, quadrant by sign
CSqrtQuad(x) == QuadSqrt(RSign(x))

\* ---- the laws of C11 on the reference (checked exhaustively by Lineshape_MC) ----
LawQ2Symmetric(s, m1, m2) == Q2(s, m1, m2) = Q2(s, m2, m1)
LawQ2Zero(s, m1, m2) == (Q2(s, m1, m2) = R(0)) <=> (Region(s, m1, m2) \in {"pth", "thr"})
LawQ2Sign(s, m1, m2) ==
  LET r == Region(s, m1, m2) sg == RSign(Q2(s, m1, m2))
  IN sg = (CASE r \in {"neg", "mid"} -> -1 [] r \in {"low", "above"} -> 1 [] OTHER -> 0)
\* sentence 1 for the algebraic variants: above threshold rho_X is the positive real 2q/sqrt(s)
LawAbove(X, s, m1, m2) ==
  Region(s, m1, m2) = "above" =>
     Rho2(X, s, m1, m2) = RefRho2(s, m1, m2) /\ RhoQuad(X, s, m1, m2) = "pr"
\* sentence 2: between pseudo-threshold and threshold rho_complex = i rho_abs
LawBetween(s, m1, m2) ==
  Region(s, m1, m2) = "mid" =>
     /\ Rho2(PSFComplex, s, m1, m2) = RNeg(Rho2(PSFAbs, s, m1, m2))
     /\ RhoQuad(PSFComplex, s, m1, m2) = QuadMul("pi", RhoQuad(PSFAbs, s, m1, m2))
\* the quadrant of every algebraic variant as a function of the region
QuadTable(X, r) ==
  CASE r \in {"pth", "thr"} -> "zero"
    [] r \in {"low", "above"} -> "pr"
    [] r = "mid" -> IF X = PSFAbs THEN "pr" ELSE "pi"
    [] r = "neg" -> IF X = PSFAbs THEN "ni" ELSE "pr"
LawQuadTable(X, s, m1, m2) == RhoQuad(X, s, m1, m2) = QuadTable(X, Region(s, m1, m2))

----------------------------------------------------------------------------
\* Part 2: Blatt-Weisskopf from the Hankel sum (all in LineshapeBig arithmetic)

\* b(L,k) = (L+k)!/((L-k)! k! 2^k) by the ratio of consecutive terms; FactorialLemma
\* ties it to the factorials of the Hankel sum
RECURSIVE BCoef(_, _)
BCoef(L, k) == IF k = 0 THEN <<1>>
               ELSE NDivSmall(NMul(BCoef(L, k - 1), NOf((L + k) * (L - k + 1))), 2 * k)
FactorialLemma(L, k) ==
  NMul(BCoef(L, k), NMul(NFact(L - k), NMul(NFact(k), NPow(<<2>>, k)))) = NFact(L + k)

\* SUM_k b(L,k) i^k / x^k with x^2 = z, w = 1/z:
\*   real part  SUM_j (-1)^j b(L,2j)   w^j          coefficients ReC(L)[j+1]
\*   imag part  (1/x) SUM_j (-1)^j b(L,2j+1) w^j    coefficients ImC(L)[j+1]
SignedB(L, k, j) == IF j % 2 = 0 THEN ZOfN(BCoef(L, k)) ELSE ZNeg(ZOfN(BCoef(L, k)))
ReC(L) == Strict([j \in 1..((L \div 2) + 1) |-> SignedB(L, 2 * (j - 1), j - 1)])
ImC(L) == Strict([j \in 1..((L + 1) \div 2) |-> SignedB(L, 2 * (j - 1) + 1, j - 1)])

\* SUM_j c[j+1] x^j y^(deg-j)
RECURSIVE HomEvalR(_, _, _, _)
HomEvalR(c, x, y, j) ==
  IF j > Len(c) THEN ZOf(0)
  ELSE ZAdd(ZMul(c[j], ZMul(ZPow(x, j - 1), ZPow(y, Len(c) - j))), HomEvalR(c, x, y, j + 1))
HomEval(c, x, y) == HomEvalR(c, x, y, 1)

\* |SUM_k ...|^2 at z = p/q (a small rational, z # 0), as a Q
AbsS2(L, z) ==
  LET p == ZOf(z[1]) q == ZOf(z[2])
      re == <<HomEval(ReC(L), q, p), ZPow(p, Len(ReC(L)) - 1)>>
  IN IF L = 0 THEN QSq(re)
     ELSE LET im == <<HomEval(ImC(L), q, p), ZPow(p, Len(ImC(L)) - 1)>>
          IN QAdd(QSq(re), QMul(<<q, p>>, QSq(im)))
\* |h_L(sqrt z)|^2 = |S|^2 / z          (z > 0)
HankelAbs2(L, z) == QDiv(AbsS2(L, z), QOfR(z))
\* the defining expression of the code: |h_L(1)|^2 / |h_L(sqrt z)|^2 / z
BWHankel(L, z) == QDiv(QDiv(HankelAbs2(L, <<1, 1>>), HankelAbs2(L, z)), QOfR(z))

\* polynomials over Z, coefficient lists low -> high
PolyCoef(p, k) == IF k >= 1 /\ k <= Len(p) THEN p[k] ELSE ZOf(0)
RECURSIVE PolyMulCol(_, _, _, _)
PolyMulCol(p, q, k, i) == IF i > k THEN ZOf(0)
                          ELSE ZAdd(ZMul(PolyCoef(p, i), PolyCoef(q, k + 1 - i)), PolyMulCol(p, q, k, i + 1))
PolyMul(p, q) == IF Len(p) = 0 \/ Len(q) = 0 THEN <<>>
                 ELSE Strict([k \in 1..(Len(p) + Len(q) - 1) |-> PolyMulCol(p, q, k, 1)])
PolyAdd(p, q) == Strict([k \in 1..MaxI(Len(p), Len(q)) |-> ZAdd(PolyCoef(p, k), PolyCoef(q, k))])
PolyShift(p, n) == IF Len(p) = 0 THEN <<>> ELSE Strict([k \in 1..(Len(p) + n) |-> IF k <= n THEN ZOf(0) ELSE p[k - n]])
PolyRev(p) == Strict([k \in 1..Len(p) |-> p[Len(p) + 1 - k]])
RECURSIVE PolySumR(_, _)
PolySumR(p, k) == IF k > Len(p) THEN ZOf(0) ELSE ZAdd(p[k], PolySumR(p, k + 1))
PolySum(p) == PolySumR(p, 1)                                      \* p(1)
PolyEq(p, q) == /\ \A k \in 1..MaxI(Len(p), Len(q)) : ZEq(PolyCoef(p, k), PolyCoef(q, k))
\* index (1-based) of the lowest / highest non-zero coefficient; 0 for the zero polynomial
PolyLow(p) == IF \A k \in 1..Len(p) : ZSign(p[k]) = 0 THEN 0
              ELSE CHOOSE k \in 1..Len(p) : ZSign(p[k]) # 0 /\ \A j \in 1..(k - 1) : ZSign(p[j]) = 0
PolyHigh(p) == IF \A k \in 1..Len(p) : ZSign(p[k]) = 0 THEN 0
               ELSE CHOOSE k \in 1..Len(p) : ZSign(p[k]) # 0 /\ \A j \in (k + 1)..Len(p) : ZSign(p[j]) = 0

\* N_L(z) = z^L |S|^2: the denominator polynomial of the "fast path", B_L^2 = N_L(1) z^L / N_L(z)
NPoly(L) ==
  LET a == Len(ReC(L)) - 1
      r2 == PolyShift(PolyMul(PolyRev(ReC(L)), PolyRev(ReC(L))), L - 2 * a)
  IN IF L = 0 THEN r2
     ELSE LET c == Len(ImC(L)) - 1
          IN PolyAdd(r2, PolyShift(PolyMul(PolyRev(ImC(L)), PolyRev(ImC(L))), L - 1 - 2 * c))
BWNum(L) == PolyShift(<<PolySum(NPoly(L))>>, L)                    \* N_L(1) z^L
BWPoly(L, z) == <<ZMul(PolySum(NPoly(L)), ZPow(ZOf(z[1]), L)), HomEval(NPoly(L), ZOf(z[1]), ZOf(z[2]))>>

\* closed form of the coefficients (Abramowitz-Stegun 10.1.27): coefficient of z^(L-j) is b(L,j) (2j-1)!!
RECURSIVE DoubleFact(_)
DoubleFact(j) == IF j = 0 THEN <<1>> ELSE NMul(DoubleFact(j - 1), NOf(2 * j - 1))
ClosedCoef(L, j) == ZOfN(NMul(BCoef(L, j), DoubleFact(j)))

\* ---- the laws of C12 on the reference ----
LawPathsAgree(L, z) == QEq(BWHankel(L, z), BWPoly(L, z))
LawClosedForm(L) == /\ Len(NPoly(L)) = L + 1
                    /\ \A j \in 0..L : ZEq(NPoly(L)[L - j + 1], ClosedCoef(L, j))
LawOne(L) == QEq(BWPoly(L, <<1, 1>>), QOne) /\ QEq(BWHankel(L, <<1, 1>>), QOne)
\* behaves as z^L at threshold: numerator N_L(1) z^L, denominator with non-zero constant term
LawThresholdPower(L) == PolyLow(BWNum(L)) - PolyLow(NPoly(L)) = L
\* bounded on z >= 0: equal degrees and a denominator without zeros on z >= 0 (all coefficients > 0)
LawBounded(L) == /\ PolyHigh(BWNum(L)) = PolyHigh(NPoly(L))
                 /\ \A k \in 1..Len(NPoly(L)) : ZSign(NPoly(L)[k]) > 0
                 /\ ZEq(NPoly(L)[L + 1], ZOf(1))
LawBelowLimit(L, z) == L > 0 => QLt(BWPoly(L, z), <<PolySum(NPoly(L)), ZOf(1)>>)     \* B_L^2(z) < lim = N_L(1)

\* energy-dependent width  Gamma(s)/Gamma0 = (F/F0)^2 rho/rho0,  F^2 = B_L^2(q^2 d^2)
\* (F/F0)^2 is the rational B_L^2(z)/B_L^2(z0) whatever the signs; rho/rho0 by square and quadrant.
WidthDefined(X, L, s, m0, m1, m2, d) ==
  LET s0 == RSq(m0)
  IN /\ RSign(s) # 0 /\ RSign(s0) # 0
     /\ RSign(Q2(s0, m1, m2)) # 0                                           \* rho0 # 0, F0 # 0
     /\ ZSign(BWPoly(L, RMul(Q2(s0, m1, m2), RSq(d)))[2]) # 0
     /\ (RSign(Q2(s, m1, m2)) # 0 => ZSign(BWPoly(L, RMul(Q2(s, m1, m2), RSq(d)))[2]) # 0)
BRatio(L, s, m0, m1, m2, d) ==
  IF L = 0 THEN QOne
  ELSE QDiv(BWPoly(L, RMul(Q2(s, m1, m2), RSq(d))), BWPoly(L, RMul(Q2(RSq(m0), m1, m2), RSq(d))))
WidthRatioSq(X, L, s, m0, m1, m2, d) ==
  QMul(QSq(BRatio(L, s, m0, m1, m2, d)),
       QDiv(QOfR(Rho2(X, s, m1, m2)), QOfR(Rho2(X, RSq(m0), m1, m2))))
WidthQuad(X, L, s, m0, m1, m2, d) ==
  LET b == QSign(BRatio(L, s, m0, m1, m2, d))
      r == RhoQuad(X, s, m1, m2)
  IN IF b = 0 \/ r = "zero" THEN "zero"
     ELSE QuadMul(QuadOfSign(b), QuadDiv(r, RhoQuad(X, RSq(m0), m1, m2)))
LawWidthAtPole(X, L, m0, m1, m2, d) ==
  WidthDefined(X, L, RSq(m0), m0, m1, m2, d) =>
     /\ QEq(WidthRatioSq(X, L, RSq(m0), m0, m1, m2, d), QOne)
     /\ WidthQuad(X, L, RSq(m0), m0, m1, m2, d) = "pr"

----------------------------------------------------------------------------
\* Observations logged from the implementation.
\*   o.st = "exact": o.sq = <<num, den>> (Z each) is the exact square, o.quad the quadrant;
\*   o.st = "num"  : only o.re, o.im (Z, units of 1e-12) are meaningful;
\*   o.st = "undef": nan / zoo / raised.
NumMatches(re, im, sq, quad, tol) ==
  CASE quad = "zero" -> Small(re, tol) /\ Small(im, tol)
    [] quad = "pr" -> Small(im, tol) /\ ZSign(re) > 0 /\ Bracket(re, sq, tol)
    [] quad = "nr" -> Small(im, tol) /\ ZSign(re) < 0 /\ Bracket(re, sq, tol)
    [] quad = "pi" -> Small(re, tol) /\ ZSign(im) > 0 /\ Bracket(im, sq, tol)
    [] quad = "ni" -> Small(re, tol) /\ ZSign(im) < 0 /\ Bracket(im, sq, tol)
ObsMatches(o, sq, quad, tol) ==
  CASE o.st = "exact" -> o.quad = quad /\ QEq(o.sq, sq)
    [] o.st = "num" -> NumMatches(o.re, o.im, sq, quad, tol)
    [] OTHER -> FALSE
=============================================================================
