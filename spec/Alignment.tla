----------------------------- MODULE Alignment -----------------------------
(* Spin-projection ranges and the applicability logic of the alignment / rotation laws. *)
EXTENDS Integers, FiniteSets, Sequences, TLC

\* projections (doubled) of a spin s2/2: -s..s in unit steps; a massless particle has no
\* projection 0 -- which only removes something when the range has more than one element
\* and contains 0 (integer spin >= 1)
FullRange(s2) == { m \in -s2..s2 : (s2 - m) % 2 = 0 }
SpinRange(s2, noZero) == IF noZero /\ Cardinality(FullRange(s2)) > 1 THEN FullRange(s2) \ {0} ELSE FullRange(s2)

\* a reaction contains every spin projection of the initial state and of each final state
\* outer = sequence of [spin2, massless, hels] (hels = observed doubled projections)
Complete(outer) == \A i \in DOMAIN outer :
   { outer[i].hels[k] : k \in DOMAIN outer[i].hels } = SpinRange(outer[i].spin2, outer[i].massless = 1)
FinalSpinless(outer) == \A i \in DOMAIN outer : i = 1 \/ outer[i].spin2 = 0

\* C04: rotation invariance is claimed for ...
RotationClaimed(outer, ntop, aligned) ==
   Complete(outer) /\ (ntop = 1 \/ FinalSpinless(outer) \/ aligned)
\* C05: aligned = unaligned is claimed for ...
AlignmentNeutralClaimed(outer, ntop) == Complete(outer) /\ ntop = 1
=============================================================================
