"""C16 — cached unfolding equals doit() whatever the cache has seen.

spec/CacheFS.tla (design, exhaustive TLC) -> schedules (tlc -simulate + enumerated crash
points) -> forced on the real perform_cached_doit by vf.cachefs_exec (forked children,
interposed file operations) -> event logs validated by spec/Trace_CacheFS.tla."""
from __future__ import annotations

import json
import os
import random
import subprocess
import sys
from concurrent.futures import ThreadPoolExecutor
from pathlib import Path

from .. import tlc, trace
from ..cachefs_exec import DAMAGED_KINDS
from ..core import Machinery, child_env

LEVEL = "model_checking"
META = {
    "technique": "TLA+ spec CacheFS (inode-level file system, 2 processes, crashes) model-checked exhaustively with TLC; "
    "TLC -simulate behaviours and enumerated crash points forced on the real perform_cached_doit by a "
    "fork/interposition scheduler (one OS process per model process, alive across its calls; the cache directory may "
    "not exist yet); recorded operation traces validated by Trace_CacheFS with TLC",
    "text": "Exhaustive model checking of the caching algorithm's design for every interleaving/crash point within "
    "small bounds, bound to the code in both directions: specification behaviours are replayed as schedules "
    "on the real function, and every recorded file-operation trace must be a behaviour of the specification "
    "with ReturnsDoit/NeverRaises evaluated on the logged results. Histories x crash points x schedules is "
    "exactly the quantifier tests cannot sample.",
    "note": "Trusted: TLC, the inode model of POSIX open/replace, the interposition layer (open/os.open/stat/replace/unlink "
    "in the cache directory, mkdir/stat of the directory itself), SIGKILL between operations or after n bytes as the crash model; bounds: 2-3 processes, "
    "3 expressions (2 colliding), <=5 calls, <=2 crashes per behaviour.",
    "design_ref": "DESIGN.md §4 C16",
}
HARNESS = Path(__file__).resolve().parents[2]

MC_CFG = """SPECIFICATION Spec
CONSTANTS
 Procs = {{1,2}}
 Exprs = {{"e1","e2","e3"}}
 Keys = {{"k1","k2"}}
 KeyOf <- KeyOfCollide
 TmpOf <- TmpOfDef
 NChunks = 2
 MaxCalls = {calls}
 MaxCrashes = {crashes}
 MaxInodes = {calls}
 Dev <- {dev}
{invs}CHECK_DEADLOCK FALSE
"""
INVS = "INVARIANT TypeOK\nINVARIANT ReturnsDoit\nINVARIANT NeverRaises\nINVARIANT KeyFilesComplete\n"

TRACE_CFG = """SPECIFICATION TraceSpec
CONSTANTS
 Procs <- TraceProcs
 Exprs <- TraceExprs
 Keys <- TraceKeys
 KeyOf <- TraceKeyOf
 TmpOf <- TraceTmpOf
 NChunks = 2
 MaxCalls = 100000
 MaxCrashes = 100000
 MaxInodes = 16
 Dev <- DevNone
POSTCONDITION TraceAccepted
CHECK_DEADLOCK FALSE
"""

ACTIONS = ["Call", "EnsureDir", "Stat", "OpenR", "Load", "Doit", "OpenW", "Write", "Close", "Replace", "Return", "Crash", "Plant"]


def behaviour_to_schedule(beh):
    # the behaviour's initial state says whether the cache directory exists before the first call
    steps = [] if beh[0].get("state", {}).get("dir", True) else [["nodir"]]
    for st in beh[1:]:
        a, args = st["action"], st["args"]
        if a == "Call":
            steps.append(["call", args[0], args[1]])
        elif a == "Doit":
            continue
        elif a == "Plant":
            # Plant(k, n): content under key k; bound to an expression with that key by the executor (e3 <-> k2, e1 <-> k1)
            steps.append(["plant", 0, "e3" if args[0] == "k2" else "e1", "foreign" if args[1] == 2 else "truncated"])
        elif a == "Crash":
            steps.append(["crash", args[0]])
        else:
            steps.append(["step", args[0], a])
    return steps


def enumerated_schedules(tier, rng, sizes):
    """Sequential histories with a crash at every operation boundary / byte prefix of the
    first writer, followed by calls that must still return doit() and must not raise."""
    out = []
    exprs = ["e1", "e2", "e3"]
    # (a) collisions and plain histories: every ordered pair and triple of expressions
    for a in exprs:
        for b in exprs:
            out.append([["call", 1, a], ["run", 1], ["call", 2, b], ["run", 2], ["call", 1, a], ["run", 1]])
    # (b) crash before the k-th operation of the writer
    for a in exprs:
        for k in range(0, 9):
            s = [["call", 1, a]] + [["step", 1, ""]] * k + [["crash", 1]]
            for b in (exprs if tier == "thorough" else [a, "e2"]):
                out.append(s + [["call", 2, b], ["run", 2], ["call", 3, a], ["run", 3]])
    # (c) crash after n bytes of the pickle
    for a in exprs:
        size = sizes.get(a, 600)
        if tier == "thorough":
            points = list(range(0, size + 2))
        else:
            points = sorted({0, 1, 2, 5, size // 3, size // 2, size - 2, size - 1, size} | {rng.randrange(size) for _ in range(4)})
        for n in points:
            out.append([["call", 1, a], ["partial", 1, n], ["call", 2, a], ["run", 2], ["call", 1, "e2" if a == "e1" else "e1"], ["run", 1], ["call", 3, a], ["run", 3]])
    # (e) the directory already holds something under the key: garbage, a truncated entry, a foreign pickle,
    #     an entry in the layout of an older version, an entry whose stored result is not the unfolding
    for a in exprs:
        for what in ("garbage", "truncated", "empty-ish", "foreign", "oldformat") + DAMAGED_KINDS:
            out.append([["plant", 0, a, what], ["call", 1, a], ["run", 1], ["call", 2, "e2" if a == "e1" else "e1"], ["run", 2], ["call", 3, a], ["run", 3]])
    # (f) first use: the cache directory does not exist yet and two processes arrive at once; the second one runs to the end
    #     after the first has done `cut` of its operations
    for cut in range(0, 4):
        for b in ("e1", "e2", "e3"):
            out.append([["nodir"], ["call", 1, "e1"]] + [["step", 1, ""]] * cut + [["call", 2, b], ["run", 2], ["run", 1], ["call", 3, "e1"], ["run", 3]])
    out.append([["nodir"], ["call", 1, "e3"], ["run", 1], ["call", 2, "e3"], ["run", 2]])
    # (g) one OS process calls several times (whatever a call leaves in the interpreter is still there for the next one):
    #     miss, hit, then another expression - colliding or not - and the first one again
    for a in exprs:
        for b in exprs:
            if a != b:
                out.append([["call", 1, a], ["run", 1], ["call", 1, a], ["run", 1], ["call", 1, b], ["run", 1], ["call", 1, a], ["run", 1], ["call", 1, b], ["run", 1]])
    # (d) hand-picked interleavings of two processes on one key (reader during write, double writers)
    w = ["Stat", "OpenW", "Write", "Write", "Close", "Replace", "Return"]
    for cut in range(1, 7):
        for b in ("e1", "e2"):
            s = [["call", 1, "e1"]] + [["step", 1, ""]] * cut + [["call", 2, b], ["run", 2], ["run", 1], ["call", 3, "e1"], ["run", 3]]
            out.append(s)
    return out


def run_executor(binding, hashseed, scenarios):
    env = child_env(hashseed)
    job = json.dumps({"binding": binding, "nchunks": 2, "scenarios": scenarios})
    p = subprocess.run([sys.executable, "-m", "vf.cachefs_exec"], input=job, capture_output=True, text=True, env=env, timeout=3600)
    if p.returncode != 0:
        raise Machinery(f"cachefs executor failed ({binding}, seed={hashseed}):\n{p.stderr[-3000:]}")
    return json.loads(p.stdout)


def cause_tag(events, upto):
    """Classify the history before a failing Return for the finding signature."""
    in_flight = set()
    conc = crashed = False
    for e in events[:upto]:
        if e["ev"] == "Call":
            in_flight.add(e["p"])
            conc |= len(in_flight) > 1
        elif e["ev"] in ("Return", "Crash", "PartialWrite", "Vanished"):
            in_flight.discard(e["p"])
            crashed |= e["ev"] in ("Crash", "PartialWrite")
    planted = any(e["ev"] == "Plant" for e in events[:upto])
    return ("pre-existing-content" if planted else "") + ("after-killed-writer" if crashed else "") + ("+concurrent" if conc else "") or "sequential"


def run(chk, replay=None):
    tier = chk.tier
    rng = random.Random(chk.seed)
    chk.assume(
        "TLC/SANY; POSIX semantics of open/replace as modelled with inodes in CacheFS.tla",
        "interposition covers builtins.open/io.open, os.open(O_CREAT), os.stat, os.replace/rename, os.unlink in the cache directory and os.mkdir / os.stat of the directory itself",
        "a killed process = SIGKILL between two interposed operations, or after n bytes of a buffered write reached the file",
        "one OS process per model process: consecutive calls of a process run in the same interpreter (a new one after a crash)",
        "pickle of an entry is written in 2 chunks for interleaving purposes (byte-exact only for the crash-prefix family)",
    )
    # 1. the design: exhaustive TLC on the intended algorithm (Dev = {})
    calls, crashes = (4, 2) if tier == "thorough" else (3, 1)
    res = tlc.run("CacheFS_MC", MC_CFG.format(calls=calls, crashes=crashes, dev="DevNone", invs=INVS), workers=16, coverage=True, fast_start=False, timeout=1500)
    chk.add_tlc("design_exhaustive", res)
    if not res.ok:
        raise Machinery(f"the intended design violates {res.violated} in the model: specification error\n" + "\n".join(res.error_trace[:80]))
    dead = [a for a in ACTIONS if res.coverage.get(a, 0) == 0]
    if dead:
        raise Machinery(f"vacuous model check: actions never taken {dead}")
    # 1b. sensitivity: the pinned-tree deviations must break the invariants in the model
    res_dev = tlc.run("CacheFS_MC", MC_CFG.format(calls=3, crashes=1, dev="DevPinned", invs=INVS), workers=4, timeout=600)
    if res_dev.ok:
        raise Machinery("model is insensitive: deviations InPlaceWrite/UncheckedLoad do not violate the invariants")
    res_dev2 = tlc.run("CacheFS_MC", MC_CFG.format(calls=2, crashes=0, dev="DevCheckThenMkdir", invs="INVARIANT NeverRaises\n"), workers=4, timeout=600)
    if res_dev2.ok:
        raise Machinery("model is insensitive: deviation CheckThenMkdir does not violate NeverRaises")
    res_dev3 = tlc.run("CacheFS_MC", MC_CFG.format(calls=3, crashes=0, dev="DevProcessMemo", invs="INVARIANT ReturnsDoit\n"), workers=4, timeout=600)
    if res_dev3.ok:
        raise Machinery("model is insensitive: deviation ProcessMemo does not violate ReturnsDoit")
    chk.part("deviation_sensitivity", violated=res_dev.violated, states=res_dev.distinct, CheckThenMkdir=res_dev2.violated, ProcessMemo=res_dev3.violated)

    # 1c. unbounded in the length of the history: an inductive invariant of the design (Apalache), thorough tier
    if tier == "thorough":
        obligations = [("Init", "IndInv", 0, "base: Init => IndInv"), ("IndInit", "IndInv", 1, "step: IndInv /\\ Next => IndInv'"),
                       ("IndInit", "Props", 0, "IndInv => ReturnsDoit /\\ NeverRaises /\\ KeyFilesComplete")]
        done = []
        for init, inv, length, what in obligations:
            ok, tail = tlc.apalache("CacheFS_Apa", init=init, inv=inv, length=length)
            if not ok:
                raise Machinery(f"inductive invariant of CacheFS not established ({what}): {tail[-600:]}")
            done.append(what)
        chk.part("apalache_inductive_invariant", obligations=len(obligations), discharged=len(done), what=done,
                 instance="2 processes, 3 expressions (one key collision), 4 inodes, any number of calls and crashes")
    # 2. schedules from the specification (spec -> code)
    nsim = 400 if tier == "thorough" else 60
    behs = tlc.simulate("CacheFS_MC", MC_CFG.format(calls=5, crashes=2, dev="DevNone", invs=""), num=nsim, depth=45, seed=chk.seed + 1)
    sim_sched = [behaviour_to_schedule(b) for b in behs]
    envs = [("width", None), ("width", 0), ("assume", None), ("minus", 0)] if tier == "quick" else [("width", None), ("width", 0), ("width", 7), ("assume", None), ("assume", 0), ("minus", 0), ("minus", 12345)]

    # sizes of the pickles are needed for the byte-prefix family: ask the executor once
    probe = run_executor("width", None, [])
    sizes = probe["pickle_sizes"]
    enum_sched = enumerated_schedules(tier, rng, sizes)
    if replay and replay.get("case"):
        sim_sched, enum_sched = [], [replay["case"]["schedule"]]
        envs = [(replay["case"]["binding"], replay["case"]["hashseed"])]

    def one_env(be):
        binding, hs = be
        scen = sim_sched + enum_sched
        out = run_executor(binding, hs, scen)
        recs = [{"ev": "Header", "keyof": out["keyof"], "tid": 0}]
        for tid, evs in enumerate(out["traces"]):
            recs.append({"ev": "Start", "tid": tid, "dir": 0 if scen[tid] and scen[tid][0][0] == "nodir" else 1})
            for e in evs:
                e = dict(e)
                e["tid"] = tid
                e.pop("drift", None)
                recs.append(e)
        tv = trace.validate("Trace_CacheFS", recs, cfg=TRACE_CFG, timeout=1800)
        return be, scen, out, tv

    with ThreadPoolExecutor(max_workers=len(envs)) as ex:
        results = list(ex.map(one_env, envs))

    total_traces = 0
    for (binding, hs), scen, out, tv in results:
        name = f"trace_{binding}_seed{'unset' if hs is None else hs}"
        chk.add_tlc(name, tv.res, traces=len(out["traces"]))
        total_traces += len(out["traces"])
        chk.count(len(out["traces"]))
        drifted = set()
        for p in tv.res.prints:
            if isinstance(p, tuple) and p and p[0] == "DRIFT":
                drifted.add(p[2])
        chk.part(name, keyof=out["keyof"], drifted_traces=len(drifted), rejects=len(tv.rejects))
        for tid, evs in enumerate(out["traces"]):
            shape = tuple((e["ev"], e["p"], e.get("e", e.get("res", ""))) for e in evs)
            chk.nontrivial(hash((binding, hs is None, shape)))
        if out["traces"]:
            chk.sample({"env": name, "schedule": scen[0], "events": [[e["ev"], e["p"], e.get("e", e.get("res", e.get("name", "")))] for e in out["traces"][0]]})
        for clause, tid, l, info in tv.rejects:
            evs = out["traces"][tid]
            # locate the failing Return by its argument/result
            idx = next((i for i, e in enumerate(evs) if e["ev"] == "Return" and (e["res"] == "RAISED" if clause == "NeverRaises" else e["res"] not in ("RAISED",) and e["res"] == (info[1] if len(info) > 1 else None))), len(evs))
            tag = cause_tag(evs, idx)
            exc = evs[idx]["exc"] if idx < len(evs) and clause == "NeverRaises" else ""
            collide = len(set(out["keyof"].values())) < len(out["keyof"])
            sig = f"{clause}:{exc or 'wrong-value'}:{tag}:{'key-collision' if (clause == 'ReturnsDoit' and collide) else 'hashseed-' + ('unset' if hs is None else 'set')}"
            chk.violation(
                sig,
                f"perform_cached_doit({info[0]}) {'raised ' + exc if clause == 'NeverRaises' else 'returned the unfolding of ' + str(info[1])} in env {name}; schedule {json.dumps(scen[tid])}",
                {"binding": binding, "hashseed": hs, "schedule": scen[tid], "events": evs},
            )
        if drifted:
            chk.spec_drift(f"{len(drifted)} of {len(out['traces'])} traces in {name} leave the algorithm layer of CacheFS (Dev = {{}}); verdicts for them come from the law layer only")
    chk.cov["rule"] = (
        "schedules = tlc -simulate behaviours of CacheFS (2 processes, 3 expressions, crashes) + enumerated crash points "
        "(before every operation; byte prefixes of the pickle) + two-process cuts; each executed against the real "
        "perform_cached_doit under 3-5 (expression binding, PYTHONHASHSEED) environments; distinct = distinct event-shape per environment class"
    )
    chk.cov["exhaustive"] = False
