--------------------------- MODULE Trace_CacheFS ---------------------------
(* Validates event logs recorded from the real perform_cached_doit (vf/cachefs_exec.py)
   against CacheFS.  One TLC run consumes a batch of traces recorded under one hash-seed
   environment; record 1 is a header {"ev":"Header","keyof":{e |-> key}}; every trace
   begins with {"ev":"Start","tid":n,"dir":0|1} (whether the cache directory exists).  Each logged operation must be the CacheFS action
   the model's program counter allows, with the logged observation (exists / result /
   directory snapshot) equal to the model's; the C16 laws are evaluated on the logged
   results.  A trace that leaves the model is reported (DRIFT) and skipped to its end:
   the laws are still evaluated on its Return events from the logged values alone. *)
EXTENDS CacheFS, Json, IOUtils, TLCExt

Log == ndJsonDeserialize(IOEnv.TRACE_FILE)
TraceKeyOf == Log[1].keyof
TraceExprs == DOMAIN Log[1].keyof
TraceKeys == { Log[1].keyof[e] : e \in DOMAIN Log[1].keyof }
TraceTmpOf == [p \in {1, 2, 3} |-> IF p = 1 THEN "t1" ELSE IF p = 2 THEN "t2" ELSE "t3"]
TraceProcs == {1, 2, 3}
DevNone == {}

VARIABLES l,        \* next record
          bad,      \* this trace has left the model (skip to next Start)
          targ      \* p -> argument of the call in flight, from the log alone (law layer)
tvars == <<vars, l, bad, targ>>

Rec == Log[l]
Consume == l' = l + 1 /\ (l + 1 > Len(Log) => TLCSet(1, TRUE))

Reject(clause, info) == PrintT(<<"REJECT", clause, Rec.tid, l, info>>)
Drift(why) == PrintT(<<"DRIFT", why, Rec.tid, l, Rec.ev>>)

\* ---- snapshot comparison ---------------------------------------------------
Cls(n) == IF n = 0 THEN 0 ELSE IF n = NChunks THEN 2 ELSE 1
SnapOK(lnk, inodes) ==
  \A n \in Names :
    IF lnk[n] = 0 THEN n \notin DOMAIN Rec.fs
    ELSE /\ n \in DOMAIN Rec.fs
         /\ Cls(Rec.fs[n][2]) = Cls(inodes[lnk[n]].len)
         /\ (inodes[lnk[n]].len = NChunks =>
                 Rec.fs[n][1] = (IF inodes[lnk[n]].src = "foreign" THEN "other" ELSE inodes[lnk[n]].src))
NoStrangers == \A n \in DOMAIN Rec.fs : n \in Names

\* ---- law layer (needs only Call/Return/Crash records) ------------------------
LawReturn ==
  /\ IF Rec.res # RAISED THEN TRUE ELSE Reject("NeverRaises", <<targ[Rec.p], Rec.exc>>)
  /\ IF Rec.res = RAISED \/ Rec.res = targ[Rec.p] THEN TRUE
     ELSE Reject("ReturnsDoit", <<targ[Rec.p], Rec.res>>)

\* ---- trace actions -----------------------------------------------------------
TStart ==
  /\ Rec.ev = "Start"
  /\ link' = [n \in Names |-> 0] /\ ino' = [i \in 1..MaxInodes |-> Empty] /\ nino' = 0
  /\ pc' = [p \in Procs |-> "idle"] /\ arg' = [p \in Procs |-> None]
  /\ res' = [p \in Procs |-> None] /\ rfd' = [p \in Procs |-> 0]
  /\ wfd' = [p \in Procs |-> 0] /\ woff' = [p \in Procs |-> 0]
  /\ calls' = 0 /\ crashes' = 0
  /\ dir' = (Rec.dir = 1) /\ dseen' = [p \in Procs |-> FALSE] /\ memo' = [p \in Procs |-> [k \in Keys |-> None]]
  /\ bad' = FALSE /\ targ' = [p \in Procs |-> None]
  /\ Consume

\* a record of a trace that already left the model: only the law layer applies
TSkip ==
  /\ Rec.ev \notin {"Start", "Header"} /\ bad
  /\ IF Rec.ev = "Return" THEN LawReturn ELSE TRUE
  /\ targ' = IF Rec.ev = "Call" THEN [targ EXCEPT ![Rec.p] = Rec.e] ELSE targ
  /\ UNCHANGED <<vars, bad>>
  /\ Consume

\* the model's action for this record; FALSE if the record is not what the model allows
Act(r) ==
  LET p == r.p IN
  CASE r.ev = "Call"    -> Call(p, r.e)
    \* os.mkdir on the cache directory: it creates the directory exactly when it was not there; that an existing one is
    \* tolerated shows in the call going on (a raise reaches the caller as Return RAISED, which the model never allows)
    [] r.ev = "Mkdir"   -> EnsureDir(p) /\ (r.created = 1) = (~dir)
    \* looking at the directory (exists(), is_dir()) has no counterpart in the model: stuttering
    [] r.ev = "DirStat" -> pc[p] \in {"mkdir", "stat"} /\ (r.exists = 1) = dir /\ UNCHANGED vars
    [] r.ev = "Stat"    -> Stat(p) /\ r.name = Key(p) /\ (r.exists = 1) = (link[Key(p)] # 0)
    [] r.ev = "OpenR"   -> OpenR(p) /\ r.name = Key(p)
    [] r.ev = "Load"    -> Load(p)
    [] r.ev = "OpenW"   -> OpenW(p) /\ r.name = WTarget(p)
    [] r.ev = "Write"   -> Write(p) /\ r.chunk = woff[p] + 1
    [] r.ev = "Close"   -> Close(p)
    [] r.ev = "Replace" -> Replace(p) /\ r.src = Tmp(p) /\ r.dst = Key(p)
    [] r.ev = "Return"  -> Return(p) /\ r.res = res[p]
    [] r.ev = "Crash"   -> Crash(p)
    [] r.ev = "Plant"   -> Plant(r.name, IF r.complete = 1 THEN NChunks ELSE 1)
    [] r.ev = "PartialWrite" ->
         \* k of the pickle's bytes reached the inode, then the writer was killed
         /\ pc[p] = "write" /\ woff[p] = 0
         /\ LET k == IF r.nbytes = 0 THEN 0 ELSE IF r.nbytes >= r.size THEN NChunks ELSE 1 IN
            ino' = [ino EXCEPT ![wfd[p]] = [src |-> arg[p], len |-> IF @.len > k THEN @.len ELSE k]]
         /\ pc' = [pc EXCEPT ![p] = "idle"] /\ res' = [res EXCEPT ![p] = None]
         /\ rfd' = [rfd EXCEPT ![p] = 0] /\ wfd' = [wfd EXCEPT ![p] = 0]
         /\ crashes' = crashes + 1
         /\ link' = [link EXCEPT ![Tmp(p)] = 0]
         /\ memo' = [memo EXCEPT ![p] = [k \in Keys |-> None]]
         /\ UNCHANGED <<nino, arg, woff, calls, dir, dseen>>
    [] OTHER -> FALSE

TEvent ==
  /\ Rec.ev \notin {"Start", "Header"} /\ ~bad
  /\ Act(Rec)
  /\ IF Rec.ev = "Return" THEN LawReturn ELSE TRUE
  /\ IF NoStrangers /\ SnapOK(link', ino') THEN bad' = FALSE
     ELSE Drift("snapshot") /\ bad' = TRUE
  /\ targ' = IF Rec.ev = "Call" THEN [targ EXCEPT ![Rec.p] = Rec.e] ELSE targ
  /\ Consume

\* unevaluated_expr.doit() is not a file-system operation: a silent model step, taken only
\* when the next record is this process' OpenW
TSilentDoit ==
  /\ ~bad /\ Rec.ev = "OpenW" /\ pc[Rec.p] = "doit"
  /\ Doit(Rec.p)
  /\ UNCHANGED <<l, bad, targ>>

\* the record is not an action the model allows here: report, skip the rest of this trace
TDrift ==
  /\ Rec.ev \notin {"Start", "Header"} /\ ~bad
  /\ ~ ENABLED Act(Rec)
  /\ ~ (Rec.ev = "OpenW" /\ pc[Rec.p] = "doit")
  /\ Drift("action")
  /\ IF Rec.ev = "Return" THEN LawReturn ELSE TRUE
  /\ bad' = TRUE
  /\ targ' = IF Rec.ev = "Call" THEN [targ EXCEPT ![Rec.p] = Rec.e] ELSE targ
  /\ UNCHANGED vars
  /\ Consume

TraceInit == /\ Init /\ l = 2 /\ bad = FALSE /\ targ = [p \in Procs |-> None]
             /\ TLCSet(1, FALSE)
TraceNext == l <= Len(Log) /\ (TStart \/ TSkip \/ TEvent \/ TSilentDoit \/ TDrift)
TraceSpec == TraceInit /\ [][TraceNext]_tvars
TraceAccepted == TLCGet(1) = TRUE
=============================================================================
