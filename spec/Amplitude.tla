----------------------------- MODULE Amplitude -----------------------------
(***************************************************************************)
(* The helicity formula as a term generator, written from the physics      *)
(* definition (not from the builder's traversal).                          *)
(*                                                                         *)
(* An abstract transition is a record                                      *)
(*   [edges |-> Seq([set, hel2, spin2, part, eid, parity]),                *)
(*    nodes |-> Seq([parent, L2, S2, eta])]                                *)
(* with `set` the final-state ids attached to the edge (sequences as       *)
(* delivered by JSON), spins and helicities doubled, L2/S2 = -99 and       *)
(* eta = 0 for "not given".                                                *)
(***************************************************************************)
EXTENDS Topo, TLC, Functions

NONE == -99
\* ToSet(seq) comes from SequencesExt
SeqOfSets(seq) == [ i \in DOMAIN seq |-> ToSet(seq[i]) ]
SetOfSets(seq) == { ToSet(seq[i]) : i \in DOMAIN seq }
SeqBag(seq) == [ x \in ToSet(seq) |-> Cardinality({ i \in DOMAIN seq : seq[i] = x }) ]

\* ---- a transition as a decorated tree -------------------------------------------
TreeOf(tr) == { ToSet(tr.edges[i].set) : i \in DOMAIN tr.edges }
EdgeIx(tr, S) == CHOOSE i \in DOMAIN tr.edges : ToSet(tr.edges[i].set) = S
Hel2(tr, S)  == tr.edges[EdgeIx(tr, S)].hel2
Spin2(tr, S) == tr.edges[EdgeIx(tr, S)].spin2
Part(tr, S)  == tr.edges[EdgeIx(tr, S)].part
NodeIx(tr, S) == CHOOSE i \in DOMAIN tr.nodes : ToSet(tr.nodes[i].parent) = S
Leaves(tr) == Root(TreeOf(tr))

\* ---- factors of one decay node S -> c1 c2 (c1 = helicity child, c2 = opposite child) ----
\* conj-Wigner-D: D^J_{m, l1-l2}(-phi, theta, 0) with the angle pair named after c1
NodeD(tr, S) == LET T == TreeOf(tr)  c1 == HelChild(T, S)  c2 == OppChild(T, S) IN
  <<Spin2(tr, S), Hel2(tr, S), Hel2(tr, c1) - Hel2(tr, c2), AngleName(T, c1), -1, 1>>   \* (-phi, theta, gamma = 0)
\* canonical basis (Chung eq. 4.32): <L 0; S d | J d> <s1 l1; s2 -l2 | S d>, d = l1 - l2
NodeCGs(tr, S) == LET T == TreeOf(tr)  c1 == HelChild(T, S)  c2 == OppChild(T, S)
                      nd == tr.nodes[NodeIx(tr, S)]
                      dl == Hel2(tr, c1) - Hel2(tr, c2) IN
  << <<nd.L2, 0, nd.S2, dl, Spin2(tr, S), dl>>,
     <<Spin2(tr, c1), Hel2(tr, c1), Spin2(tr, c2), -Hel2(tr, c2), nd.S2, dl>> >>

InnerSeq(tr) == SetToSeq(Inner(TreeOf(tr)))
ChainD(tr)  == LET s == InnerSeq(tr) IN SeqBag([ i \in DOMAIN s |-> NodeD(tr, s[i]) ])
ChainCG(tr) == LET s == InnerSeq(tr)
                   RECURSIVE cat(_)
                   cat(i) == IF i > Len(s) THEN <<>> ELSE NodeCGs(tr, s[i]) \o cat(i + 1)
               IN SeqBag(cat(1))

\* ---- which amplitude symbol a chain belongs to ------------------------------------------
\* outer helicities: initial state, then final states by ascending id
OuterHel(tr) == LET ls == SortedSeq(Leaves(tr)) IN
  <<Hel2(tr, Leaves(tr))>> \o [ i \in DOMAIN ls |-> Hel2(tr, {ls[i]}) ]
AmpKey(tr) == <<TopoId(TreeOf(tr)), OuterHel(tr)>>

\* ---- symmetrisation over identical final-state particles ----------------------------------
\* a permutation of leaf ids among equal particle names relabels the tree; the states stay
\* with the final-state ids, intermediate states move with their edges
Perms(S) == { p \in [S -> S] : \A i, j \in S : p[i] = p[j] => i = j }
IdentPerms(tr) == { p \in Perms(Leaves(tr)) : \A i \in Leaves(tr) : Part(tr, {p[i]}) = Part(tr, {i}) }
Img(p, S) == { p[i] : i \in S }
RelabelTr(tr, p) ==
  [edges |-> [ i \in DOMAIN tr.edges |->
                 IF Len(tr.edges[i].set) = 1 THEN tr.edges[i]
                 ELSE [tr.edges[i] EXCEPT !.set = SortedSeq(Img(p, ToSet(tr.edges[i].set)))] ],
   nodes |-> [ i \in DOMAIN tr.nodes |->
                 [tr.nodes[i] EXCEPT !.parent = SortedSeq(Img(p, ToSet(tr.nodes[i].parent)))] ]]
SymVariants(tr) == { RelabelTr(tr, p) : p \in IdentPerms(tr) }
\* the symmetrisation proper: the same decay chain with the identical particles exchanged *together with their
\* states* (the particle with id p[i] now plays the part of particle i, projection included).  The variant describes
\* the final state in which id p[i] carries the projection tr gave to i, so it contributes to the amplitude of THAT
\* tuple of outer projections (for spinless or equal projections: the same tuple).
PermuteTr(tr, p) ==
  [edges |-> [ i \in DOMAIN tr.edges |-> [tr.edges[i] EXCEPT !.set = SortedSeq(Img(p, ToSet(tr.edges[i].set)))] ],
   nodes |-> [ i \in DOMAIN tr.nodes |->
                 [tr.nodes[i] EXCEPT !.parent = SortedSeq(Img(p, ToSet(tr.nodes[i].parent)))] ]]
\* permutations that lead to the same relabelled tree (they only exchange identical particles below one node) are one
\* variant: no combinatorics for identical particles that leave the same node; the identity represents its class
IdPerm(tr) == [ i \in Leaves(tr) |-> i ]
TreeUnder(tr, p) == { Img(p, S) : S \in TreeOf(tr) }
PermClassRep(tr, p) == IF TreeUnder(tr, p) = TreeOf(tr) THEN IdPerm(tr)
                       ELSE CHOOSE q \in IdentPerms(tr) : TreeUnder(tr, q) = TreeUnder(tr, p)
AllDistinct(tr) == \A i, j \in Leaves(tr) : i # j => Part(tr, {i}) # Part(tr, {j})
PermVariants(tr) == IF AllDistinct(tr) THEN {tr}      \* (no identical particles: PermuteTr(tr, identity) = tr)
                    ELSE { PermuteTr(tr, PermClassRep(tr, p)) : p \in IdentPerms(tr) }

\* ---- the formula: expected chains of the amplitude with key k --------------------------------
Term(tr, canonical) == [D |-> ChainD(tr), CG |-> IF canonical THEN ChainCG(tr) ELSE <<>>]
\* pairs <<index, variant>> so that equal terms of different transitions are counted separately
\* (the amplitude symbol is named after the topology of the transition as listed in the reaction)
VariantKey(trs, i, w) == <<TopoId(TreeOf(trs[i])), OuterHel(w)>>
ExpectedChains(trs, k) ==
  UNION { { <<i, v>> : v \in { w \in PermVariants(trs[i]) : VariantKey(trs, i, w) = k } } : i \in DOMAIN trs }
ExpectedTermBag(trs, k, canonical) ==
  LET cs == ExpectedChains(trs, k)
      ts == { Term(c[2], canonical) : c \in cs } IN
  [ t \in ts |-> Cardinality({ c \in cs : Term(c[2], canonical) = t }) ]
\* (a symmetrisation variant may describe a tuple of outer projections that no listed transition has)
ExpectedKeys(trs) == UNION { { VariantKey(trs, i, w) : w \in PermVariants(trs[i]) } : i \in DOMAIN trs }
\* coherence class of a key as the implementation forms it (group_by_spin_projection: the bag of (particle, projection)):
\* keys of one topology whose outer projections are permutations of each other among identical particles
SameClass(trs, k1, k2) ==
  LET ls == SortedSeq(Leaves(trs[1]))
      Pos(x) == CHOOSE j \in DOMAIN ls : ls[j] = x IN
  /\ k1[1] = k2[1] /\ k1[2][1] = k2[2][1]
  /\ (k1 = k2 \/ (~ AllDistinct(trs[1]) /\ \E p \in IdentPerms(trs[1]) : \A n \in DOMAIN ls : k2[2][n + 1] = k1[2][Pos(p[ls[n]]) + 1]))
ClassChains(trs, k) ==
  UNION { { <<i, w>> : w \in { v \in PermVariants(trs[i]) : SameClass(trs, k, VariantKey(trs, i, v)) } } : i \in DOMAIN trs }
ClassTermBag(trs, k, canonical) ==
  LET cs == ClassChains(trs, k)
      ts == { Term(c[2], canonical) : c \in cs } IN
  [ t \in ts |-> Cardinality({ c \in cs : Term(c[2], canonical) = t }) ]

\* ---- intensity: incoherent sum over the product of the observed outer projections ----------------
OuterPools(trs) == LET n == Len(OuterHel(trs[1])) IN
  [ pos \in 1..n |-> { OuterHel(trs[i])[pos] : i \in DOMAIN trs } ]
RECURSIVE TupleProduct(_, _)
TupleProduct(pools, pos) == IF pos > Len(pools) THEN { <<>> }
  ELSE { <<h>> \o t : h \in pools[pos], t \in TupleProduct(pools, pos + 1) }
\* amplitude symbols the (unaligned) intensity sums over: every topology x every tuple of the product
SummedKeys(trs) == { <<TopoId(TreeOf(trs[i])), h>> : i \in DOMAIN trs, h \in TupleProduct(OuterPools(trs), 1) }

\* ---- parity partners (C03) ------------------------------------------------------------------------
\* daughters of node S ordered (helicity child, opposite child)
Daughters(tr, S) == LET T == TreeOf(tr) IN <<Hel2(tr, HelChild(T, S)), Hel2(tr, OppChild(T, S))>>
SameTreeAndParticles(a, b) == /\ TreeOf(a) = TreeOf(b)
                              /\ \A S \in TreeOf(a) : Part(a, S) = Part(b, S)
\* node-wise: equal daughters, or both reversed
NodeRelated(a, b, S) == LET x == Daughters(a, S)  y == Daughters(b, S) IN
                        x = y \/ (x[1] = -y[1] /\ x[2] = -y[2])
NodeFlipped(a, b, S) == LET x == Daughters(a, S)  y == Daughters(b, S) IN
                        x # y /\ x[1] = -y[1] /\ x[2] = -y[2]
LSEqual(a, b, S) == LET na == a.nodes[NodeIx(a, S)]  nb == b.nodes[NodeIx(b, S)] IN
                    na.L2 = nb.L2 /\ na.S2 = nb.S2
PartnerChains(a, b) == /\ SameTreeAndParticles(a, b)
                       /\ \A S \in Inner(TreeOf(a)) : NodeRelated(a, b, S) /\ LSEqual(a, b, S)
FlippedNodes(a, b) == { S \in Inner(TreeOf(a)) : NodeFlipped(a, b, S) }
Eta(tr, S) == tr.nodes[NodeIx(tr, S)].eta
RECURSIVE ProdEta(_, _)
ProdEta(tr, Ss) == IF Ss = {} THEN 1 ELSE LET S == CHOOSE x \in Ss : TRUE IN Eta(tr, S) * ProdEta(tr, Ss \ {S})
=============================================================================
