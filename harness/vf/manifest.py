"""Generates /verif/MANIFEST.json from the per-property table below (python -m vf.manifest)."""
from __future__ import annotations

import json
from pathlib import Path

ROOT = Path(__file__).resolve().parents[2]

# properties whose checks have been reviewed and pass on the current tree
READY = {"C16", "C07", "C01", "C02", "C03", "C19", "C20", "C08", "C11", "C12", "C06", "C13", "C04", "C05", "C17", "C09", "C10", "C14", "C15", "C18"}

NOT_YET = "check not built yet in this round (see DESIGN.md §9 construction order)"


def build() -> dict:
    props = [json.loads(l) for l in (ROOT / "properties.jsonl").read_text().splitlines() if l.strip()]
    checks, na = [], []
    for p in props:
        pid = p["id"]
        mod = ROOT / "harness" / "vf" / "props" / f"{pid.lower()}.py"
        meta = None
        if mod.exists() and pid in READY:
            import importlib

            m = importlib.import_module(f"vf.props.{pid.lower()}")
            meta = getattr(m, "META", None)
            if meta and meta.get("claimed", True) is False:
                NA_REASONS.setdefault(pid, meta.get("reason", NOT_YET))
                meta = None
        if meta:
            level, tech, text, note, ref = m.LEVEL, meta["technique"], meta["text"], meta["note"], meta["design_ref"]
            checks.append({
                "property_id": pid,
                "quick_cmd": f"bin/vcheck {pid} --tier quick",
                "thorough_cmd": f"bin/vcheck {pid} --tier thorough",
                "evidence_file": f"/verif/evidence/{pid}.json",
                "replay_cmd_template": f"bin/vcheck {pid} --tier quick --replay {{path}}",
                "engine": "vf",
                "level_claimed": {"category": level, "text": text, "design_ref": ref},
                "level_note": note,
                "technique": tech,
            })
        else:
            na.append({"property_id": pid, "reason": NA_REASONS.get(pid, NOT_YET)})
    return {
        "version": 1,
        "setup_cmd": "bin/vsetup",
        "hooks": {
            "guard": "AMPFORM_VERIF",
            "enable": "no source hooks are needed: ampform is a sequential library whose public calls are the linearisation points; "
                      "file-system interposition and crash injection for C16 live in the harness process",
            "baseline_off_cmd": "cd /repo && /venv/bin/python -m pytest -ra -q -p no:cacheprovider --timeout=900 --continue-on-collection-errors",
            "source_commits": [],
            "add_only": True,
        },
        "engines": [{
            "name": "vf",
            "path": "/verif/harness/vf",
            "serves_properties": [c["property_id"] for c in checks],
            "kind_free_text": "TLA+ specifications under /verif/spec checked with TLC (exhaustive, simulation, trace validation), "
                              "bound to the implementation by Python drivers that replay specification behaviours into ampform and "
                              "log implementation behaviour for the trace specifications",
        }],
        "checks": checks,
        "not_applicable": na,
        "notes": "Exit codes: 0 held (KNOWN-FINDING / SPEC-DRIFT lines possible), 1 VIOLATION, 2 machinery failure. "
                 "known_findings.json lists genuine unrepaired defects by signature and the fixed ones with their commits.",
    }


NA_REASONS: dict[str, str] = {}


def main():
    m = build()
    (ROOT / "MANIFEST.json").write_text(json.dumps(m, indent=1) + "\n")
    try:
        import jsonschema

        jsonschema.validate(m, json.loads(Path("/root/.vp/MANIFEST.schema.json").read_text()))
        print("MANIFEST.json written and valid:", len(m["checks"]), "checks,", len(m["not_applicable"]), "not applicable")
    except FileNotFoundError:
        print("MANIFEST.json written (schema not available)")


if __name__ == "__main__":
    main()
