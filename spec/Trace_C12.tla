------------------------------ MODULE Trace_C12 ------------------------------
(***************************************************************************)
(* C12 - the IMPLEMENTATION's values and terms (vf/props/c12.py) judged    *)
(* against Lineshape.                                                      *)
(*                                                                         *)
(* Record kinds (field k):                                                 *)
(*  "bwpoly"  L, path, num, den : coefficient lists (Z, low -> high) of    *)
(*            BlattWeisskopfSquared(z, L).doit() as a rational function    *)
(*  "bwval"   L, z, fast, hankel : [st, q] exact values at a rational z    *)
(*  "bwneg"   L, z < 0, equal : the two paths at a point below threshold   *)
(*            (fast = integer-L polynomial path; hankel = symbolic-L       *)
(*            expression, L substituted afterwards)                        *)
(*  "width"   X, L, s, m0, m1, m2, d, o : observation of                   *)
(*            EnergyDependentWidth(s, m0, 1, m1, m2, L, d, X).doit()       *)
(*  "bld"     one call of a dynamics builder: flags, phase-space class,    *)
(*            identifier, the canonical structural term of the result, the *)
(*            parameter defaults, and the canonical terms of the public    *)
(*            functions called with the same symbols                       *)
(*  "adj"     numerical adjudication of a "bld" record: values of both     *)
(*            sides at seeded points                                       *)
(*                                                                         *)
(* A canonical term is [c |-> class name, t |-> text (symbol name and      *)
(* assumptions, number, non-SymPy attributes), a |-> <<argument terms>>];  *)
(* arguments of Add/Mul are sorted by the driver, TLC compares bags.       *)
(***************************************************************************)
EXTENDS Lineshape, Json, IOUtils, FiniteSets

Log == ndJsonDeserialize(IOEnv.TRACE_FILE)

VARIABLES l, cnt
Rec == Log[l]

Tol == 3
Clause(name, ok, info) == IF ok THEN TRUE ELSE PrintT(<<"REJECT", name, Rec.id, info>>)

\* ---- "bwpoly" ---------------------------------------------------------------
SameSign(p) == \/ \A k \in 1..Len(p) : ZSign(p[k]) >= 0
               \/ \A k \in 1..Len(p) : ZSign(p[k]) <= 0
BwPolyClauses ==
  LET L == Rec.L  num == Rec.num  den == Rec.den IN
  /\ Clause("PolynomialEqualsHankel",
            PolyHigh(den) > 0 /\ PolyEq(PolyMul(num, NPoly(L)), PolyMul(BWNum(L), den)), <<L, Rec.path>>)
  /\ Clause("OneAtOne", ZEq(PolySum(num), PolySum(den)) /\ ZSign(PolySum(den)) # 0, <<L, Rec.path>>)
  /\ Clause("ThresholdPower", PolyLow(num) - PolyLow(den) = L, <<L, Rec.path>>)
  /\ Clause("Bounded", /\ PolyHigh(num) = PolyHigh(den)
                       /\ SameSign(den) /\ PolyLow(den) = 1,          \* no zero of the denominator on z >= 0
            <<L, Rec.path>>)

\* ---- "bwval" ----------------------------------------------------------------
BwValClauses ==
  LET L == Rec.L  z == Rec.z IN
  /\ Clause("FastPathValue", Rec.fast.st = "exact" /\ QDefined(Rec.fast.q) /\ QEq(Rec.fast.q, BWPoly(L, z)), <<L, z>>)
  /\ Clause("HankelPathValue", Rec.hankel.st = "exact" /\ QDefined(Rec.hankel.q) /\ QEq(Rec.hankel.q, BWHankel(L, z)), <<L, z>>)
  /\ Clause("FastEqualsHankel", Rec.fast.st = "exact" /\ Rec.hankel.st = "exact" /\ QEq(Rec.fast.q, Rec.hankel.q), <<L, z>>)
  /\ Clause("OneAtOne", z = <<1, 1>> => Rec.fast.st = "exact" /\ QEq(Rec.fast.q, QOne), <<L, "value">>)

\* ---- "bwneg": below threshold (z = q^2 d^2 < 0) ---------------------------------
\* the two paths are compared by the driver (SymPy: simplify(fast - hankel) = 0; the Hankel path is transcendental there);
\* the clause states the law: one function, whichever path computes it
BwNegClauses ==
  /\ Clause("FastEqualsHankelBelowThreshold", Rec.equal = 1, <<Rec.L, Rec.z>>)

\* ---- "width" ----------------------------------------------------------------
One12 == ZOfN(NShift(<<1>>, ScaleLimbs))
WidthClauses ==
  LET X == Rec.X  L == Rec.L  s == Rec.s  m0 == Rec.m0  m1 == Rec.m1  m2 == Rec.m2  d == Rec.d  o == Rec.o
      atPole == s = RSq(m0)
  IN
  /\ Clause("WidthAtPole",
            atPole =>
               CASE o.st = "exact" -> o.quad = "pr" /\ QEq(o.sq, QOne)
                 [] o.st = "num" -> Near(o.re, One12, Tol) /\ Small(o.im, Tol)
                 [] OTHER -> FALSE,
            <<X, L>>)
  /\ Clause("WidthFormula",
            (~atPole /\ X \in Algebraic /\ WidthDefined(X, L, s, m0, m1, m2, d)) =>
               ObsMatches(o, WidthRatioSq(X, L, s, m0, m1, m2, d), WidthQuad(X, L, s, m0, m1, m2, d), Tol),
            <<X, L, Region(s, m1, m2)>>)

\* ---- "bld" ------------------------------------------------------------------
Leaf(c, t) == [c |-> c, t |-> t, a |-> <<>>]
Node(c, t, a) == [c |-> c, t |-> t, a |-> a]
Sym(name, assumptions) == Leaf("Symbol", name \o "|" \o assumptions)
\* the symbols a builder must create for a resonance with this identifier (latex, else name)
MassSym(id) == Sym("m_{" \o id \o "}", "nonnegative")
WidthSym(id) == Sym("\\Gamma_{" \o id \o "}", "nonnegative")
RadiusSym(id) == Sym("d_{" \o id \o "}", "positive")
Squared(t) == Node("Pow", "", <<t, Leaf("Integer", "2")>>)

RECURSIVE Collect(_, _), CollectSeq(_, _, _)
Collect(t, cls) == (IF t.c = cls THEN <<t>> ELSE <<>>) \o CollectSeq(t.a, cls, 1)
CollectSeq(a, cls, i) == IF i > Len(a) THEN <<>> ELSE Collect(a[i], cls) \o CollectSeq(a, cls, i + 1)

Count(x, sq) == Cardinality({i \in 1..Len(sq) : sq[i] = x})
BagEq(s1, s2) == Len(s1) = Len(s2) /\ \A i \in 1..Len(s1) : Count(s1[i], s1) = Count(s1[i], s2)
MulArgs(t) == IF t.c = "Mul" THEN t.a ELSE <<t>>
RemoveOne(sq, x) == IF \E i \in 1..Len(sq) : sq[i] = x
                    THEN LET i == CHOOSE j \in 1..Len(sq) : sq[j] = x
                         IN SubSeq(sq, 1, i - 1) \o SubSeq(sq, i + 1, Len(sq))
                    ELSE sq

\* documented flag combinations of the convenience builders
ConvFlags(name) ==
  CASE name = "create_relativistic_breit_wigner" -> [ff |-> 0, edw |-> 0, phsp |-> PSF]
    [] name = "create_relativistic_breit_wigner_with_ff" -> [ff |-> 1, edw |-> 1, phsp |-> PSF]
    [] name = "create_analytic_breit_wigner" -> [ff |-> 1, edw |-> 1, phsp |-> PSFEqual]
    [] OTHER -> [ff |-> Rec.ff, edw |-> Rec.edw, phsp |-> Rec.phsp]
Flags == ConvFlags(Rec.conv)

\* the term the property requires, composed from the public functions' terms:
\*   no flag: relativistic_breit_wigner;  ff only: FormFactor * relativistic_breit_wigner;
\*   both: relativistic_breit_wigner_with_ff;  edw only: relativistic_breit_wigner_with_ff / FormFactor
ExpectedArgs ==
  CASE Rec.conv = "create_non_dynamic" -> <<Leaf("One", "1")>>
    [] Rec.conv = "create_non_dynamic_with_ff" -> <<Rec.fn_ff>>
    [] Flags.ff = 0 /\ Flags.edw = 0 -> MulArgs(Rec.fn_bw)
    [] Flags.ff = 1 /\ Flags.edw = 0 -> <<Rec.fn_ff>> \o MulArgs(Rec.fn_bw)
    [] Flags.ff = 0 /\ Flags.edw = 1 -> RemoveOne(MulArgs(Rec.fn_bwff), Rec.fn_ff)
    [] Flags.ff = 1 /\ Flags.edw = 1 -> MulArgs(Rec.fn_bwff)
UsesWidth == Rec.conv \notin {"create_non_dynamic", "create_non_dynamic_with_ff"} /\ Flags.edw = 1
UsesFF == Rec.conv = "create_non_dynamic_with_ff" \/ (Rec.conv # "create_non_dynamic" /\ Flags.ff = 1)
UsesBW == Rec.conv \notin {"create_non_dynamic", "create_non_dynamic_with_ff"}
NeedsL == UsesWidth \/ UsesFF

S2 == Squared(Rec.sym_m)
ExpectedEDW == Node("EnergyDependentWidth", "phsp_factor=" \o Flags.phsp \o ";name=None",
                    <<S2, MassSym(Rec.ident), WidthSym(Rec.ident), Rec.sym_m1, Rec.sym_m2, Rec.sym_L, RadiusSym(Rec.ident)>>)
ExpectedFF == Node("FormFactor", "", <<S2, Rec.sym_m1, Rec.sym_m2, Rec.sym_L, RadiusSym(Rec.ident)>>)
Routing(term) ==
  /\ Collect(term, "EnergyDependentWidth") = (IF UsesWidth THEN <<ExpectedEDW>> ELSE <<>>)
  /\ Collect(term, "FormFactor") = (IF UsesFF THEN <<ExpectedFF>> ELSE <<>>)
  /\ \A n \in {"PhaseSpaceFactor", "PhaseSpaceFactorAbs", "PhaseSpaceFactorComplex", "PhaseSpaceFactorSWave",
               "EqualMassPhaseSpaceFactor", "BlattWeisskopfSquared", "BreakupMomentumSquared"} : Collect(term, n) = <<>>
ExpectedDefaults ==
  (IF UsesBW THEN {<<MassSym(Rec.ident), Rec.mass>>, <<WidthSym(Rec.ident), Rec.width>>} ELSE {})
  \cup (IF NeedsL THEN {<<RadiusSym(Rec.ident), <<1, 1>>>>} ELSE {})

BldClauses ==
  IF Rec.Lkind = "none" /\ NeedsL
  THEN Clause("RaisesWithoutL", Rec.raised = "ValueError", <<Rec.conv, Flags>>)
  ELSE
  /\ Clause("NoRaise", Rec.raised = "", <<Rec.conv, Flags, Rec.raised>>)
  /\ Rec.raised = "" =>
       /\ Clause("BuilderEqualsFunction", BagEq(MulArgs(Rec.term), ExpectedArgs), <<Rec.conv, Flags, Rec.Lkind>>)
       /\ Clause("ArgumentRouting", Routing(Rec.term), <<Rec.conv, Flags, Rec.Lkind>>)
       /\ Clause("FunctionRouting",
                 /\ (UsesWidth => Collect(Rec.fn_bwff, "EnergyDependentWidth") = <<ExpectedEDW>>)
                 /\ (NeedsL => Rec.fn_ff = ExpectedFF),
                 <<Rec.conv, Flags, Rec.Lkind>>)
       /\ Clause("ResonanceMassAndWidth",          \* "evaluated with that resonance's mass, width"
                 UsesBW => {<<MassSym(Rec.ident), Rec.mass>>, <<WidthSym(Rec.ident), Rec.width>>}
                              \subseteq {<<Rec.defaults[i][1], Rec.defaults[i][2]>> : i \in 1..Len(Rec.defaults)},
                 <<Rec.conv, Flags>>)
       /\ Clause("ParameterDefaults",
                 {<<Rec.defaults[i][1], Rec.defaults[i][2]>> : i \in 1..Len(Rec.defaults)} = ExpectedDefaults
                 /\ Len(Rec.defaults) = Cardinality(ExpectedDefaults),
                 <<Rec.conv, Flags>>)

\* ---- "adj": |builder - function| <= 1e-7 (1 + |function|) at every seeded point ------------
AdjClauses ==
  Clause("BuilderEqualsFunctionNumerically",
         \A i \in 1..Len(Rec.pts) :
            LET p == Rec.pts[i]
                dist == NAdd(ZAbsN(ZSub(p.b_re, p.f_re)), ZAbsN(ZSub(p.b_im, p.f_im)))
                size == NAdd(NShift(<<1>>, ScaleLimbs), NAdd(ZAbsN(p.f_re), ZAbsN(p.f_im)))
            IN p.st = "num" /\ NLe(NMul(dist, NOf(10000000)), size),
         <<Rec.of, Rec.conv, Rec.flags>>)

Keys == {"bwpoly", "bwval", "bwneg", "width_pole", "width_formula", "width_other", "bld", "bld_raise", "adj"}
Key == CASE Rec.k = "bwpoly" -> "bwpoly"
         [] Rec.k = "bwval" -> "bwval"
         [] Rec.k = "bwneg" -> "bwneg"
         [] Rec.k = "width" -> IF Rec.s = RSq(Rec.m0) THEN "width_pole"
                               ELSE IF Rec.X \in Algebraic /\ WidthDefined(Rec.X, Rec.L, Rec.s, Rec.m0, Rec.m1, Rec.m2, Rec.d)
                                    THEN "width_formula" ELSE "width_other"
         [] Rec.k = "bld" -> IF Rec.raised = "" THEN "bld" ELSE "bld_raise"
         [] Rec.k = "adj" -> "adj"

Step ==
  /\ l <= Len(Log)
  /\ CASE Rec.k = "bwpoly" -> BwPolyClauses
       [] Rec.k = "bwval" -> BwValClauses
       [] Rec.k = "bwneg" -> BwNegClauses
       [] Rec.k = "width" -> WidthClauses
       [] Rec.k = "bld" -> BldClauses
       [] Rec.k = "adj" -> AdjClauses
  /\ cnt' = [cnt EXCEPT ![Key] = @ + 1]
  /\ (l = Len(Log) => \A key \in Keys : PrintT(<<"STAT", key, cnt'[key]>>))
  /\ l' = l + 1

TraceInit == l = 1 /\ cnt = [key \in Keys |-> 0]
TraceSpec == TraceInit /\ [][Step]_<<l, cnt>>
TraceAccepted == TLCGet("stats").diameter = Len(Log) + 1
=============================================================================
