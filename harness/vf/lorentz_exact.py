"""C08 helper: exact (rational) and floating-point evaluation of ampform's Lorentz matrix
expressions on Pythagorean lattices, and the ndjson records judged by spec/Trace_Lorentz.tla.

Nothing here decides the property.  The module
  * enumerates lattice points (beta = a/h with a^2+b^2 = h^2, (cos, sin) from triples,
    integer four-momenta with integer mass),
  * substitutes them into the IMPLEMENTATION's as_explicit() / evaluate() results so that every
    entry becomes a sympy Rational (no rounding),
  * runs the generated numpy code (lambdify(expr.doit(), cse on/off)) on batches and logs
    floor(|x| * 10^12) in two 6-digit limbs,
  * mirrors the operation order of the TLA+ rational arithmetic to predict whether a record can
    be judged inside TLC's 32-bit integers (records that cannot are counted and not sent).
"""
from __future__ import annotations

import itertools
import math
from fractions import Fraction as F

import numpy as np
import sympy as sp

from .core import Machinery

# --------------------------------------------------------------------------------------
# lattices
# --------------------------------------------------------------------------------------
TRIPLES = [(3, 4, 5), (5, 12, 13), (8, 15, 17), (7, 24, 25), (20, 21, 29), (16, 63, 65), (33, 56, 65)]


def beta_lattice(max_h: int) -> list[tuple[int, int, int]]:
    """<<a, b, h>>: beta = a/h, gamma = h/b; both legs of every triple, both signs."""
    out = []
    for x, y, h in TRIPLES:
        if h <= max_h:
            out += [(x, y, h), (-x, y, h), (y, x, h), (-y, x, h)]
    return out


def angle_lattice(max_h: int) -> list[tuple[int, int, int]]:
    """<<cn, sn, h>>: the four axis points and all eight images of every triple."""
    out = [(1, 0, 1), (0, 1, 1), (-1, 0, 1), (0, -1, 1)]
    for x, y, h in TRIPLES:
        if h <= max_h:
            for c, s in ((x, y), (y, x)):
                out += [(c, s, h), (-c, s, h), (c, -s, h), (-c, -s, h)]
    return out


def _boost_size(m, E, x, y, z) -> int:
    k = F(1, m * (E + m))
    ents = [F(E, m)] + [F(-c, m) for c in (x, y, z)]
    ents += [(1 if i == j else 0) + F(a * b) * k for i, a in enumerate((x, y, z)) for j, b in enumerate((x, y, z))]
    return max(max(abs(e.numerator), e.denominator) for e in ents)


def momentum_lattice(max_E: int, max_size: int) -> list[tuple[int, int, int, int, int]]:
    """<<m, E, x, y, z>> with integer mass found by search: primitive solutions of
    m^2 = E^2 - x^2 - y^2 - z^2 whose boost matrix has entries with |num|, den <= max_size;
    every permutation and sign pattern of a solution is a lattice point (the driver samples
    them), which covers all axis-aligned directions with both signs."""
    base = []
    for E in range(2, max_E + 1):
        for x in range(0, E):
            for y in range(x, E):
                for z in range(y, E):
                    m2 = E * E - x * x - y * y - z * z
                    if m2 <= 0 or (x, y, z) == (0, 0, 0):
                        continue
                    m = math.isqrt(m2)
                    if m * m != m2 or math.gcd(math.gcd(E, x), math.gcd(y, z)) != 1:
                        continue
                    if _boost_size(m, E, x, y, z) <= max_size:
                        base.append((m, E, x, y, z))
    return base


def orientations(q) -> list[tuple[int, int, int, int, int]]:
    m, E, x, y, z = q
    out = set()
    for perm in set(itertools.permutations((x, y, z))):
        for signs in itertools.product((1, -1), repeat=3):
            out.add((m, E) + tuple(s * c for s, c in zip(signs, perm)))
    return sorted(out)


# --------------------------------------------------------------------------------------
# rationals  <->  records
# --------------------------------------------------------------------------------------
def rat(x) -> list[int]:
    if isinstance(x, F):
        return [x.numerator, x.denominator]
    x = sp.nsimplify(x) if not isinstance(x, sp.Basic) else x
    if not (isinstance(x, sp.Rational) or x.is_Rational):
        raise NotRational(x)
    x = sp.Rational(x)
    return [int(x.p), int(x.q)]


def frac(x) -> F:
    if isinstance(x, F):
        return x
    if isinstance(x, int):
        return F(x)
    if isinstance(x, (list, tuple)):
        return F(x[0], x[1])
    x = sp.Rational(x)
    return F(int(x.p), int(x.q))


class NotRational(Exception):
    pass


class AtRest(Exception):
    """BoostMatrix of a momentum with |p| = 0 was requested (excluded singular point)."""


def mat_rec(m) -> list:
    return [[rat(m[i, j]) for j in range(4)] for i in range(4)]


def vec_rec(v) -> list:
    return [rat(c) for c in v]


def fmat(m) -> list[list[F]]:
    return [[frac(m[i, j]) for j in range(4)] for i in range(4)]


ID_REC = [[[1 if i == j else 0, 1] for j in range(4)] for i in range(4)]


# --------------------------------------------------------------------------------------
# exact evaluation of the implementation's expressions
# --------------------------------------------------------------------------------------
class Impl:
    """The classes under verification, imported lazily so that VERIF_REPO_SRC is honoured."""

    def __init__(self):
        from ampform.kinematics import lorentz as lz
        from ampform.sympy import _array_expressions as ae

        self.lz, self.ae = lz, ae
        self.p = ae.ArraySymbol("p", shape=[])
        self.q = ae.ArraySymbol("q", shape=[])
        self.b = sp.Symbol("b", real=True)
        self.a1 = sp.Symbol("a1", real=True)
        self.a2 = sp.Symbol("a2", real=True)
        self._explicit_cache: dict = {}

    # -- symbolic pieces ---------------------------------------------------------------
    def explicit(self, expr):
        """expr.as_explicit(), cached (the symbolic matrix the implementation defines)."""
        if expr not in self._explicit_cache:
            self._explicit_cache[expr] = expr.as_explicit()
        return self._explicit_cache[expr]

    def _angle_symbol(self, angle):
        syms = list(angle.free_symbols)
        if len(syms) != 1:
            raise Machinery(f"rotation angle {angle} is not a function of one symbol")
        return syms[0]

    # -- exact values ------------------------------------------------------------------
    def exact_vec(self, expr, env) -> list:
        lz, ae = self.lz, self.ae
        if isinstance(expr, ae.ArraySymbol):
            return [sp.Rational(c) for c in env[expr]]
        if isinstance(expr, ae.ArraySum):
            vs = [self.exact_vec(t, env) for t in expr.terms]
            return [sum(c) for c in zip(*vs)]
        if isinstance(expr, lz.NegativeMomentum):
            # the meaning of the class, not its implementation: space inversion keeps the energy
            v = self.exact_vec(expr.args[0], env)
            return [v[0], -v[1], -v[2], -v[3]]
        if isinstance(expr, ae.ArrayMultiplication):
            *mats, vec = expr.args
            v = sp.Matrix(self.exact_vec(vec, env))
            for t in reversed(mats):
                v = self.exact_mat(t, env) * v
            return list(v)
        raise Machinery(f"exact_vec: unsupported expression {type(expr).__name__}")

    def _component_values(self, expr, env) -> dict:
        """Rational values of the component atoms (Energy(X), FourMomentumX(X), ...,
        EuclideanNorm[Squared](ThreeMomentum(X))) occurring in a symbolic matrix."""
        lz = self.lz
        sub = {}
        for cls, idx in ((lz.Energy, 0), (lz.FourMomentumX, 1), (lz.FourMomentumY, 2), (lz.FourMomentumZ, 3)):
            for atom in expr.atoms(cls):
                sub[atom] = self.exact_vec(atom.momentum, env)[idx]
        for atom in expr.atoms(lz.EuclideanNormSquared):
            if isinstance(atom.vector, lz.ThreeMomentum):
                v = self.exact_vec(atom.vector.momentum, env)
                sub[atom] = v[1] ** 2 + v[2] ** 2 + v[3] ** 2
        for atom in expr.atoms(lz.EuclideanNorm):
            if isinstance(atom.vector, lz.ThreeMomentum):
                v = self.exact_vec(atom.vector.momentum, env)
                sub[atom] = sp.sqrt(v[1] ** 2 + v[2] ** 2 + v[3] ** 2)
        return sub

    def substitute(self, sym_expr, env):
        """Substitute the lattice point into a symbolic scalar/matrix of the implementation."""
        sub = self._component_values(sym_expr, env)
        out = sym_expr.xreplace(sub)
        # compound angles (a + b, 3*a, ...): addition theorems first, so that only cos/sin of single symbols remain
        if any(f.args[0].free_symbols and f.args[0] not in (s_, -s_) for f in out.atoms(sp.cos, sp.sin) for s_ in list(f.args[0].free_symbols)[:1]):
            out = out.applyfunc(lambda e: sp.expand_trig(e)) if hasattr(out, "applyfunc") else sp.expand_trig(out)
        trig = {}
        for f in out.atoms(sp.cos, sp.sin):
            s = self._angle_symbol(f.args[0])
            c_val, s_val = env[s]
            sign = f.args[0].coeff(s)
            if f.args[0] != sign * s or sign not in (1, -1):
                raise Machinery(f"unsupported rotation angle {f.args[0]}")
            trig[f] = c_val if isinstance(f, sp.cos) else sign * s_val
        out = out.xreplace(trig)
        scal = {s: v for s, v in env.items() if isinstance(s, sp.Symbol) and not isinstance(v, tuple)}
        out = out.xreplace(scal)
        return out.doit() if hasattr(out, "doit") else out

    def exact_mat(self, expr, env) -> sp.Matrix:
        lz, ae = self.lz, self.ae
        if isinstance(expr, ae.MatrixMultiplication):
            m = sp.eye(4)
            for t in expr.args:
                m = m * self.exact_mat(t, env)
            return m
        if isinstance(expr, (lz.BoostMatrix, lz.BoostZMatrix, lz.RotationYMatrix, lz.RotationZMatrix, lz.MinkowskiMetric)):
            if isinstance(expr, lz.BoostMatrix) and all(c == 0 for c in self.exact_vec(expr.momentum, env)[1:]):
                raise AtRest(expr)      # |p| = 0: 0/0 in the implementation, excluded (removable singularity)
            m = self.substitute(self.explicit(expr), env)
            m = sp.Matrix(m)
            if m.shape != (4, 4) or not all(e.is_Rational for e in m):
                raise NotRational(m)
            return m
        raise Machinery(f"exact_mat: unsupported expression {type(expr).__name__}")

    def exact_args(self, expr, env) -> list:
        """Values of the arguments evaluate() hands to the numpy printer (without the
        leading momentum/angle/beta argument and the ones/zeros arrays)."""
        ev = expr.evaluate()
        lz = self.lz
        if isinstance(expr, lz.BoostMatrix):
            args = ev.args[1:]
        elif isinstance(expr, lz.BoostZMatrix):
            args = ev.args[0:3]
        else:
            args = ev.args[1:3]
        vals = [self.substitute(a, env) for a in args]
        if not all(sp.sympify(v).is_Rational for v in vals):
            raise NotRational(vals)
        return vals


# --------------------------------------------------------------------------------------
# mirror of the TLA+ arithmetic (same operation order) to predict 32-bit overflow
# --------------------------------------------------------------------------------------
LIM = 2**31 - 1


class Overflow32(Exception):
    pass


def _c(x: int) -> int:
    if abs(x) > LIM:
        raise Overflow32(x)
    return x


def _q(n, d):
    s = -1 if d < 0 else 1
    g = math.gcd(abs(n), abs(d))
    return (_c(s * n) // g, _c(s * d) // g)


def t_mul(a, b):
    if a[0] == 0 or b[0] == 0:
        return (0, 1)
    g1 = math.gcd(abs(a[0]), b[1])
    g2 = math.gcd(abs(b[0]), a[1])
    return (_c((a[0] // g1) * (b[0] // g2)), _c((a[1] // g2) * (b[1] // g1)))


def t_add(a, b):
    if a[0] == 0:
        return b
    if b[0] == 0:
        return a
    g = math.gcd(a[1], b[1])
    n = _c(_c(a[0] * (b[1] // g)) + _c(b[0] * (a[1] // g)))
    d = _c((a[1] // g) * b[1])
    return _q(n, d)


def t_neg(a):
    return (-a[0], a[1])


def t_sub(a, b):
    return t_add(a, t_neg(b))


def t_sum4(a, b, c, d):
    return t_add(t_add(a, b), t_add(c, d))


def t_mmul(A, B):
    return [[t_sum4(*(t_mul(A[i][k], B[k][j]) for k in range(4))) for j in range(4)] for i in range(4)]


def t_mvec(A, v):
    return [t_sum4(*(t_mul(A[i][k], v[k]) for k in range(4))) for i in range(4)]


def t_eta_orth(L) -> bool:
    ok = True
    for i in range(4):
        for j in range(i, 4):
            f = t_sub(t_mul(L[0][i], L[0][j]), t_add(t_mul(L[1][i], L[1][j]), t_add(t_mul(L[2][i], L[2][j]), t_mul(L[3][i], L[3][j]))))
            ok &= f == ((1, 1) if i == j == 0 else (-1, 1) if i == j else (0, 1))
    return ok


def tq(x) -> tuple[int, int]:
    f = frac(x)
    return (f.numerator, f.denominator)


def tmat(m) -> list:
    """sympy / record matrix -> tuple-rational matrix of the mirror arithmetic."""
    if isinstance(m, list):
        return [[tuple(e) for e in row] for row in m]
    return [[tq(m[i, j]) for j in range(4)] for i in range(4)]


def t_ref_boost(m, q):
    """Mirror of Lorentz!RefBoost (m, q[0..3] tuple-rationals)."""
    em = t_add(q[0], m)
    k = t_inv(t_mul(m, em))

    def S(i, j):
        return t_add((1, 1) if i == j else (0, 1), t_mul(t_mul(q[i], q[j]), k))

    def T(i):
        return t_neg(t_mul(q[i], t_inv(m)))

    return [
        [t_mul(q[0], t_inv(m)), T(1), T(2), T(3)],
        [T(1), S(1, 1), S(1, 2), S(1, 3)],
        [T(2), S(2, 1), S(2, 2), S(2, 3)],
        [T(3), S(3, 1), S(3, 2), S(3, 3)],
    ]


def t_inv(a):
    return (-a[1], -a[0]) if a[0] < 0 else (a[1], a[0])


def fits_proper(L) -> bool:
    try:
        t_eta_orth(L)
        return True
    except Overflow32:
        return False


def dec_fits(e: tuple[int, int]) -> bool:
    return e[1] < 2147483 and abs(e[0]) // e[1] < 2147


# --------------------------------------------------------------------------------------
# floating point: quantisation and the closeness rule (identical to Trace_Lorentz!Close)
# --------------------------------------------------------------------------------------
def quantise(x: float) -> list[int]:
    fx = F(float(x))
    qv = abs(fx) * 10**12
    qi = qv.numerator // qv.denominator
    hi, lo = divmod(qi, 10**6)
    if hi > LIM:
        raise Overflow32(hi)
    return [(fx > 0) - (fx < 0), hi, lo]


def diff_units(x: float, e: F) -> int:
    """|floor(|x| 1e12) sign(x) - floor(|e| 1e12) sign(e)|: the distance Trace_Lorentz!Close bounds."""
    s, hi, lo = quantise(x)
    qe = abs(e) * 10**12
    qe = qe.numerator // qe.denominator
    se = (e > 0) - (e < 0)
    return abs(s * (hi * 10**6 + lo) - se * qe)


def close_py(x: float, e: F, tol_units: int) -> bool:
    return diff_units(x, e) <= tol_units


def tol_units(entries) -> int:
    scale = max(abs(e.numerator) // e.denominator for e in entries)
    return 2 + scale + 1
