"""Executes formulate() call histories of spec/KMatrixCalls.tla against ampform.

    python -m vf.kmatrix_exec < job.json > result.json

job = {"calls": [{cls, n, np, flag, par, X, L, d}, ...], "maxlen": 3, "procs": 8}

Every path of the call tree of depth <= maxlen is executed.  One job per prefix of length
<= 2 replays that prefix in a child forked from the pristine parent and then forks once per
continuation, so every call is made in a process whose global state (functools caches,
SymPy caches) is exactly what its own prefix left behind and nothing else.  "fresh" results are made in children forked
from the pristine parent (ampform imported, no formulate call made).  A result is
identified by vf.kmatrix_common.digest (srepr + non-SymPy attributes)."""
from __future__ import annotations

import json
import os
import shutil
import sys
import tempfile
import traceback


def do_call(c):
    from . import kmatrix_common as kc

    kw = {}
    if c["cls"] in kc.FLAG:
        kw[kc.FLAG[c["cls"]]] = bool(c["flag"])
    kw["phsp_factor"] = kc.phsp_classes()[c["X"]]
    kw["angular_momentum"] = c["L"]
    kw["meson_radius"] = c["d"]
    try:
        M = kc.cls_of(c["cls"]).formulate(n_channels=c["n"], n_poles=c["np"], parametrize=bool(c["par"]), **kw)
        return kc.digest(M)
    except Exception as e:  # noqa: BLE001  the error path is a result too
        return f"RAISED:{type(e).__name__}:{str(e)[:80]}"


def _emit(path, obj):
    fd = os.open(path, os.O_WRONLY | os.O_APPEND | os.O_CREAT, 0o600)
    try:
        os.write(fd, (json.dumps(obj) + "\n").encode())
    finally:
        os.close(fd)


def explore(calls, maxlen, prefix, path, only=None):
    for k in range(len(calls)):
        if only is not None and k != only:
            continue
        pid = os.fork()
        if pid == 0:
            code = 0
            try:
                d = do_call(calls[k])
                seq = prefix + [k + 1]
                _emit(path, {"seq": seq, "dig": d})
                if len(seq) < maxlen:
                    explore(calls, maxlen, seq, path)
            except BaseException:  # noqa: BLE001
                _emit(path, {"error": traceback.format_exc()[-2000:], "seq": prefix + [k + 1]})
                code = 3
            finally:
                os._exit(code)
        _, st = os.waitpid(pid, 0)
        if st != 0:
            _emit(path, {"error": f"child for {prefix + [k + 1]} exited with status {st}", "seq": prefix + [k + 1]})


def main():
    job = json.load(sys.stdin)
    calls, maxlen, procs = job["calls"], job["maxlen"], max(1, int(job.get("procs", 8)))
    from . import kmatrix_common as kc

    kc.km()
    kc.phsp_classes()
    tmp = tempfile.mkdtemp(prefix="vf_kmexec_")
    try:
        # fresh results
        fresh_path = os.path.join(tmp, "fresh.ndjson")
        running = {}
        todo = list(range(len(calls)))

        def spawn_fresh(k):
            pid = os.fork()
            if pid == 0:
                code = 0
                try:
                    _emit(fresh_path, {"call": k + 1, "dig": do_call(calls[k])})
                except BaseException:  # noqa: BLE001
                    _emit(fresh_path, {"error": traceback.format_exc()[-2000:], "call": k + 1})
                    code = 3
                finally:
                    os._exit(code)
            return pid

        def spawn_prefix(prefix):
            """child: replay `prefix` (its last call is emitted, the earlier ones were emitted by
            the job of the shorter prefix), then explore everything below it"""
            pid = os.fork()
            if pid == 0:
                code = 0
                path = os.path.join(tmp, "p_" + "_".join(map(str, prefix)) + ".ndjson")
                try:
                    for pos, k in enumerate(prefix):
                        d = do_call(calls[k])
                        if pos == len(prefix) - 1:
                            _emit(path, {"seq": [x + 1 for x in prefix], "dig": d})
                    if len(prefix) == 2 and len(prefix) < maxlen:
                        explore(calls, maxlen, [x + 1 for x in prefix], path)
                except BaseException:  # noqa: BLE001
                    _emit(path, {"error": traceback.format_exc()[-2000:], "seq": [x + 1 for x in prefix]})
                    code = 3
                finally:
                    os._exit(code)
            return pid

        jobs = [("fresh", (k,)) for k in todo]
        if maxlen >= 1:
            jobs += [("prefix", (k,)) for k in todo]
        if maxlen >= 2:
            jobs += [("prefix", (k1, k2)) for k1 in todo for k2 in todo]
        failed = []
        while jobs or running:
            while jobs and len(running) < procs:
                kind, pre = jobs.pop(0)
                pid = spawn_fresh(pre[0]) if kind == "fresh" else spawn_prefix(list(pre))
                running[pid] = (kind, pre)
            pid, st = os.wait()
            kind, pre = running.pop(pid)
            if st != 0:
                failed.append((kind, pre, st))
        fresh, edges, errors = {}, [], []
        for name in sorted(os.listdir(tmp)):
            with open(os.path.join(tmp, name)) as f:
                for line in f:
                    o = json.loads(line)
                    if "error" in o:
                        errors.append(o)
                    elif "call" in o:
                        fresh[str(o["call"])] = o["dig"]
                    else:
                        edges.append([o["seq"], o["dig"]])
        edges.sort()
        json.dump({"fresh": fresh, "edges": edges, "errors": errors, "failed": failed}, sys.stdout)
    finally:
        shutil.rmtree(tmp, ignore_errors=True)


if __name__ == "__main__":
    main()
