------------------------------ MODULE Builder ------------------------------
(***************************************************************************)
(* HelicityAmplitudeBuilder objects as a state machine (C06, C01, C13).    *)
(*                                                                         *)
(* Several builder objects share one reaction inside one process.  Every   *)
(* public mutation is an action; Formulate(b) produces a model.  What the  *)
(* property requires is that the model is a function of                    *)
(* (reaction, configuration, dynamics choice, registered topologies) at    *)
(* the moment of the call and of nothing else: `Key(b)`.                   *)
(*                                                                         *)
(* Implementation-shaped state that could break this is modelled           *)
(* explicitly so that the mechanism of a deviation is visible:             *)
(*   dpdCache[ref]  the dictionary object held by the functools.cache of   *)
(*                  the DPD alignment: "clean", or the (stable, scalar)    *)
(*                  configuration under which formulate() substituted      *)
(*                  kinematic variables into it in place                   *)
(*                  (deviation "DpdCacheAliasing", pinned tree);           *)
(*   ingredients[b] scratch dictionaries of the builder, reset at the      *)
(*                  start of Formulate also when the previous call raised  *)
(*                  (deviation "ResetAtEnd": reset only on success);       *)
(*                  start of Formulate (deviation "NoReset": they are      *)
(*                  kept, so parameters of an earlier call leak).          *)
(*   nameOwner      the builder whose name generator last (re)built the    *)
(*                  parity-partner map; irrelevant when every generator    *)
(*                  owns its map, decisive under deviation "SharedNameMap" *)
(*                  (one class-level dict shared by all generators).       *)
(*   nameMap[b]     the naming flags under which b's generator last rebuilt *)
(*                  its parity-partner map: every flag setter rebuilds it  *)
(*                  (deviation "LazyNameMapOnLs": assigning the LS flag of *)
(*                  the canonical generator does not, so the map - and the *)
(*                  coefficient names of the model - are those of the      *)
(*                  flags of an earlier moment of the history).            *)
(*   dpdRx[ref]     the reaction (RxOf) of the builder that first filled   *)
(*                  the module-level DPD cache for that reference          *)
(*                  subsystem; decisive under deviation "CrossReactionCache"*)
(*                  (cache key ignores part of the reaction, e.g. its      *)
(*                  helicity sets: a builder of ANOTHER reaction over the  *)
(*                  same particles reads the entry).                       *)
(*                                                                         *)
(*   firstRx        the reaction of the first Formulate of the process;    *)
(*                  decisive under deviation "ProcessWideMemo" (a helper   *)
(*                  memoised process-wide on a key under which two         *)
(*                  different reactions compare equal, e.g. reactions that *)
(*                  differ in a particle label only).                      *)
(*                                                                         *)
(* Builders need not share the reaction: RxOf[b] names the reaction of     *)
(* builder b (the same decay with complete / restricted helicity sets).    *)
(***************************************************************************)
EXTENDS Integers, FiniteSets, Sequences, TLC

CONSTANTS Builders,     \* builder objects living in one process
          RxOf,         \* [Builders -> reaction names]
          Aligns,       \* subset of {"none", "axis", "dpd1", "dpd2", "dpd3"}
          Stables,      \* subset of {"none", "all", "one"}
          Names,        \* resonance names that dynamics can be assigned to
          Tags,         \* dynamics builders: "none", "bw", "bwff", ...
          MaxOps,       \* bound on the length of a history
          Dev

VARIABLES cfg, choice, perm, out, dpdCache, leaked, nops, nameOwner, dpdRx, firstRx, nameMap
vars == <<cfg, choice, perm, out, dpdCache, leaked, nops, nameOwner, dpdRx, firstRx, nameMap>>

\* naming options of the amplitude name generator: builder.naming.insert_parent_helicities / insert_child_helicities /
\* insert_ls_combinations, one property setter each; TRUE = the other value than the generator was constructed with
NameFlags == {"parent", "child", "ls"}
DefaultNaming == [f \in NameFlags |-> FALSE]

None == "none"
DefaultCfg == [align |-> "none", stable |-> "none", scalar |-> FALSE, coup |-> FALSE, naming |-> DefaultNaming]
Refs == { a \in Aligns : a \notin {"none", "axis"} }

Init == /\ cfg = [b \in Builders |-> DefaultCfg]
        /\ choice = [b \in Builders |-> [n \in Names |-> None]]
        /\ perm = [b \in Builders |-> FALSE]
        /\ out = [b \in Builders |-> [key |-> <<>>, stale |-> FALSE]]
        /\ dpdCache = [r \in Refs |-> <<>>]
        /\ leaked = [b \in Builders |-> {}]
        /\ nops = 0
        /\ nameOwner \in Builders
        /\ dpdRx = [r \in Refs |-> ""]
        /\ firstRx = ""
        /\ nameMap = [b \in Builders |-> DefaultNaming]

Tick == nops < MaxOps /\ nops' = nops + 1
Key(b) == <<RxOf[b], cfg[b], choice[b], perm[b]>>

SetAlign(b, a) == /\ Tick /\ cfg' = [cfg EXCEPT ![b].align = a]
                  /\ UNCHANGED <<choice, perm, out, dpdCache, leaked, nameOwner, dpdRx, firstRx, nameMap>>
SetStable(b, s) == /\ Tick /\ cfg' = [cfg EXCEPT ![b].stable = s]
                   /\ UNCHANGED <<choice, perm, out, dpdCache, leaked, nameOwner, dpdRx, firstRx, nameMap>>
SetScalar(b, x) == /\ Tick /\ cfg' = [cfg EXCEPT ![b].scalar = x]
                   /\ UNCHANGED <<choice, perm, out, dpdCache, leaked, nameOwner, dpdRx, firstRx, nameMap>>
SetCoup(b, x) == /\ Tick /\ cfg' = [cfg EXCEPT ![b].coup = x]
                 /\ UNCHANGED <<choice, perm, out, dpdCache, leaked, nameOwner, dpdRx, firstRx, nameMap>>
\* builder.naming.<flag> = ...: the generator rebuilds its parity-partner map
SetNameFlag(b, f, x) == /\ Tick /\ cfg' = [cfg EXCEPT ![b].naming[f] = x] /\ nameOwner' = b
                        /\ nameMap' = IF "LazyNameMapOnLs" \in Dev /\ f = "ls" THEN nameMap ELSE [nameMap EXCEPT ![b] = cfg'[b].naming]
                        /\ UNCHANGED <<choice, perm, out, dpdCache, leaked, dpdRx, firstRx>>
\* dynamics.assign(name, builder): all decays of the resonance with that name
Assign(b, n, t) == /\ Tick /\ choice' = [choice EXCEPT ![b][n] = t]
                   /\ UNCHANGED <<cfg, perm, out, dpdCache, leaked, nameOwner, dpdRx, firstRx, nameMap>>
\* adapter.permutate_registered_topologies(): idempotent
Permutate(b) == /\ Tick /\ perm' = [perm EXCEPT ![b] = TRUE]
                /\ UNCHANGED <<cfg, choice, out, dpdCache, leaked, nameOwner, dpdRx, firstRx, nameMap>>

SubstKey(b) == <<cfg[b].stable, cfg[b].scalar>>
\* an inadmissible configuration makes formulate() raise after it has started filling its
\* scratch dictionaries (e.g. a stable_final_state_ids entry that is not a final-state id)
Fails(b) == cfg[b].stable = "bogus"
Formulate(b) ==
  /\ Tick
  /\ LET a == cfg[b].align
         usesDpd == a \in Refs
         \* the dictionary of zeta definitions this call sees
         stale1 == /\ "DpdCacheAliasing" \in Dev /\ usesDpd
                   /\ dpdCache[a] # <<>> /\ dpdCache[a] # SubstKey(b)
         \* parameters registered by earlier calls of this builder that the current dynamics
         \* choice does not register
         stale2 == "NoReset" \in Dev /\ leaked[b] \ { n \in Names : choice[b][n] # None } # {}
         \* a call that raised half-way (inadmissible configuration) left its partial dictionaries behind
         stale3 == "ResetAtEnd" \in Dev /\ ~Fails(b) /\ "partial" \in leaked[b]
         \* the shared parity-partner map was last rebuilt by a generator with other naming options
         stale4 == "SharedNameMap" \in Dev /\ nameOwner # b /\ cfg[nameOwner].naming # cfg[b].naming
         \* the module-level DPD cache entry was built for another reaction over the same particles
         stale5 == "CrossReactionCache" \in Dev /\ usesDpd /\ dpdRx[a] \notin {"", RxOf[b]}
         stale6 == "ProcessWideMemo" \in Dev /\ firstRx \notin {"", RxOf[b]}
         \* the generator's parity-partner map was built for other flags than the current ones
         stale7 == nameMap[b] # cfg[b].naming
     IN /\ out' = [out EXCEPT ![b] = [key |-> Key(b), stale |-> stale1 \/ stale2 \/ stale3 \/ stale4 \/ stale5 \/ stale6 \/ stale7]]
        /\ firstRx' = IF firstRx = "" THEN RxOf[b] ELSE firstRx
        /\ dpdRx' = IF usesDpd /\ dpdRx[a] = "" THEN [dpdRx EXCEPT ![a] = RxOf[b]] ELSE dpdRx
        /\ dpdCache' = IF "DpdCacheAliasing" \in Dev /\ usesDpd /\ dpdCache[a] = <<>>
                       THEN [dpdCache EXCEPT ![a] = SubstKey(b)] ELSE dpdCache
        /\ leaked' = IF "NoReset" \in Dev
                     THEN [leaked EXCEPT ![b] = @ \cup { n \in Names : choice[b][n] # None }]
                     ELSE IF "ResetAtEnd" \in Dev
                     THEN [leaked EXCEPT ![b] = IF Fails(b) THEN {"partial"} ELSE {}]
                     ELSE leaked
  /\ UNCHANGED <<cfg, choice, perm, nameOwner, nameMap>>

Next == \E b \in Builders :
          \/ \E a \in Aligns : SetAlign(b, a)
          \/ \E s \in Stables : SetStable(b, s)
          \/ \E x \in BOOLEAN : SetScalar(b, x) \/ SetCoup(b, x)
          \/ \E f \in NameFlags, x \in BOOLEAN : SetNameFlag(b, f, x)
          \/ \E n \in Names, t \in Tags : Assign(b, n, t)
          \/ Permutate(b)
          \/ Formulate(b)
Spec == Init /\ [][Next]_vars

\* C06: the model a builder returns is the function of its key, whatever the history
Pure == \A b \in Builders : ~ out[b].stale
\* two builders with the same key have produced the same model
Agree == \A a, b \in Builders : (out[a].key # <<>> /\ out[a].key = out[b].key) => out[a] = out[b]
\* configuring one builder never changes another one (no shared selector / configuration)
Isolation == [][\A b \in Builders :
                  (cfg'[b] # cfg[b] \/ choice'[b] # choice[b] \/ perm'[b] # perm[b])
                     => \A c \in Builders \ {b} : cfg'[c] = cfg[c] /\ choice'[c] = choice[c] /\ perm'[c] = perm[c]]_vars
=============================================================================
