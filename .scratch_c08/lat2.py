import math, itertools
from fractions import Fraction as F
def big(q):
    m,E,x,y,z=q
    k = F(1, m*(E+m))
    ents=[F(E,m)]+[F(-c,m) for c in (x,y,z)]+[ (1 if i==j else 0)+F(a*b)*k for i,a in enumerate((x,y,z)) for j,b in enumerate((x,y,z))]
    return max(max(abs(e.numerator), e.denominator) for e in ents)
res=[]
for E in range(2,30):
    for x in range(0,E):
        for y in range(x,E):
            for z in range(y,E):
                m2=E*E-x*x-y*y-z*z
                if m2<=0: continue
                m=math.isqrt(m2)
                if m*m!=m2 or math.gcd(math.gcd(E,x),math.gcd(y,z))!=1: continue
                res.append((big((m,E,x,y,z)),m,E,x,y,z))
res.sort()
for r in res[:40]: print(r)
print("distinct nonzero:")
for r in res:
    b,m,E,x,y,z = r
    if 0<x<y<z and b<=40: print(r, "gamma=%.2f"%(E/m))
