"""Abstract terms of spec/ExprAlgebra.tla on the Python side.

A term is the nested tuple  (k, h, a, at, ix, bg)  mirroring the TLA+ record
[k, h, a, at, ix, bg]:  a = tuple of terms, at = tuple of attribute labels,
ix = tuple of (index symbol, tuple of value labels), bg = frozenset of (term, count).
Nothing here computes with terms (substitution, evaluation, cleanup are the
specification's business); this module only converts: TLC value <-> term <-> JSON, and
real SymPy objects of the PoolSum / uninterpreted-function fragment <-> term."""
from __future__ import annotations

import sympy as sp

K, H, A, AT, IX, BG = range(6)


def mk(k, h="", a=(), at=(), ix=(), bg=frozenset()):
    return (k, h, tuple(a), tuple(at), tuple(ix), frozenset(bg))


def leaf(s):
    return mk("leaf", s)


def val(v):
    return mk("val", str(v))


def node(h, args, at=()):
    return mk("node", h, args, at)


def pool(body, ix):
    return mk("pool", "", (body,), (), tuple((s, tuple(vs)) for s, vs in ix))


def sum_of(bag):
    """bag: iterable of (term, count); normalised like NormSum only in the trivial way
    (merging equal terms); used for projections of real Add objects."""
    acc = {}
    for t, c in bag:
        acc[t] = acc.get(t, 0) + c
    if len(acc) == 1:
        ((t, c),) = acc.items()
        if c == 1:
            return t
    return mk("sum", "", (), (), (), frozenset(acc.items()))


# ---- TLC value -> term ---------------------------------------------------------------
def from_tla(x):
    """tlaval.parse output (dict, or the frozen tuple-of-pairs form inside sets)."""
    if isinstance(x, dict):
        d = x
    else:
        d = dict(x)
    a = d["a"]
    ix = d["ix"]
    bg = d["bg"]
    return (
        str(d["k"]),
        str(d["h"]),
        tuple(from_tla(y) for y in a),
        tuple(str(y) for y in d["at"]),
        tuple((str(p[0]), tuple(str(v) for v in p[1])) for p in ix),
        frozenset((from_tla(p[0]), int(p[1])) for p in bg),
    )


def map_from_tla(m):
    """sequence of <<key, replacement>>"""
    return tuple((from_tla(p[0]), from_tla(p[1])) for p in m)


# ---- term -> JSON (trace records) -----------------------------------------------------------
def to_json(t):
    return {
        "k": t[K],
        "h": t[H],
        "a": [to_json(y) for y in t[A]],
        "at": list(t[AT]),
        "ix": [[s, list(vs)] for s, vs in t[IX]],
        "bg": sorted(([to_json(e), c] for e, c in t[BG]), key=repr),
    }


def map_to_json(m):
    return [[to_json(k), to_json(r)] for k, r in m]


def show(t, depth=0):
    """compact, human readable"""
    k = t[K]
    if k in ("leaf", "val"):
        return t[H]
    if k in ("node", "unf"):
        s = f"{t[H]}({', '.join(show(y) for y in t[A])}"
        if t[AT]:
            s += "; " + ", ".join(t[AT])
        s += ")"
        return ("doit:" if k == "unf" else "") + s
    if k == "pool":
        ix = ", ".join(f"({s}, ({', '.join(vs)}{',' if len(vs) == 1 else ''}))" for s, vs in t[IX])
        return f"PoolSum({show(t[A][0])}{', ' + ix if ix else ''})"
    if k == "sum":
        return " + ".join(sorted((f"{c}*" if c != 1 else "") + show(e) for e, c in t[BG]))
    return repr(t)


def size(t):
    return 1 + sum(size(y) for y in t[A]) + sum(size(e) for e, _ in t[BG])


def depth(t):
    sub = [depth(y) for y in t[A]] + [depth(e) for e, _ in t[BG]]
    return (0 if t[K] in ("leaf", "val", "sum") else 1) + (max(sub) if sub else 0)


def heads(t):
    out = set()
    if t[K] in ("node", "unf"):
        out.add(t[H])
    for y in t[A]:
        out |= heads(y)
    for e, _ in t[BG]:
        out |= heads(e)
    return out


def leaves(t):
    out = set()
    if t[K] == "leaf":
        out.add(t[H])
    for y in t[A]:
        out |= leaves(y)
    for e, _ in t[BG]:
        out |= leaves(e)
    return out


def has_pool(t):
    return t[K] == "pool" or any(has_pool(y) for y in t[A]) or any(has_pool(e) for e, _ in t[BG])


def shadowing(t, bound=frozenset()):
    """an index symbol bound again inside the scope of a sum over the same symbol"""
    if t[K] == "pool":
        syms = {s for s, _ in t[IX]}
        if syms & bound:
            return True
        return shadowing(t[A][0], bound | syms)
    return any(shadowing(y, bound) for y in t[A]) or any(shadowing(e, bound) for e, _ in t[BG])


# ---- the PoolSum / uninterpreted-function fragment <-> SymPy ----------------------------------
UNINTERPRETED = ("f", "g", "h", "F", "G")


class Z(sp.Function):
    """the interpreted head of ExprAlgebra: zero as soon as one argument is zero (evaluated at construction, like a product)"""

    @classmethod
    def eval(cls, *args):
        if any(a == 0 for a in args):
            return sp.S.Zero
        return None


def rational(label: str):
    return sp.Rational(label)


def concretise_pool(t):
    """term of the pool fragment -> real object built through the public constructors"""
    from ampform.sympy import PoolSum

    k = t[K]
    if k == "leaf":
        return sp.Symbol(t[H])
    if k == "val":
        return rational(t[H])
    if k == "node":
        if t[H] == "Z":
            return Z(*[concretise_pool(y) for y in t[A]])
        return sp.Function(t[H])(*[concretise_pool(y) for y in t[A]])
    if k == "pool":
        return PoolSum(
            concretise_pool(t[A][0]),
            *[(sp.Symbol(s), tuple(rational(v) for v in vs)) for s, vs in t[IX]],
        )
    if k == "sum":
        return sp.Add(*[c * concretise_pool(e) for e, c in t[BG]])
    raise ValueError(f"not in the pool fragment: {t[K]}")


class NotProjectable(Exception):
    pass


def project_pool(e):
    """real object -> term; total on SymPy trees (unknown heads become generic nodes)"""
    from ampform.sympy import PoolSum

    if isinstance(e, PoolSum):
        ix = []
        for entry in e.args[1:]:
            s, vs = entry.args if isinstance(entry, sp.Tuple) else entry
            ix.append((_index_label(s), tuple(_val_label(v) for v in vs)))
        return mk("pool", "", (project_pool(e.args[0]),), (), tuple(ix))
    if isinstance(e, sp.Symbol):
        return leaf(e.name)
    if isinstance(e, sp.Rational):
        return val(_val_label(e))
    if isinstance(e, sp.Add):
        return sum_of(_coeff_terms(e))
    if isinstance(e, sp.Mul):
        c, rest = e.as_coeff_Mul()
        if c.is_Integer and c > 1 and not isinstance(rest, (sp.Mul, sp.Number)):
            return sum_of([(project_pool(rest), int(c))])
        return node("Mul", [project_pool(a) for a in e.args])
    if isinstance(e, sp.Basic):
        name = e.func.__name__ if hasattr(e.func, "__name__") else type(e).__name__
        return node(name, [project_pool(a) for a in e.args])
    raise NotProjectable(repr(e))


def _coeff_terms(e):
    for a in e.args:
        c, rest = a.as_coeff_Mul()
        if c.is_Integer and c >= 1 and not isinstance(rest, sp.Number):
            p = project_pool(rest)
            if p[K] == "sum":  # nested Add under a coefficient cannot happen after flattening; keep generic
                yield node("Mul", [val(_val_label(c)), p]), 1
            else:
                yield p, int(c)
        else:
            yield project_pool(a), 1


def _val_label(v):
    v = sp.sympify(v)
    if isinstance(v, sp.Rational):
        return str(v.p) if v.q == 1 else f"{v.p}/{v.q}"
    return "?" + sp.srepr(v)


def _index_label(s):
    if isinstance(s, sp.Symbol):
        return s.name
    return "?" + sp.srepr(s)
