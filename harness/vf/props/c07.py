"""C07 — kinematic variables mean what their names say, in every topology.

spec/Topo.tla (+Topo_MC exhaustive over all isobar trees) gives the documented meaning
Dir(target, frame)/Mass(target) of every name; the library's expression trees are projected
to the same abstract meanings (vf/topo.py) and validated by spec/Trace_Kin.tla; an
independent numpy boost-and-rotate evaluates the meanings on generated events and is
compared with the lambdified library expressions (observation law)."""
from __future__ import annotations

import itertools
import random

import numpy as np

from .. import numeric, tlc, topo, trace
from ..core import Machinery

LEVEL = "model_checking"
META = {
    "technique": "TLA+ spec Topo (laminar-family topologies, naming, documented meaning Dir/Mass) model-checked with TLC over every "
    "pair of isobar trees with <=5 leaves; trace validation (Trace_Kin) of the projected expression trees of "
    "compute_helicity_angles / compute_invariant_masses / HelicityAdapter for every relabelled topology object; "
    "numeric observation law against an independent boost-and-rotate",
    "text": "The meaning of every kinematic-variable name is computed by the specification from the topology alone; TLC shows "
    "the naming design is clash-free for all trees, and every concrete topology object (all leaf permutations and "
    "intermediate renumberings) is bound to it by projecting the real expression trees and letting TLC compare. "
    "Exhaustive in the discrete dimension (topologies x relabelings), sampled in the continuous one (events).",
    "note": "Trusted: TLC; the projection expression-tree -> Dir/Mass in vf/topo.py (checked against an independent numeric "
    "route on events); sympy lambdify/numpy. The convention for nodes whose two children both decay is calibrated on "
    "the canonical qrules topologies (documentation is silent). Bounds: <=5 final states; events sampled.",
    "design_ref": "DESIGN.md §4 C07",
}

MC_CFG = """SPECIFICATION Spec
CONSTANTS
 N = {n}
 Dev <- {dev}
INVARIANT WellFormed
INVARIANT NamesUnique
INVARIANT NoClash
INVARIANT MassNoClash
INVARIANT NameDeterminesNode
{extra}CHECK_DEADLOCK FALSE
"""


def topology_record(rid, t):
    from ampform.kinematics.angles import compute_helicity_angles
    from ampform.kinematics.lorentz import compute_invariant_masses, create_four_momentum_symbols

    p = create_four_momentum_symbols(t)
    exprs = dict(compute_helicity_angles(p, t))
    masses = compute_invariant_masses(p, t)
    proj = topo.project_kinematics({**exprs, **masses})
    from ampform.helicity.decay import is_opposite_helicity_state
    from ampform.helicity.naming import get_boost_chain_suffix, get_topology_identifier

    suffixes, opposite = [], []
    for e in t.edges:
        if e in t.incoming_edge_ids:
            continue
        suffixes.append([list(topo.attached(t, e)), topo.parse_name("x" + get_boost_chain_suffix(t, e))[1]])
        opposite.append([list(topo.attached(t, e)), int(is_opposite_helicity_state(t, e))])
    # the tree operators of ampform.helicity.decay, per edge, as final-state sets
    from ampform.helicity import decay as D

    att = lambda e: list(topo.attached(t, e))  # noqa: E731
    treeops = []
    for e in t.edges:
        par = D.get_parent_id(t, e)
        try:
            sib = att(D.get_sibling_state_id(t, e))
        except ValueError:
            sib = []
        treeops.append({"s": att(e), "attached": list(D.determine_attached_final_state(t, e)), "parent": att(par) if par is not None else [],
                        "sibling": sib, "chain": [att(x) for x in D.list_decay_chain_ids(t, e)]})
    three = {}
    if len(t.outgoing_edge_ids) == 3 and set(t.incoming_edge_ids) == {-1} and set(t.outgoing_edge_ids) == {0, 1, 2}:
        # the three-body operators require the relabelled ids (0; 1, 2, 3): relabel_edge_ids shifts every id by one
        from ampform.helicity.align.dpd import relabel_edge_ids

        t3 = relabel_edge_ids(t)
        try:
            three = {"spectator": int(D.get_spectator_id(t3)) - 1, "products": [int(x) - 1 for x in D.get_decay_product_ids(t3)], "err": "",
                     "relabelled_tree": [list(x) for x in topo.tree_of(t3)], "relabelled_initial": sorted(t3.incoming_edge_ids)}
        except Exception as ex:  # noqa: BLE001
            three = {"spectator": -99, "products": [], "err": type(ex).__name__, "relabelled_tree": [], "relabelled_initial": []}
    from ampform.kinematics.lorentz import compute_boost_chain

    boost_chains = [[i, topo.project_boost_chain(compute_boost_chain(t, p, i))] for i in sorted(t.outgoing_edge_ids)]
    ident = get_topology_identifier(t)
    topo_id = [[int(c) for c in g] for g in ident.split(",")] if ident else []
    return {"kind": "topology", "id": rid, "tree": [list(s) for s in topo.tree_of(t)], "suffixes": suffixes, "opposite": opposite, "topo_id": topo_id, "boost_chains": boost_chains, "treeops": treeops, "three": [three] if three else [], **proj}, {**exprs, **masses}


def raw_exprs(t):
    from ampform.kinematics.angles import compute_helicity_angles
    from ampform.kinematics.lorentz import compute_invariant_masses, create_four_momentum_symbols

    p = create_four_momentum_symbols(t)
    return {**compute_helicity_angles(p, t), **compute_invariant_masses(p, t)}


def adapter_record(rid, initial, permuted):
    from ampform.kinematics import HelicityAdapter
    from ampform.kinematics.angles import compute_helicity_angles
    from ampform.kinematics.lorentz import create_four_momentum_symbols

    ad = HelicityAdapter(initial)
    if permuted:
        ad.permutate_registered_topologies()
    count = len(ad.registered_topologies)
    if permuted:
        ad.permutate_registered_topologies()
    for t0 in list(ad.registered_topologies)[:2]:
        ad.register_topology(t0)
    count_again = len(ad.registered_topologies)
    # a topology over different final-state ids must be refused
    fs = sorted(next(iter(ad.registered_topologies)).outgoing_edge_ids)
    other = topo.permute_leaves(next(iter(ad.registered_topologies)), {fs[-1]: fs[-1] + 50})
    try:
        HelicityAdapter(list(ad.registered_topologies)).register_topology(other)
        refused = 0
    except ValueError:
        refused = 1
    merged = topo.project_kinematics(ad.create_expressions())
    tops = []
    for t in ad.registered_topologies:
        p = create_four_momentum_symbols(t)
        pr = topo.project_kinematics(dict(compute_helicity_angles(p, t)))
        tops.append({"tree": [list(s) for s in topo.tree_of(t)], "angles": pr["angles"]})
    return {
        "kind": "adapter", "id": rid, "permuted": int(permuted), "count": count, "count_again": count_again, "mismatch_refused": refused,
        "initial": [[list(s) for s in topo.tree_of(t)] for t in initial],
        "tops": tops, **merged,
    }


def numeric_check(chk, t, exprs, rng, nev, label):
    """Independent boost-and-rotate vs lambdified library expressions on generated events."""
    tree = topo.tree_of(t)
    doc = topo.doc_angles(tree)
    leaves = sorted(i for s in tree if len(s) == 1 for i in s)
    worst = 0.0
    fams = []
    lam = {}
    for fam in ("generic", "massless", "near-threshold", "boosted"):
        masses = {i: rng.choice([0.14, 0.5, 0.94, 1.2]) for i in leaves}
        if fam == "massless":
            masses[leaves[rng.randrange(len(leaves))]] = 0.0
            masses[leaves[0]] = 0.0
        M = sum(masses.values()) + (0.05 if fam == "near-threshold" else rng.uniform(0.5, 3.0))
        P = numeric.gen_events(tree, masses, M, nev, np.random.default_rng(rng.randrange(2**31)))
        if fam == "boosted":
            P = numeric.boost_all(P, np.array([0.3, -0.4, 0.85]) * rng.choice([0.5, 0.9, 1.0]))
        else:
            P = numeric.rotate(P, numeric.random_rotation(np.random.default_rng(rng.randrange(2**31))))
        fams.append(fam)
        for cse in (True, False):
            for sym, expr in exprs.items():
                kind, groups = topo.parse_name(sym.name)
                key = (sym, cse)
                if key not in lam:
                    lam[key] = numeric.lambdify_kin(expr, cse)
                syms_, f_ = lam[key]
                with np.errstate(all="ignore"):
                    lib = np.asarray(f_(*[P[int(str(x)[1:])] for x in syms_]))
                if kind == "m":
                    ref = numeric.inv_mass(P, groups[0])
                    scale = np.maximum(np.abs(ref), 1e-3)
                    lib = np.real(lib)
                    ok = np.isfinite(lib)
                    d = np.where(ok, np.abs(lib - ref) / scale, 0)
                    # the mass of a massless particle is sqrt(~0): absolute comparison
                    d = np.where(ref < 1e-4, np.abs(lib - ref) * 1e-3, d)
                else:
                    if tuple(map(tuple, groups)) not in doc:
                        chk.violation(f"undocumented-angle-name:{sym.name}", f"{sym.name} is not a name the topology {tree} defines", {"tree": tree})
                        continue
                    tgt, frm = doc[tuple(map(tuple, groups))]
                    th, ph = numeric.dir_angles(P, tgt, frm)
                    if kind == "theta":
                        d = np.abs(lib - th)
                        d = np.where((np.sin(th) > 1e-3), d, 0)  # acos is ill-conditioned at the poles
                    else:
                        d = numeric.angle_diff(lib, ph)
                        d = np.where(np.sin(th) > 1e-3, d, 0)  # phi undefined along the axis
                    if fam == "near-threshold":
                        d = d * 1e-3  # conditioning: momenta O(1e-2) in the rest frames
                worst = max(worst, float(np.nanmax(d)))
                chk.count(1)
                if float(np.nanmax(d)) > 1e-7:
                    chk.violation(
                        f"numeric-meaning:{kind}:{'cse' if cse else 'nocse'}:{fam}",
                        f"{sym.name} of topology {tree} differs from the independent boost-and-rotate by {float(np.nanmax(d)):.3e} ({label})",
                        {"tree": tree, "symbol": sym.name, "family": fam, "cse": cse},
                    )
    return worst, fams


def dalitz_clause(chk, rng, nev):
    """Three-body decays: the polar helicity angle of the helicity child of the (ij) resonance equals the
    closed-form Dalitz-variable expression formulate_scattering_angle(i, j) the library provides."""
    import sympy as sp
    from ampform.kinematics.angles import compute_helicity_angles, formulate_scattering_angle
    from ampform.kinematics.lorentz import create_four_momentum_symbols

    can = topo.canonical(3)[0]  # 0(12)
    worst, n = 0.0, 0
    for (i, j, k) in ((1, 2, 3), (2, 3, 1), (1, 3, 2)):
        t = topo.permute_leaves(topo.renumber_intermediate(can, {3: 9}), {0: k, 1: i, 2: j})
        p = create_four_momentum_symbols(t)
        angles = compute_helicity_angles(p, t)
        sym = next(s for s in angles if s.name == f"theta_{i}^{i}{j}")
        masses = {1: rng.choice([0.14, 0.5]), 2: rng.choice([0.94, 0.3]), 3: rng.choice([0.14, 0.0, 0.7])}
        M = sum(masses.values()) + rng.uniform(0.3, 2.0)
        P = numeric.gen_events(topo.tree_of(t), masses, M, nev, np.random.default_rng(rng.randrange(2**31)))
        lib = numeric.eval_kin(angles[sym], P, cse=bool(rng.getrandbits(1)))
        _, closed = formulate_scattering_angle(i, j)
        vals = {"m_0": np.full(nev, M), **{f"m_{a}": np.full(nev, masses[a]) for a in (1, 2, 3)},
                "m_12": numeric.inv_mass(P, (1, 2)), "m_13": numeric.inv_mass(P, (1, 3)), "m_23": numeric.inv_mass(P, (2, 3))}
        syms = sorted(closed.free_symbols, key=str)
        with np.errstate(all="ignore"):
            cf = np.asarray(sp.lambdify(syms, closed.doit(), "numpy")(*[vals[s.name] for s in syms]), dtype=float)
        d = np.where(np.sin(lib) > 1e-3, np.abs(lib - cf), 0)
        worst = max(worst, float(np.nanmax(d)))
        n += 1
        chk.count(1)
        if float(np.nanmax(d)) > 1e-7 or not np.all(np.isfinite(cf)):
            chk.violation(f"dalitz-closed-form:theta_{i}{j}", f"helicity angle theta_{i}^{i}{j} from four-momenta differs from formulate_scattering_angle({i}, {j}) by {float(np.nanmax(d)):.3e}", {"pair": [i, j], "masses": masses, "M": M})
    return worst, n


def run(chk, replay=None):
    tier = chk.tier
    rng = random.Random(chk.seed)
    chk.assume(
        "TLC/SANY", "projection of expression trees in vf/topo.py", "numpy/sympy lambdify",
        "convention for nodes whose two children both decay is calibrated on canonical qrules topologies",
    )
    # 1. design: exhaustive over all pairs of trees
    ns = [3, 4] + ([5] if tier == "thorough" else [])
    for n in ns:
        res = tlc.run("Topo_MC", MC_CFG.format(n=n, dev="DevNone", extra="INVARIANT RelabelCommutes\n" if n <= 4 else ""), workers=12, fast_start=False, timeout=1500)
        chk.add_tlc(f"design_pairs_N{n}", res)
        if not res.ok:
            raise Machinery(f"naming design violates {res.violated} for N={n}")
    res = tlc.run("Topo_MC", MC_CFG.format(n=4, dev="DevPinned", extra=""), workers=4, timeout=600)
    if res.ok:
        raise Machinery("Topo_MC is insensitive to the SiblingOverwrite deviation")
    chk.part("deviation_sensitivity", violated=res.violated)

    # 2. every concrete topology object
    records, numeric_jobs, drift_jobs = [], [], []
    rid = 0
    per_n_limit = {2: None, 3: None, 4: None, 5: 400 if tier == "thorough" else 60}
    for n in (2, 3, 4, 5):
        for ci, ct in enumerate(topo.canonical(n)):
            for t in topo.variants(ct, limit=per_n_limit[n], rng=rng):
                try:
                    rec, exprs = topology_record(rid, t)
                except topo.ProjectionError as e:
                    chk.spec_drift(f"expression shape not understood for a {n}-body topology: {e}")
                    if len(drift_jobs) < 6:
                        drift_jobs.append((t, raw_exprs(t), f"n={n} canonical#{ci} (unprojectable)"))
                    continue
                records.append(rec)
                chk.nontrivial(("topology", tuple(map(tuple, rec["tree"])), tuple(sorted(t.intermediate_edge_ids)), tuple((k, v.originating_node_id, v.ending_node_id) for k, v in sorted(t.edges.items()))))
                n5 = sum(1 for j in numeric_jobs if j[2].startswith("n=5"))
                if len(numeric_jobs) < (24 if tier == "thorough" else 10) and rng.random() < (0.5 if n < 5 else 0.05) and (n < 5 or n5 < (3 if tier == "thorough" else 1)):
                    numeric_jobs.append((t, exprs, f"n={n} canonical#{ci}"))
                rid += 1
    n_top = len(records)
    # 3. adapters
    for n in (3, 4) + ((5,) if tier == "thorough" else ()):
        cans = topo.canonical(n)
        for ct in cans:
            for permuted in (False, True):
                if n == 5 and permuted:
                    continue  # 120 permutations x nested projections: covered by single-topology records
                try:
                    records.append(adapter_record(rid, [ct], permuted))
                except topo.ProjectionError as e:
                    chk.spec_drift(f"adapter expressions not understood: {e}")
                rid += 1
        for a, b in itertools.combinations(cans, 2):
            try:
                records.append(adapter_record(rid, [a, b], False))
            except topo.ProjectionError as e:
                chk.spec_drift(f"adapter expressions not understood: {e}")
            rid += 1
        # relabelled variants registered together (what a user gets from several reactions)
        for ct in cans:
            vs = list(topo.variants(ct, limit=6, rng=rng))
            try:
                records.append(adapter_record(rid, vs, False))
            except topo.ProjectionError as e:
                chk.spec_drift(f"adapter expressions not understood: {e}")
            rid += 1
    chk.count(len(records))
    if records:
        tv = trace.validate("Trace_Kin", records, timeout=1800)
        chk.add_tlc("trace_kin", tv.res, traces=len(records))
        chk.part("trace_kin", topology_records=n_top, adapter_records=len(records) - n_top, stats=tv.stats)
        chk.sample({"record": {k: records[min(5, len(records) - 1)][k] for k in ("kind", "tree", "angles") if k in records[min(5, len(records) - 1)]}})
    else:
        # every expression shape is unknown to the projection: the verdict comes from the numeric law alone
        tv = trace.TraceVerdict(res=None)
    vacuous = tv.stats.get("angles-checked", 0) == 0
    if tv.stats.get("both-decay-flip", 0):
        chk.note(f"{tv.stats['both-decay-flip']} angle definitions at nodes whose two children both decay are filled with the helicity child (edge-numbering dependent; tolerated as convention for a single topology, rejected as clash inside one adapter)")
    byid = {r["id"]: r for r in records}
    for clause, rid_, info in tv.rejects:
        r = byid.get(rid_, {})
        if clause == "name-clash":
            sig = "HelicityAdapter:name-clash:" + ("both-children-decay" if any(len([s for s in tr if len(s) > 1]) >= 3 for tr in [t["tree"] for t in r.get("tops", [])]) else "other")
            detail = f"in one adapter the name {info[1]} ({info[0]}) denotes the direction of {info[2]} and, in topology {info[4]}, of {info[3]}"
        else:
            sig = f"{r.get('kind')}:{clause}:n={len([s for s in r.get('tree', r.get('initial', [[]])[0]) if len(s) == 1])}"
            detail = f"{clause}: {info} for record {r.get('tree', r.get('initial'))}"
        chk.violation(sig, detail, {"record": r})

    # 4. numeric observation law
    worst = 0.0
    for t, exprs, label in drift_jobs + numeric_jobs:
        w, fams = numeric_check(chk, t, exprs, rng, 64, label)
        worst = max(worst, w)
    dw, dn = dalitz_clause(chk, rng, 64)
    chk.part("dalitz_closed_form", pairs=dn, worst_abs_diff=dw)
    if vacuous and not chk.violations and not drift_jobs:
        raise Machinery("vacuous: no angle was compared")
    chk.part("numeric", topologies=len(numeric_jobs), worst_abs_diff=worst, families=["generic", "massless", "near-threshold", "boosted"], cse=[True, False])

    # 5. binding demonstration: a corrupted projection must be rejected
    if tier == "thorough" or True:
        import copy

        cand = [r for r in records if r["kind"] == "topology" and r["angles"]]
        bad = copy.deepcopy(cand[min(3, len(cand) - 1)]) if cand else None
    if bad is not None and not chk.violations:
        bad["id"] = 999999
        if bad["angles"]:
            bad["angles"][0]["target"] = [bad["angles"][0]["target"][0] ^ 1] if len(bad["angles"][0]["target"]) == 1 else bad["angles"][0]["target"][:-1]
        tvb = trace.validate("Trace_Kin", [bad])
        if not tvb.rejects:
            raise Machinery("binding demonstration failed: corrupted angle target accepted by Trace_Kin")
        chk.part("binding_demo", corrupted_field="angles[0].target", rejected_by=[r[0] for r in tvb.rejects])
    chk.cov["rule"] = (
        "cases = concrete qrules Topology objects: every canonical isobar topology with 2..5 final states x leaf permutations x "
        "intermediate-edge renumberings (5-body sampled in quick), plus adapters (single, permuted, pairs, relabelled sets); "
        "distinct = distinct (tree, edge numbering); numeric: events of 4 families x cse on/off per sampled topology"
    )
