"""Check context: verdict bookkeeping, known-findings matching, evidence writing."""
from __future__ import annotations

import hashlib
import json
import os
import sys
import time
from pathlib import Path

ROOT = Path(__file__).resolve().parents[2]
# runs against a scratch worktree (VERIF_REPO_SRC: mutation experiments) must not overwrite the evidence of /repo
EVIDENCE_DIR = ROOT / (".scratch_evidence" if os.environ.get("VERIF_REPO_SRC") else "evidence")
REPLAY_DIR = ROOT / (".scratch_replays" if os.environ.get("VERIF_REPO_SRC") else "replays")
FINDINGS_FILE = ROOT / "known_findings.json"

LEVELS = ("exploration", "fault_enumeration", "model_checking", "proof", "translation_validation", "other")


class Machinery(RuntimeError):
    """Raised for harness failures that are not verdicts (exit 2)."""


def load_findings() -> dict:
    if not FINDINGS_FILE.exists():
        return {"findings": [], "fixed": []}
    return json.loads(FINDINGS_FILE.read_text())


class Check:
    def __init__(self, pid: str, tier: str, seed: int, level: str):
        assert level in LEVELS
        self.pid, self.tier, self.seed, self.level = pid, tier, seed, level
        self.t0 = time.time()
        self.violations: list[dict] = []
        self.known: list[dict] = []
        self.drift: list[str] = []
        self.notes: list[str] = []
        self.assumptions: list[str] = []
        self.cov: dict = {
            "evaluations": 0,
            "distinct_nontrivial": 0,
            "rule": "",
            "samples": [],
            "states": 0,
            "transitions": 0,
            "traces_validated_against_impl": 0,
            "explanation": "",
            "parts": {},
        }
        self._distinct: set = set()
        self._findings = [f for f in load_findings().get("findings", []) if f.get("property") == pid]
        self._seen_sigs: set = set()

    # ---- coverage --------------------------------------------------------------
    def count(self, n: int = 1):
        self.cov["evaluations"] += n

    def nontrivial(self, key):
        """Register a distinct non-trivial case by a hashable key."""
        self._distinct.add(key if isinstance(key, (str, int, tuple)) else json.dumps(key, sort_keys=True, default=str))

    def sample(self, obj, limit: int = 6):
        if len(self.cov["samples"]) < limit:
            self.cov["samples"].append(obj)

    def add_tlc(self, name: str, res, traces: int = 0):
        self.cov["states"] += res.distinct
        self.cov["transitions"] += res.generated
        self.cov["traces_validated_against_impl"] += traces
        part = {"tlc_distinct": res.distinct, "tlc_generated": res.generated, "wall_s": round(res.wall_s, 2), "cmd": res.cmd}
        if res.coverage:
            part["action_coverage"] = res.coverage
        if traces:
            part["traces"] = traces
        self.cov["parts"][name] = part

    def part(self, name: str, **kw):
        self.cov["parts"].setdefault(name, {}).update(kw)

    def note(self, s: str):
        self.notes.append(s)

    def assume(self, *s: str):
        for x in s:
            if x not in self.assumptions:
                self.assumptions.append(x)

    # ---- verdicts --------------------------------------------------------------
    def violation(self, signature: str, detail: str, replay: dict | None = None):
        """A clause of the property is contradicted by the implementation.
        `signature` identifies the specific input / call site / history."""
        for f in self._findings:
            if f.get("status", "open") == "open" and f["signature"] == signature:
                if signature not in self._seen_sigs:
                    self._seen_sigs.add(signature)
                    self.known.append({"signature": signature, "detail": detail})
                return
        if signature in self._seen_sigs:
            return
        self._seen_sigs.add(signature)
        path = None
        REPLAY_DIR.mkdir(exist_ok=True)
        d = REPLAY_DIR / self.pid
        d.mkdir(exist_ok=True)
        h = hashlib.sha1(signature.encode()).hexdigest()[:10]
        path = d / f"{h}.json"
        path.write_text(json.dumps({"property": self.pid, "signature": signature, "detail": detail, "case": replay}, indent=1, default=str))
        self.violations.append({"signature": signature, "detail": detail, "replay": str(path)})

    def spec_drift(self, what: str):
        if what not in self.drift:
            self.drift.append(what)

    # ---- finish ----------------------------------------------------------------
    def finish(self) -> int:
        self.cov["distinct_nontrivial"] = len(self._distinct)
        cov = dict(self.cov)
        if not cov["samples"]:
            cov["samples"] = ["(no sample recorded)"]
        if self.level != "model_checking" or cov["states"] == 0:
            # keep model-checking keys only when TLC actually ran
            if cov["states"] == 0:
                for k in ("states", "transitions"):
                    cov.pop(k, None)
        if not cov["explanation"]:
            cov.pop("explanation")
        cov["known_findings_reported"] = [k["signature"] for k in self.known]
        cov["spec_drift"] = self.drift
        cov["notes"] = self.notes
        ev = {
            "property_id": self.pid,
            "tier": self.tier,
            "seed": self.seed,
            "level": self.level,
            "coverage": cov,
            "assumptions": self.assumptions,
            "wall_s": round(time.time() - self.t0, 2),
            "violations": len(self.violations),
        }
        EVIDENCE_DIR.mkdir(exist_ok=True)
        (EVIDENCE_DIR / f"{self.pid}.json").write_text(json.dumps(ev, indent=1, default=str) + "\n")
        for k in self.known:
            print(f"KNOWN-FINDING: property={self.pid} {k['signature']} :: {k['detail'][:300]}")
        for d in self.drift:
            print(f"SPEC-DRIFT: property={self.pid} {d}")
        for v in self.violations:
            print(f"VIOLATION property={self.pid} replay={v['replay']}")
            print(f"  signature: {v['signature']}")
            print(f"  detail: {v['detail'][:1500]}")
        status = "VIOLATED" if self.violations else "held"
        print(
            f"[{self.pid}] {status}: tier={self.tier} seed={self.seed} evaluations={cov['evaluations']} "
            f"distinct={cov['distinct_nontrivial']} tlc_states={self.cov['states']} "
            f"traces={self.cov['traces_validated_against_impl']} known={len(self.known)} "
            f"wall={ev['wall_s']}s"
        )
        sys.stdout.flush()
        return 1 if self.violations else 0


def env_seed() -> int:
    try:
        return int(os.environ.get("VERIF_SEED", "0"))
    except ValueError:
        return 0


def child_env(hashseed="keep") -> dict:
    """Environment for helper subprocesses: same ampform source as this process."""
    env = dict(os.environ)
    src = os.environ.get("VERIF_REPO_SRC")
    env["PYTHONPATH"] = (src + ":" if src else "") + str(ROOT / "harness")
    env["PYTHONDONTWRITEBYTECODE"] = "1"
    if hashseed != "keep":
        env.pop("PYTHONHASHSEED", None)
        if hashseed is not None:
            env["PYTHONHASHSEED"] = str(hashseed)
    return env
