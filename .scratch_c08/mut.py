import subprocess, sys, os, re, time, json
WT = "/tmp/wt_c08"
LZ = "src/ampform/kinematics/lorentz.py"
AE = "src/ampform/sympy/_array_expressions.py"
MUTS = {
 "M1_rotY_explicit_sign": (LZ, "            [0, -sp.sin(angle), 0, sp.cos(angle)],", "            [0, sp.sin(angle), 0, sp.cos(angle)],"),
 "M2_rotZ_printer_sign": (LZ, "                [{zeros}, {cos_angle}, -{sin_angle}, {zeros}],", "                [{zeros}, {cos_angle}, {sin_angle}, {zeros}],"),
 "M3_boost_printer_b12_b13": (LZ, "                [{b01}, {b11}, {b12}, {b13}],", "                [{b01}, {b11}, {b13}, {b12}],"),
 "M4_matmul_einsum_output": (AE, "return f\"{','.join(groups)}->...i{letters[-1]}\"", "return f\"{','.join(groups)}->...{letters[-1]}i\""),
 "M5_arraymul_einsum_letters": (AE, "                contraction += f\"...{i}{j},\"", "                contraction += f\"...{j}{i},\""),
 "M6_metric_printer_energy": (LZ, "                [{ones}, {zeros}, {zeros}, {zeros}],\n                [{zeros}, -{ones}, {zeros}, {zeros}],", "                [-{ones}, {zeros}, {zeros}, {zeros}],\n                [{zeros}, -{ones}, {zeros}, {zeros}],"),
 "M6b_metric_explicit_energy": (LZ, "            [1, 0, 0, 0],\n            [0, -1, 0, 0],", "            [-1, 0, 0, 0],\n            [0, -1, 0, 0],"),
 "M7_boostZ_evaluate_gamma": (LZ, "        gamma = 1 / sp.sqrt(1 - beta**2)  # type: ignore[operator]\n        n_events = self.n_events", "        gamma = 1 / sp.sqrt(1 + beta**2)  # type: ignore[operator]\n        n_events = self.n_events"),
 "M8_boostZ_printer_beta_swapped": (LZ, "        _, gamma, gamma_beta, ones, zeros = map(printer._print, self.args)\n        return f\"\"\"array(\n            [\n                [{gamma}, {zeros}, {zeros}, -{gamma_beta}],", "        gamma_beta, gamma, _, ones, zeros = map(printer._print, self.args)\n        return f\"\"\"array(\n            [\n                [{gamma}, {zeros}, {zeros}, -{gamma_beta}],"),
 "M9_revert_cse_false_fix": (LZ, None, None),
 "M10_boost_explicit_entry": (LZ, "                (g - 1) * beta_y * beta_x / beta_sq,\n                (g - 1) * beta_z * beta_x / beta_sq,\n            ],", "                (g - 1) * beta_z * beta_x / beta_sq,\n                (g - 1) * beta_z * beta_x / beta_sq,\n            ],"),
 "M11_boost_evaluate_b01_sign": (LZ, "            b01=-gamma * beta_x,", "            b01=gamma * beta_x,"),
 "M12_rotY_printer_transpose": (LZ, "                [{zeros}, -{sin_angle}, {zeros}, {cos_angle}],\n            ]\n        ).transpose((2, 0, 1))", "                [{zeros}, -{sin_angle}, {zeros}, {cos_angle}],\n            ]\n        ).transpose((2, 1, 0))"),
 "M13_energy_wrong_column": (LZ, "        return ArraySlice(self.momentum, (slice(None), 0))", "        return ArraySlice(self.momentum, (slice(None), 1))"),
 "M14_boost_explicit_gamma": (LZ, "        g = 1 / sp.sqrt(1 - beta_sq)\n        return sp.Matrix([", "        g = 1 / sp.sqrt(1 + beta_sq)\n        return sp.Matrix(["),
 "M15_boostZ_explicit_swap": (LZ, "            [gamma, 0, 0, -gamma * beta],\n            [0, 1, 0, 0],\n            [0, 0, 1, 0],\n            [-gamma * beta, 0, 0, gamma],", "            [gamma, 0, 0, -beta],\n            [0, 1, 0, 0],\n            [0, 0, 1, 0],\n            [-beta, 0, 0, gamma],"),
}

MUTS.update({
 "S4_boostZ_ones_shape": (LZ, "            gamma_beta=gamma * beta,\n            ones=_OnesArray(n_events),", "            gamma_beta=gamma * beta,\n            ones=_OnesArray(1),"),
 "S7_boost_evaluate_b23": (LZ, "            b23=(gamma - 1) * beta_y * beta_z / beta_sq,", "            b23=(gamma - 1) * beta_y * beta_x / beta_sq,"),
 "S9_norm_axis": (LZ, "        return ArrayAxisSum(self.vector**2, axis=1)  # type: ignore[operator]", "        return ArrayAxisSum(self.vector**2, axis=0)  # type: ignore[operator]"),
 "S13_small_relative_error": (LZ, "            b00=gamma,", "            b00=gamma * (1 + sp.Float(1e-10)),"),
 "S18_einsum_4_only": (AE, "        letters = string.ascii_lowercase[8 : 8 + n_arrays]\n        contraction = \"\"", "        if n_arrays == 4:\n            return \"...ij,...kj,...kl,...l->...i\"\n        letters = string.ascii_lowercase[8 : 8 + n_arrays]\n        contraction = \"\""),
 "S19_negmom_identity": (LZ, "        eta = MinkowskiMetric(p)\n        return ArrayMultiplication(eta, p)", "        eta = MinkowskiMetric(p)\n        return ArrayMultiplication(eta, eta, p)"),
})
MUTS["E1_rotY_consistent_convention(expect drift, exit 0)"] = (LZ,
  ["            [0, sp.cos(angle), 0, sp.sin(angle)],\n            [0, 0, 1, 0],\n            [0, -sp.sin(angle), 0, sp.cos(angle)],",
   "                [{zeros}, {cos_angle}, {zeros}, {sin_angle}],\n                [{zeros}, {zeros}, {ones}, {zeros}],\n                [{zeros}, -{sin_angle}, {zeros}, {cos_angle}],"],
  ["            [0, sp.cos(angle), 0, -sp.sin(angle)],\n            [0, 0, 1, 0],\n            [0, sp.sin(angle), 0, sp.cos(angle)],",
   "                [{zeros}, {cos_angle}, {zeros}, -{sin_angle}],\n                [{zeros}, {zeros}, {ones}, {zeros}],\n                [{zeros}, {sin_angle}, {zeros}, {cos_angle}],"])
names = sys.argv[1:] or list(MUTS)
results = {}
for name in names:
    f, old, new = MUTS[name]
    subprocess.run(["git", "-C", WT, "checkout", "--", "."], check=True)
    path = os.path.join(WT, f)
    s = open(path).read()
    if name == "M9_revert_cse_false_fix":
        new_s = re.sub(r'        printer\.module_imports\[printer\._module\]\.add\("array"\)\n        _, b00, b01, b02, b03, b11, b12, b13, b22, b23, b33 = map\(\s*printer\._print, self\.args\s*\)',
                       "        _, b00, b01, b02, b03, b11, b12, b13, b22, b23, b33 = self.args", s)
        if new_s == s:
            new_s = re.sub(r'_, b00, b01, b02, b03, b11, b12, b13, b22, b23, b33 = map\(\s*printer\._print, self\.args\s*\)', "_, b00, b01, b02, b03, b11, b12, b13, b22, b23, b33 = self.args", s)
    elif isinstance(old, list):
        new_s = s
        for o, n_ in zip(old, new):
            assert new_s.count(o) == 1, (name, o)
            new_s = new_s.replace(o, n_)
    else:
        assert s.count(old) == 1, (name, s.count(old))
        new_s = s.replace(old, new)
    assert new_s != s, name
    open(path, "w").write(new_s)
    t = time.time()
    env = dict(os.environ, VERIF_REPO_SRC=WT + "/src")
    p = subprocess.run(["/verif/bin/vcheck", "C08", "--tier", "quick"], capture_output=True, text=True, env=env, cwd="/verif")
    out = p.stdout + p.stderr
    sigs = re.findall(r"signature: (.*)", out)
    drift = re.findall(r"SPEC-DRIFT: (.*)", out)
    mach = re.findall(r"MACHINERY-FAILURE.*", out)
    results[name] = dict(exit=p.returncode, sigs=sigs, drift=[d[:100] for d in drift], mach=[m[:300] for m in mach], wall=round(time.time() - t))
    print(name, json.dumps(results[name]), flush=True)
subprocess.run(["git", "-C", WT, "checkout", "--", "."], check=True)
json.dump(results, open("/verif/.scratch_c08/mut_results_final.json", "w"), indent=1)
