---------------------------- MODULE Amplitude_MC ----------------------------
(***************************************************************************)
(* A finite universe of reactions for Amplitude.tla, enumerated by TLC.    *)
(*                                                                         *)
(* A state is one reaction descriptor                                      *)
(*     r = [tree, spin, eta]                                               *)
(* over the final-state ids Leaves: an isobar tree (Topo!Trees), a spin    *)
(* (doubled, <= MaxSpin2) for every state of the tree - integer /          *)
(* half-integer consistent with the attached final states - and a parity   *)
(* prefactor eta in {-1, 0, 1} (0 = not given) for every decay node.  The  *)
(* reaction it denotes has the FULL helicity set: every assignment of      *)
(* projections with |l1 - l2| <= J at every node (Transitions(r)).         *)
(*                                                                         *)
(* TLC visits every descriptor (Init; the only step is stuttering) and     *)
(* evaluates in each the internal consistency of the term generator:       *)
(*   KeysSummed        every amplitude key is among the summed keys        *)
(*   ChainsPartition   the chains of all keys are exactly the transitions  *)
(*   PartnerSymmetric  the parity-partner relation is symmetric and the    *)
(*                     set of flipped nodes does not depend on the order   *)
(*   SignLawSatisfiable the required sign products compose: for partners   *)
(*                     a ~ b ~ c,  s(a,b) s(b,c) = s(a,c) - otherwise no   *)
(*                     assignment of signs could satisfy C03               *)
(*   DOnShell          every Wigner-D index respects |m| <= J              *)
(* The harness dumps the visited states (-dump) and formulates EVERY        *)
(* reaction of the universe with the real builder (props/c02.py, C01, C03): *)
(* exhaustive within these constants instead of sampled.                   *)
(***************************************************************************)
EXTENDS Amplitude

CONSTANTS MaxSpin2, LeafIds, EtaValues

EtaAll == {-1, 0, 1}       \* (the configuration file cannot write a negative number)
EtaGiven == {-1, 1}
VARIABLE r
TreesU == Trees(LeafIds)
RECURSIVE SumSpin(_, _)
SumSpin(sp, X) == IF X = {} THEN 0 ELSE LET i == CHOOSE x \in X : TRUE IN sp[{i}] + SumSpin(sp, X \ {i})
SpinAssignments(T) == { sp \in [T -> 0..MaxSpin2] : \A S \in T : sp[S] % 2 = SumSpin(sp, S) % 2 }
Universe == UNION { UNION { { [tree |-> T, spin |-> sp, eta |-> e] : e \in [Inner(T) -> EtaValues] } : sp \in SpinAssignments(T) } : T \in TreesU }

\* ---- the reaction a descriptor denotes ----------------------------------------------------------------
Range2(s2) == { m \in -s2..s2 : (s2 - m) % 2 = 0 }
HelAssignments(d) ==
  { h \in [d.tree -> -MaxSpin2..MaxSpin2] :
      /\ \A S \in d.tree : h[S] \in Range2(d.spin[S])
      /\ \A S \in Inner(d.tree) : LET c1 == HelChild(d.tree, S)  c2 == OppChild(d.tree, S) IN
                                    (h[c1] - h[c2]) \in Range2(d.spin[S]) }
\* names and edge ids are fixed by the final-state set: no string arithmetic in TLC
NameOf(d, S) == IF S = Root(d.tree) THEN "A"
                ELSE IF Cardinality(S) = 1 THEN (CASE S = {0} -> "f0" [] S = {1} -> "f1" [] S = {2} -> "f2" [] S = {3} -> "f3")
                ELSE CASE S = {0, 1} -> "R01" [] S = {0, 2} -> "R02" [] S = {1, 2} -> "R12" [] S = {0, 3} -> "R03" [] S = {1, 3} -> "R13"
                       [] S = {2, 3} -> "R23" [] S = {0, 1, 2} -> "R012" [] S = {0, 1, 3} -> "R013" [] S = {0, 2, 3} -> "R023" [] S = {1, 2, 3} -> "R123"
EidOf(d, S) == IF S = Root(d.tree) THEN -1 ELSE IF Cardinality(S) = 1 THEN CHOOSE i \in S : TRUE
               ELSE Cardinality(LeafIds) + Cardinality({ X \in Inner(d.tree) : X # Root(d.tree) /\ LexLess(X, S) })
TransitionOf(d, h) ==
  LET ss == SetToSeq(d.tree)  ns == SetToSeq(Inner(d.tree)) IN
  [edges |-> [ i \in DOMAIN ss |-> [set |-> SortedSeq(ss[i]), hel2 |-> h[ss[i]], spin2 |-> d.spin[ss[i]], part |-> NameOf(d, ss[i]),
                                     eid |-> EidOf(d, ss[i]), parity |-> 1] ],
   nodes |-> [ i \in DOMAIN ns |-> [parent |-> SortedSeq(ns[i]), L2 |-> NONE, S2 |-> NONE, eta |-> d.eta[ns[i]]] ]]
Transitions(d) == SetToSeq({ TransitionOf(d, h) : h \in HelAssignments(d) })

Init == r \in Universe
Next == UNCHANGED r
Spec == Init /\ [][Next]_r

\* ---- internal consistency of the term generator on every reaction of the universe ------------------------
Trs == Transitions(r)
KeysSummed == ExpectedKeys(Trs) \subseteq SummedKeys(Trs)
ChainsPartition ==
  LET all == UNION { ExpectedChains(Trs, k) : k \in ExpectedKeys(Trs) } IN
  /\ { c[1] : c \in all } = DOMAIN Trs
  /\ \A k1, k2 \in ExpectedKeys(Trs) : k1 # k2 => ExpectedChains(Trs, k1) \cap ExpectedChains(Trs, k2) = {}
PartnerSymmetric ==
  \A i, j \in DOMAIN Trs : PartnerChains(Trs[i], Trs[j]) =>
       PartnerChains(Trs[j], Trs[i]) /\ FlippedNodes(Trs[i], Trs[j]) = FlippedNodes(Trs[j], Trs[i])
Sgn(a, b) == ProdEta(a, FlippedNodes(a, b))
Constrained(a, b) == PartnerChains(a, b) /\ \A S \in FlippedNodes(a, b) : Eta(a, S) # 0
SignLawSatisfiable ==
  \A i, j, k \in DOMAIN Trs :
     (Constrained(Trs[i], Trs[j]) /\ Constrained(Trs[j], Trs[k]) /\ Constrained(Trs[i], Trs[k]))
        => Sgn(Trs[i], Trs[j]) * Sgn(Trs[j], Trs[k]) = Sgn(Trs[i], Trs[k])
DOnShell ==
  \A i \in DOMAIN Trs : \A S \in Inner(TreeOf(Trs[i])) :
     LET nd == NodeD(Trs[i], S) IN nd[2] \in Range2(nd[1]) /\ nd[3] \in Range2(nd[1])
NonEmpty == Len(Trs) > 0
\* hands every descriptor of the universe to the harness (which formulates the reaction with the real builder)
EmitDescriptor == PrintT(<<"DESC", r>>)
=============================================================================
