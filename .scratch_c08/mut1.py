# apply one mutation and run vcheck printing full output tail
import sys, os, subprocess, re
exec(open("/verif/.scratch_c08/mut.py").read().split("names = sys.argv[1:]")[0])
name = sys.argv[1]
f, old, new = MUTS[name]
subprocess.run(["git", "-C", WT, "checkout", "--", "."], check=True)
path = os.path.join(WT, f); s = open(path).read()
if name == "M9_revert_cse_false_fix":
    new_s = re.sub(r'        printer\.module_imports\[printer\._module\]\.add\("array"\)\n        _, b00, b01, b02, b03, b11, b12, b13, b22, b23, b33 = map\(\s*printer\._print, self\.args\s*\)', "        _, b00, b01, b02, b03, b11, b12, b13, b22, b23, b33 = self.args", s)
else:
    new_s = s.replace(old, new)
assert new_s != s
open(path, "w").write(new_s)
p = subprocess.run(["/verif/bin/vcheck", "C08", "--tier", "quick"], capture_output=True, text=True, env=dict(os.environ, VERIF_REPO_SRC=WT + "/src"), cwd="/verif")
print((p.stdout + p.stderr)[-int(sys.argv[2]) if len(sys.argv) > 2 else -2500:])
print("exit", p.returncode)
subprocess.run(["git", "-C", WT, "checkout", "--", "."], check=True)
