"""Topologies: enumeration of concrete qrules Topology objects (canonical, leaf-permuted,
intermediate-edge renumbered) and projection of the library's kinematic-variable
expressions to the abstract meanings of spec/Topo.tla: Dir(S, frame) and Mass(S)."""
from __future__ import annotations

import itertools
import re

import attrs
import sympy as sp


class ProjectionError(Exception):
    """The expression tree does not have the shape the specification knows (SPEC-DRIFT)."""


def attached(topology, eid) -> tuple[int, ...]:
    e = topology.edges[eid]
    if e.ending_node_id is None:
        return (eid,)
    out = []
    for k, ed in topology.edges.items():
        if ed.originating_node_id == e.ending_node_id:
            out += attached(topology, k)
    return tuple(sorted(out))


def tree_of(topology) -> list[list[int]]:
    return sorted({attached(topology, e) for e in topology.edges}, key=lambda s: (len(s), s))  # type: ignore[return-value]


def canonical(n):
    from qrules.topology import create_isobar_topologies

    return list(create_isobar_topologies(n))


def permute_leaves(topology, perm: dict[int, int]):
    return attrs.evolve(topology, edges={perm.get(i, i): e for i, e in topology.edges.items()})


def renumber_intermediate(topology, perm: dict[int, int]):
    return attrs.evolve(topology, edges={perm.get(i, i): e for i, e in topology.edges.items()})


def variants(topology, *, leaves=True, intermediates=True, limit=None, rng=None):
    """All objects isomorphic to `topology` obtained by permuting final-state ids and
    renumbering intermediate edges (what permutate_registered_topologies / relabelling do)."""
    fs = sorted(topology.outgoing_edge_ids)
    inter = sorted(topology.intermediate_edge_ids)
    lperms = list(itertools.permutations(fs)) if leaves else [tuple(fs)]
    iperms = list(itertools.permutations(inter)) if intermediates else [tuple(inter)]
    combos = [(lp, ip) for lp in lperms for ip in iperms]
    if limit is not None and len(combos) > limit and rng is not None:
        combos = [combos[0]] + rng.sample(combos[1:], limit - 1)
    seen = set()
    for lp, ip in combos:
        t = permute_leaves(topology, dict(zip(fs, lp)))
        t = renumber_intermediate(t, dict(zip(inter, ip)))
        if t in seen:
            continue
        seen.add(t)
        yield t


# ---- projection of expression trees --------------------------------------------------
def _cls(e):
    return type(e).__name__


def parse_momentum(x) -> tuple[frozenset, tuple]:
    """momentum expression -> (set of final-state ids, frame chain outermost first)."""
    name = _cls(x)
    if name in ("ArraySymbol", "FourMomentumSymbol") or (isinstance(x, sp.Basic) and name.endswith("Symbol") and not x.args[1:]):
        m = re.fullmatch(r"p(\d+)", str(x.args[0] if x.args else x))
        if not m:
            raise ProjectionError(f"momentum symbol {x}")
        return frozenset({int(m.group(1))}), ()
    if name == "ArraySum":
        parts = [parse_momentum(a) for a in x.args]
        frames = {f for _, f in parts}
        if len(frames) != 1:
            raise ProjectionError(f"ArraySum mixes frames: {frames}")
        ids = [i for s, _ in parts for i in s]
        if len(ids) != len(set(ids)):
            raise ProjectionError("ArraySum repeats a momentum")
        return frozenset(ids), frames.pop()
    if name == "ArrayMultiplication":
        if len(x.args) != 4:
            raise ProjectionError(f"ArrayMultiplication with {len(x.args)} factors")
        bz, ry, rz, p = x.args
        if (_cls(bz), _cls(ry), _cls(rz)) != ("BoostZMatrix", "RotationYMatrix", "RotationZMatrix"):
            raise ProjectionError(f"frame transformation is {[_cls(a) for a in x.args[:3]]}")
        th, ph = ry.args[0], rz.args[0]
        if not (th.could_extract_minus_sign() and ph.could_extract_minus_sign()):
            raise ProjectionError("helicity-frame rotation angles are not negated")
        th, ph = -th, -ph
        if _cls(th) != "Theta" or _cls(ph) != "Phi" or th.args[0] != ph.args[0]:
            raise ProjectionError("helicity-frame rotation is not Ry(-Theta(Q)) Rz(-Phi(Q))")
        q = th.args[0]
        beta = bz.args[0]
        num, den = beta.as_numer_denom()
        ok = (
            _cls(den) == "Energy" and den.args[0] == q and _cls(num) == "EuclideanNorm"
            and _cls(num.args[0]) == "ThreeMomentum" and num.args[0].args[0] == q
        )
        if not ok:
            raise ProjectionError(f"boost parameter is not |Q|/E(Q): {beta}")
        sq, fq = parse_momentum(q)
        spp, fp = parse_momentum(p)
        if fq != fp:
            raise ProjectionError("boosted momentum and boost momentum live in different frames")
        if not spp <= sq:
            raise ProjectionError("momentum boosted into the rest frame of a system it does not belong to")
        return spp, fp + (sq,)
    raise ProjectionError(f"unknown momentum node {name}")


def parse_name(symbol_name: str):
    """'phi_1^12,123' -> ('phi', [[1],[1,2],[1,2,3]])"""
    kind, _, body = symbol_name.partition("_")
    sub, _, sup = body.partition("^")
    groups = [sub] + (sup.split(",") if sup else [])
    return kind, [[int(c) for c in g] for g in groups]


def project_kinematics(exprs: dict) -> dict:
    """{symbol: expr} from compute_helicity_angles / compute_invariant_masses / an adapter
    -> {"angles": [{"kind","name","target","frame"}], "masses": [{"name","target"}]}"""
    angles, masses = [], []
    for sym, expr in exprs.items():
        kind, groups = parse_name(sym.name)
        if kind in ("phi", "theta"):
            want = "Phi" if kind == "phi" else "Theta"
            if _cls(expr) != want:
                raise ProjectionError(f"{sym} is defined by a {_cls(expr)}")
            s, frame = parse_momentum(expr.args[0])
            angles.append({"kind": kind, "name": groups, "target": sorted(s), "frame": [sorted(f) for f in reversed(frame)]})
        elif kind == "m":
            if _cls(expr) != "InvariantMass":
                raise ProjectionError(f"{sym} is defined by a {_cls(expr)}")
            s, frame = parse_momentum(expr.args[0])
            if frame:
                raise ProjectionError(f"{sym} is computed in a boosted frame")
            masses.append({"name": groups[0], "target": sorted(s)})
        else:
            raise ProjectionError(f"unknown kinematic variable {sym}")
    return {"angles": angles, "masses": masses}


# ---- the documented meaning, computed from the tree alone (python replica of Topo!DocAngle) ---------
def doc_angles(tree) -> dict:
    """{name groups (tuple of tuples): (target ids, frame chain innermost first)} per Topo.tla."""
    sets = [tuple(s) for s in tree]
    root = max(sets, key=len)

    def kids(S):
        sub = [c for c in sets if set(c) < set(S)]
        return sorted(c for c in sub if not any(set(c) < set(d) for d in sub))

    def parent(S):
        return min((p for p in sets if set(S) < set(p)), key=len)

    def chain(S):
        out = []
        cur = S
        while cur != root:
            cur = parent(cur)
            if cur != root:
                out.append(cur)
        return out

    out = {}
    for S in sets:
        if len(S) < 2:
            continue
        h, o = kids(S)  # sorted tuples: helicity child first (lexicographically smaller)
        name = (h, *chain(h))
        target = o if len(o) > 1 else h
        frame = [] if S == root else [S, *chain(S)]
        out[name] = (list(target), [list(f) for f in frame])
    return out


def parse_boost_momentum(x) -> tuple[frozenset, tuple]:
    """momentum in a chain of pure boosts: ArraySum/symbol, or ArrayMultiplication(BoostMatrix(Q), P)
    -> (set of final-state ids, chain of boosted-into systems, outermost first)."""
    name = _cls(x)
    if name == "ArrayMultiplication" and len(x.args) == 2 and _cls(x.args[0]) == "BoostMatrix":
        q = x.args[0].args[0]
        sq, fq = parse_boost_momentum(q)
        spp, fp = parse_boost_momentum(x.args[1])
        if fq != fp:
            raise ProjectionError("boost and boosted momentum live in different frames")
        return spp, fp + (sq,)
    if name == "ArrayMultiplication":
        raise ProjectionError("boost chain contains a non-boost transformation")
    return parse_momentum(x)


def project_boost_chain(boosts) -> list[dict]:
    """[BoostMatrix(...)...] from compute_boost_chain -> [{"system": ids, "frame": [[ids]...]}] (frame innermost first)."""
    out = []
    for b in boosts:
        if _cls(b) != "BoostMatrix":
            raise ProjectionError(f"boost chain element {_cls(b)}")
        s_, frame = parse_boost_momentum(b.args[0])
        out.append({"system": sorted(s_), "frame": [sorted(f) for f in reversed(frame)]})
    return out
