"""Synthetic reaction universe for C01/C02/C03/C05/C13 and the per-model trace record.

Reactions are hand-built ReactionInfo objects (synthetic particles with arbitrary spins)
on canonical and relabelled isobar topologies with 2..4 final states, in both formalisms,
with full / restricted / non-product helicity sets and independent parity prefactors per
node — the configurations real qrules reactions rarely produce and the tests never build."""
from __future__ import annotations

import itertools
import random

import sympy as sp

from . import ampl, topo

NONE = ampl.NONE


def _projections(spin2, massless=False):
    vals = list(range(-spin2, spin2 + 1, 2))
    if massless and spin2 > 0:
        vals = [v for v in vals if abs(v) == spin2]
    return vals


def _triangle(a2, b2, c2):
    return abs(a2 - b2) <= c2 <= a2 + b2 and (a2 + b2 + c2) % 2 == 0


def _balanced(t):
    """some node has two children that both decay further (e.g. (01)(23))"""
    fin = set(t.outgoing_edge_ids)
    for n in t.nodes:
        kids = [i for i, e in t.edges.items() if e.originating_node_id == n]
        if len(kids) == 2 and not (set(kids) & fin):
            return True
    return False


def synth_spec(rng: random.Random, *, nfs=None, formalism=None, helset=None, maxspin2=4, ntop=None, name_by=None, shape=None, identical=False):
    """One random synthetic reaction spec (see ampl.make_reaction).  With ntop = 2 the reaction has two
    decay topologies over the same final state; intermediate states are named after their attached
    final-state set, so the same resonance (sub-decay) can occur below different parents."""
    nfs = nfs or rng.choice([2, 3, 3, 3, 4])
    formalism = formalism or rng.choice(["helicity", "canonical-helicity"])
    helset = helset or rng.choice(["full", "full", "restricted", "nonproduct"])
    if ntop is None:
        ntop = 2 if (nfs >= 3 and rng.random() < 0.25) else 1
    pool = []
    for can in topo.canonical(nfs):
        if shape == "balanced" and not _balanced(can):
            continue
        pool += list(topo.variants(can, limit=12, rng=rng, intermediates=False))
    rng.shuffle(pool)
    tops, seen = [], set()
    for t in pool:
        key = tuple(map(tuple, topo.tree_of(t)))
        if key not in seen:
            seen.add(key)
            tops.append(t)
        if len(tops) == ntop:
            break
    top0 = tops[0]
    init = next(iter(top0.incoming_edge_ids))
    finals = sorted(top0.outgoing_edge_ids)
    parts = {}
    if name_by is None:
        name_by = "size" if (len(tops) > 1 and rng.random() < 0.5) else "set"
    # name_by = "size": a resonance is named after the NUMBER of final-state particles it decays to, so the same
    # resonance occurs in different subsystems of different topologies (rho0 in (12) and in (23)); bosons only
    half = rng.random() < 0.4 and name_by == "set"  # fermionic final states
    spins = {}  # keyed by attached final-state tuple
    for i in finals:
        if name_by == "size":
            spins[(i,)] = rng.choice([0, 0, 2])
            continue
        spins[(i,)] = rng.choice([1, 1, 3] if half and i == finals[-1] else ([1] if half and i == finals[-2] else [0, 0, 2, 2, 4 if maxspin2 >= 4 else 2]))
    # identical=True: two final-state ids carry the same particle (with spin): symmetrisation over particles with projections
    twin = None
    if identical and len(finals) >= 3:
        i, j = sorted(rng.sample(finals, 2))
        twin = (i, j)
        spins[(i,)] = spins[(j,)] = rng.choice([2, 2, 1])
    allsets = set()
    for t in tops:
        for e in t.edges:
            allsets.add(topo.attached(t, e))
    for S in sorted(allsets, key=len):
        if len(S) == 1:
            continue
        par = sum(spins[(i,)] for i in S) % 2
        if name_by == "size" and S != tuple(finals):
            by_size = spins.setdefault(("size", len(S)), rng.choice([x for x in range(0, maxspin2 + 2) if x % 2 == 0]))
            spins[S] = by_size
        else:
            spins[S] = rng.choice([x for x in range(0, maxspin2 + 2) if x % 2 == par])
    root = tuple(finals)
    massless = {i: (spins[(i,)] > 0 and rng.random() < 0.2) for i in finals}
    parts["A"] = {"spin2": spins[root], "parity": rng.choice([1, -1]), "mass": 3.1}
    for i in finals:
        parts[f"f{i}"] = {"spin2": spins[(i,)], "parity": rng.choice([1, -1]), "mass": 0.0 if massless[i] else rng.choice([0.14, 0.5, 0.94])}
    fname = {i: f"f{i}" for i in finals}
    if twin:
        fname[twin[1]] = fname[twin[0]]
        parts.pop(f"f{twin[1]}")
        massless[twin[1]] = massless[twin[0]]
    inter_sets = sorted(S for S in allsets if 1 < len(S) < len(root))
    nalt = {S: rng.choice([1, 1, 2]) for S in inter_sets}

    def rname(S, a):
        if name_by == "size":
            return f"R{len(S)}{'ab'[a]}"
        return f"R{''.join(map(str, S))}{'ab'[a]}"

    if name_by == "size":
        for S in inter_sets:
            nalt[S] = nalt[min(x for x in inter_sets if len(x) == len(S))]

    for S in inter_sets:
        for a in range(nalt[S]):
            parts[rname(S, a)] = {"spin2": spins[S], "parity": rng.choice([1, -1]), "mass": 1.2 + 0.1 * a}
    eta_by_set = {S: rng.choice([0, 0, 1, -1]) for S in allsets if len(S) > 1} if formalism == "helicity" else {S: 0 for S in allsets}

    transitions = []
    kill = None
    for top in tops:
        eids = sorted(top.edges)
        att = {e: topo.attached(top, e) for e in eids}
        inter = sorted(top.intermediate_edge_ids)
        node_edges = {}
        for n in top.nodes:
            pe = next(k for k, e in top.edges.items() if e.ending_node_id == n)
            ch = sorted(k for k, e in top.edges.items() if e.originating_node_id == n)
            node_edges[n] = (pe, ch)
        pools = {e: _projections(spins[att[e]], massless.get(e, False) if len(att[e]) == 1 else False) for e in eids}
        if helset == "restricted":
            pools[init] = [v for v in pools[init] if v != 0] or pools[init]
        combos = []
        for vals in itertools.product(*[pools[e] for e in eids]):
            h = dict(zip(eids, vals))
            if all(abs(h[ch[0]] - h[ch[1]]) <= spins[att[pe]] for pe, ch in node_edges.values()):
                combos.append(h)
        outer = [init] + finals
        if helset == "nonproduct" and len(combos) > 2:
            if kill is None:
                k0 = rng.choice(combos)
                kill = tuple(k0[e] for e in outer)
            combos = [h for h in combos if tuple(h[e] for e in outer) != kill]
        cap = 60 // len(tops)
        if len(combos) > cap:
            groups = {}
            for h in combos:
                groups.setdefault(tuple(h[e] for e in outer), []).append(h)
            keys = sorted(groups)
            random.Random(len(keys)).shuffle(keys)
            combos = []
            for k in keys:
                if len(combos) + len(groups[k]) > cap and combos:
                    break
                combos += groups[k]
        for h in combos:
            for alts in itertools.product(*[range(nalt[att[e]]) for e in inter]):
                names = {init: "A", **{i: fname[i] for i in finals}, **{e: rname(att[e], a) for e, a in zip(inter, alts)}}
                if formalism == "helicity":
                    nodes = {n: {"L2": NONE, "S2": NONE, "eta": eta_by_set[att[pe]]} for n, (pe, ch) in node_edges.items()}
                    transitions.append({"topology": top, "states": {e: [names[e], h[e]] for e in eids}, "nodes": nodes})
                else:
                    per_node = []
                    for n, (pe, ch) in node_edges.items():
                        ls = []
                        s1, s2, sp_ = spins[att[ch[0]]], spins[att[ch[1]]], spins[att[pe]]
                        for S2 in range(abs(s1 - s2), s1 + s2 + 1, 2):
                            for L2 in range(0, 6, 2):
                                if _triangle(L2, S2, sp_) and abs(h[ch[0]] - h[ch[1]]) <= S2:
                                    ls.append((n, L2, S2))
                        per_node.append(ls[:3])
                    if any(not x for x in per_node):
                        continue
                    for sel in itertools.islice(itertools.product(*per_node), 4):
                        nodes = {n: {"L2": L2, "S2": S2, "eta": 0} for n, L2, S2 in sel}
                        transitions.append({"topology": top, "states": {e: [names[e], h[e]] for e in eids}, "nodes": nodes})
    if not transitions or len(transitions) > 120:
        return None
    if len({id(t["topology"]) for t in transitions}) < len(tops):
        return None
    return {"formalism": formalism, "particles": parts, "transitions": transitions,
            "meta": {"nfs": nfs, "helset": helset, "tree": topo.tree_of(top0), "ntop": len(tops), "name_by": name_by, "twin": twin}}


def configure(builder, cfg: dict):
    """Apply a builder configuration dict (used by C01/C06/C13)."""
    from ampform.helicity.align.axisangle import AxisAngleAlignment
    from ampform.helicity.align.dpd import DalitzPlotDecomposition

    c = builder.config
    if "stable" in cfg:
        c.stable_final_state_ids = cfg["stable"]
    if "scalar_mass" in cfg:
        c.scalar_initial_state_mass = bool(cfg["scalar_mass"])
    if "couplings" in cfg:
        c.use_helicity_couplings = bool(cfg["couplings"])
    al = cfg.get("alignment")
    if al == "axis":
        c.spin_alignment = AxisAngleAlignment()
    elif al and al.startswith("dpd"):
        c.spin_alignment = DalitzPlotDecomposition(int(al[3]))
    for flag in ("insert_parent_helicities", "insert_child_helicities", "insert_ls_combinations"):
        if flag in cfg and hasattr(builder.naming, flag):
            setattr(builder.naming, flag, bool(cfg[flag]))
    if cfg.get("permutate"):
        builder.adapter.permutate_registered_topologies()
    dyn = cfg.get("dynamics")
    if dyn:
        from ampform.dynamics.builder import create_relativistic_breit_wigner, create_relativistic_breit_wigner_with_ff

        fn = {"bw": create_relativistic_breit_wigner, "bwff": create_relativistic_breit_wigner_with_ff}[dyn]
        names = {d.parent.particle.name for d in builder.dynamics if d.parent.id not in builder.reaction.transitions[0].topology.incoming_edge_ids}
        for n in sorted(names):
            builder.dynamics.assign(n, fn)


def used_amplitude_keys(intensity):
    """Amplitude symbols A^top[h...] the intensity sums over, from the folded PoolSum tree:
    every Indexed atom is instantiated over the pools of the enclosing summation indices
    (model.expression does the same by unfolding, which is far too slow for aligned models)."""
    from ampform.sympy import PoolSum

    keys, bad = [], []

    def walk(e, env):
        if isinstance(e, PoolSum):
            env2 = dict(env)
            for idx, vals in e.indices:
                env2[idx] = tuple(vals)
            walk(e.expression, env2)
            return
        if isinstance(e, sp.Indexed):
            # indices are numbers, summation symbols, or expressions of them (axis-angle: -lambda)
            syms = sorted({s for i in e.indices for s in i.free_symbols}, key=str)
            if any(s not in env for s in syms):
                bad.extend(str(s) for s in syms if s not in env)
                return
            for combo in itertools.product(*[env[s] for s in syms]):
                sub = dict(zip(syms, combo))
                k = _key_of_indexed(e.base[tuple(i.xreplace(sub) for i in e.indices)])
                if k is not None:
                    keys.append(k)
            return
        for a in e.args:
            walk(a, env)

    walk(intensity, {})
    uniq = []
    for k in keys:
        if k not in uniq:
            uniq.append(k)
    return uniq, bad


def closure_projection(model, cross_check=False) -> dict:
    """C01: symbol sets of a model.  free symbols of the full expression = free symbols of the
    intensity with the amplitude symbols removed + free symbols of the definitions of the
    amplitude symbols it sums over."""
    from ampform.sympy import PoolSum

    used, bad = used_amplitude_keys(model.intensity)
    defined = {}
    for a, expr in model.amplitudes.items():
        if _key_of_indexed(a) is not None:
            defined[str(_key_of_indexed(a))] = (a, expr)
    amp_atoms = {a: sp.Integer(1) for a in model.intensity.atoms(sp.Indexed) if str(a.base).startswith("A^")}
    free = set(model.intensity.xreplace(amp_atoms).free_symbols)
    for k in used:
        if str(k) in defined:
            free |= defined[str(k)][1].free_symbols
    free |= {sp.Symbol(b) for b in bad}  # an index symbol no summation binds stays free in the expression
    if cross_check:
        full = set(model.expression.free_symbols)
        # undefined amplitude symbols stay in the expression as Indexed + base label
        full_syms = {s for s in full if isinstance(s, sp.Symbol) and not s.name.startswith("A^")}
        if full_syms != {s for s in free if isinstance(s, sp.Symbol)}:
            raise RuntimeError(f"closure projection disagrees with model.expression.free_symbols: {full_syms ^ set(free)}")
    params = list(model.parameter_defaults)
    kin = list(model.kinematic_variables)
    pdef = dict(model.parameter_defaults)
    kin_deps = []
    for k, e in model.kinematic_variables.items():
        deps = e.xreplace(pdef).free_symbols
        kin_deps.append([ampl.sym_tag(k), sorted(ampl.sym_tag(s) for s in deps)])
    ids = sorted(model.reaction_info.final_state)
    momenta = [f"p{i}|" for i in ids]

    def tag(s):
        return ampl.sym_tag(s) if isinstance(s, sp.Symbol) else "NONSYMBOL:" + str(s)

    return {
        "free": sorted(tag(s) for s in free),
        "params": sorted(tag(s) for s in params),
        "kin": sorted(ampl.sym_tag(s) for s in kin),
        "kin_deps": kin_deps,
        "momenta": momenta,
        "used": used,
        "defined": [k for k in (_key_of_indexed(a) for a in model.amplitudes) if k is not None],
        "symbolic_defs": sum(1 for a in model.amplitudes if _key_of_indexed(a) is None),   # definitions whose indices are not numbers

        "unbound_index": len(bad),
    }


def _key_of_indexed(a):
    import re

    m = re.fullmatch(r"A\^(.*)", str(a.base))
    if not m:
        return None
    topid = [[int(c) for c in g] for g in m.group(1).split(",")] if m.group(1) else []
    try:
        hel2 = [int(2 * sp.Rational(i)) for i in a.indices]
    except TypeError:
        return None
    return [topid, hel2]


def model_record(rid, reaction, model, *, aligned=False, do_formula=True, do_parity=True, do_closure=True) -> dict:
    from ampform.helicity.naming import CanonicalAmplitudeNameGenerator, HelicityAmplitudeNameGenerator

    rec = {"id": rid, **ampl.abstract_reaction(reaction), "aligned": int(aligned),
           "do_formula": int(do_formula), "do_parity": int(do_parity), "do_closure": int(do_closure), "default_naming": 1}
    chains = []
    if do_formula or do_parity:
        gen = (CanonicalAmplitudeNameGenerator if rec["canonical"] else HelicityAmplitudeNameGenerator)(reaction)
        for tr in reaction.transitions:
            name = "A_{" + gen.generate_amplitude_name(tr) + "}"
            comp = model.components.get(name)
            if comp is None:
                chains.append({"found": 0})
                continue
            t = ampl.project_term(comp)
            chains.append({"found": 1, "sign_num": t["sign_num"], "sign_den": t["sign_den"], "D": t["D"], "CG": t["CG"], "coef": t["coef"], "ndyn": len(t["dyn"])})
        amps = []
        for a in ampl.project_amplitudes(model):
            amps.append({"top": a["top"], "hel2": a["hel2"], "zero": a["zero"], "terms": [{"sign_num": t["sign_num"], "sign_den": t["sign_den"], "D": t["D"], "CG": t["CG"], "coef": t["coef"]} for t in a["terms"]]})
        # the named chain components A_{...} add up to the amplitude they belong to (sign included); judged when no two final-state
        # particles are identical (symmetrisation variants share one component name)
        from ampform.helicity.naming import create_amplitude_symbol

        fs_names = [reaction.transitions[0].states[i].particle.name for i in reaction.transitions[0].topology.outgoing_edge_ids]
        by_symbol = {}
        for tr in reaction.transitions:
            by_symbol.setdefault(create_amplitude_symbol(tr), []).append(model.components.get("A_{" + gen.generate_amplitude_name(tr) + "}"))
        for a, (symbol, expr) in zip(amps, model.amplitudes.items()):
            comps = by_symbol.get(symbol)
            if len(set(fs_names)) < len(fs_names) or not comps or any(c is None for c in comps):
                a["comp_sum"] = -1
            else:
                total = sp.Add(*comps)
                a["comp_sum"] = int(total == expr or sp.expand(total - expr) == 0)
        rec["chains"], rec["amps"] = chains, amps
        # named intensity components I_{...}: |coherent sum over every chain with these outer projections|^2
        from ampform.helicity.naming import generate_transition_label

        icomps, seen = [], set()
        t0 = reaction.transitions[0]
        outer_ids = list(t0.topology.incoming_edge_ids) + sorted(t0.topology.outgoing_edge_ids)
        for tr in reaction.transitions:
            name = "I_{" + generate_transition_label(tr) + "}"
            if name in seen or name not in model.components:
                continue
            seen.add(name)
            expr = model.components[name]
            base = expr.args[0].args[0] if isinstance(expr, sp.Pow) and isinstance(expr.args[0], sp.Abs) else None
            if base is None:
                # sympy pulled factors out of Abs(...)**2: compare numerically with |sum of the amplitudes with these projections|^2
                hel = tuple(sp.Rational(tr.states[i].spin_projection) for i in outer_ids)
                total = sum(v for k, v in model.amplitudes.items() if tuple(k.indices) == hel)
                diff = expr - sp.Abs(total) ** 2
                rr = random.Random(len(icomps))
                vals = {s_: (sp.Float(rr.uniform(0.3, 2.5)) + (sp.I * sp.Float(rr.uniform(-1, 1)) if s_.name.startswith(("C_", "H_")) else 0)) for s_ in (expr.free_symbols | total.free_symbols if hasattr(total, "free_symbols") else expr.free_symbols)}
                try:
                    ok = diff == 0 or abs(complex(sp.N(diff.xreplace(vals).doit()))) < 1e-9 * max(1.0, abs(complex(sp.N(expr.xreplace(vals).doit()))))
                except Exception:  # noqa: BLE001
                    ok = False
                icomps.append({"hel2": [int(2 * h) for h in hel], "shape_ok": 0, "numeric_ok": int(ok), "terms": []})
                continue
            terms = [] if base == 0 else [ampl.project_term(t) for t in sp.Add.make_args(base)]
            icomps.append({"hel2": [int(2 * sp.Rational(tr.states[i].spin_projection)) for i in outer_ids], "shape_ok": 1, "numeric_ok": 1,
                           "terms": [{"D": t["D"], "CG": t["CG"]} for t in terms]})
        rec["icomps"] = icomps
    else:
        rec["chains"], rec["amps"] = [], []
        rec["icomps"] = []
    rec["closure"] = closure_projection(model, cross_check=(not aligned and len(reaction.transitions) <= 24)) if do_closure else {}
    return rec


# ---- reactions of the TLC-enumerated universe (spec/Amplitude_MC.tla) --------------------------------------------------
def descriptor_spec(desc: dict, formalism="helicity") -> dict | None:
    """The reaction a descriptor [tree, spin, eta] of Amplitude_MC denotes: the full helicity set over that tree
    (every assignment with |l1 - l2| <= J at every node), named and numbered as Amplitude_MC!NameOf / EidOf."""
    tree = sorted((tuple(sorted(S)) for S in desc["tree"]), key=lambda S: (len(S), S))
    spin = {tuple(sorted(S)): int(v) for S, v in desc["spin"].items()}
    eta = {tuple(sorted(S)): int(v) for S, v in desc["eta"].items()}
    root = max(tree, key=len)
    nfs = len(root)
    top = None
    for can in topo.canonical(nfs):
        for t in topo.variants(can, intermediates=False):
            if sorted(map(tuple, topo.tree_of(t)), key=lambda S: (len(S), S)) == tree:
                top = t
                break
        if top is not None:
            break
    if top is None:
        return None
    att = {e: tuple(topo.attached(top, e)) for e in top.edges}
    name = {S: "A" if S == root else (f"f{S[0]}" if len(S) == 1 else "R" + "".join(map(str, S))) for S in tree}
    parts = {name[S]: {"spin2": spin[S], "parity": 1, "mass": 3.1 if S == root else ([0.14, 0.5, 0.94, 0.3][S[0]] if len(S) == 1 else 1.2 + 0.1 * len(S))} for S in tree}
    node_edges = {}
    for n in top.nodes:
        pe = next(k for k, e in top.edges.items() if e.ending_node_id == n)
        ch = sorted((k for k, e in top.edges.items() if e.originating_node_id == n), key=lambda k: att[k])
        node_edges[n] = (pe, ch)   # ch[0] = helicity child (smaller attached tuple)
    eids = sorted(top.edges)
    pools = {e: list(range(-spin[att[e]], spin[att[e]] + 1, 2)) for e in eids}
    transitions = []
    for vals in itertools.product(*[pools[e] for e in eids]):
        h = dict(zip(eids, vals))
        if all(abs(h[ch[0]] - h[ch[1]]) <= spin[att[pe]] for pe, ch in node_edges.values()):
            if formalism == "helicity":
                transitions.append({"topology": top, "states": {e: [name[att[e]], h[e]] for e in eids},
                                    "nodes": {n: {"L2": NONE, "S2": NONE, "eta": eta[att[pe]]} for n, (pe, ch) in node_edges.items()}})
                continue
            # canonical basis: every (L, S) with S in |s1-s2|..s1+s2, |lambda| <= S, L even <= 4 and (L, S, J) a triangle, at every
            # node (the first two per node; no parity factor: the LS coefficients are independent)
            per_node = []
            for n, (pe, ch) in node_edges.items():
                s1, s2, J = spin[att[ch[0]]], spin[att[ch[1]]], spin[att[pe]]
                ls = [(n, L2, S2) for S2 in range(abs(s1 - s2), s1 + s2 + 1, 2) for L2 in (0, 2, 4)
                      if _triangle(L2, S2, J) and abs(h[ch[0]] - h[ch[1]]) <= S2]
                per_node.append(ls[:2])
            if any(not x for x in per_node):
                continue
            for sel in itertools.product(*per_node):
                transitions.append({"topology": top, "states": {e: [name[att[e]], h[e]] for e in eids},
                                    "nodes": {n: {"L2": L2, "S2": S2, "eta": 0} for n, L2, S2 in sel}})
    if not transitions:
        return None
    return {"formalism": formalism, "particles": parts, "transitions": transitions,
            "meta": {"nfs": nfs, "helset": "full", "tree": [list(S) for S in tree], "ntop": 1, "name_by": "set", "twin": None}}
