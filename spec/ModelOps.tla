------------------------------ MODULE ModelOps ------------------------------
(***************************************************************************)
(* A formulated HelicityModel as symbol-level state, and the operations a   *)
(* user performs on it after formulate(): rename_symbols, pickle round trip,*)
(* and reading / writing parameter_defaults (ParameterValues) by symbol, by *)
(* name and by position.                                           (C17)    *)
(*                                                                         *)
(* A symbol is a record [name, tag]; tag stands for the assumption set of   *)
(* the SymPy symbol, which is part of its identity: Symbol("x", real=True)  *)
(* and Symbol("x") are different symbols with the same name.               *)
(*                                                                         *)
(* A model M is a record                                                    *)
(*   intensity : set of symbols free in HelicityModel.intensity            *)
(*   amps      : amplitude key -> symbols of its definition                 *)
(*   comps     : component name -> symbols of the component                 *)
(*   expr      : free symbols of HelicityModel.expression                   *)
(*   pkeys, pvals : parameter_defaults as an ORDERED mapping (two sequences)*)
(*   kin       : kinematic-variable symbol -> symbols of its definition     *)
(*   p4        : the four-momentum symbols                                  *)
(*                                                                         *)
(* Two layers are kept apart:                                               *)
(*  - ImageOf(M, pairs): what the property says a renamed model IS (every   *)
(*    attribute is the image of the original under the symbol map built     *)
(*    from names; assumptions kept; dictionary keys of amplitudes and       *)
(*    components untouched);                                                *)
(*  - RenameImpl(M, pairs, dev): what rename_symbols DOES (collect symbols, *)
(*    build a Symbol->Symbol dictionary, xreplace each attribute, rebuild   *)
(*    the two symbol-keyed dictionaries with a dict comprehension).         *)
(* The laws below relate the two.  Dev selects named deviations:            *)
(*   "CollectExprKinOnly"  symbols are collected from expression and        *)
(*        kinematic variables only, so a parameter that occurs in neither   *)
(*        (m_0 of a model with stable_final_state_ids) cannot be renamed    *)
(*        -- the behaviour of ampform before /repo commit 31be39e, found    *)
(*        with this specification; kept as a deviation for sensitivity      *)
(*   "SequentialSubs", "DropAssumptions", "ComponentsNotRenamed",           *)
(*   "KinKeysNotRenamed", "AmplitudesNotRenamed", "MutateReceiver",         *)
(*   "IndexOffByOne", "SetByNameNext"   (sensitivity of the laws)           *)
(* With Dev = {} TLC establishes every law; with a deviation it produces    *)
(* the shortest history that breaks one.                                    *)
(*                                                                         *)
(* Behaviour that the property text leaves open and that is specified here  *)
(* as the code's observed behaviour:                                        *)
(*  - coupling two parameters with unequal defaults keeps the position of   *)
(*    the first and the VALUE OF THE LAST one in parameter order, silently  *)
(*    (dict comprehension) -- DictKeys / DictVals;                          *)
(*  - the empty map returns the receiver itself, not a copy (aliasing: a    *)
(*    later ParamSet through the result changes the original);              *)
(*  - names in the map that no collected symbol carries produce a warning   *)
(*    each and are otherwise ignored;                                       *)
(*  - ParameterValues: by name = first key in order whose str() is the      *)
(*    name; by index = position 0..len-1, negative or too large = KeyError. *)
(***************************************************************************)
EXTENDS Integers, Sequences, FiniteSets, TLC

CONSTANTS Model0,     \* the model the history starts from
          MapTable,   \* map id -> sequence of <<old name, new name>> (dict order)
          ExtraSyms,  \* symbols that are never parameters (lookups that must fail)
          ExtraNames, \* names that are never parameter names
          SetValues,  \* values offered to ParamSet
          MaxSteps,   \* bound on state-changing operations per history
          Dev

\* ---- symbols, name maps -------------------------------------------------
Sym(n, t) == [name |-> n, tag |-> t]
SeqSet(s) == {s[i] : i \in DOMAIN s}
Dom(pairs) == {pairs[i][1] : i \in DOMAIN pairs}
\* dict(renames): for a repeated old name the last pair counts
NewName(pairs, n) ==
  IF n \in Dom(pairs)
  THEN LET I == {i \in DOMAIN pairs : pairs[i][1] = n}
           i == CHOOSE i \in I : \A j \in I : j <= i
       IN pairs[i][2]
  ELSE n
RenSym(pairs, s) == Sym(NewName(pairs, s.name), s.tag)          \* assumptions kept
Img(pairs, S) == {RenSym(pairs, s) : s \in S}

\* ---- attributes of a model ------------------------------------------------
KinKeys(M) == DOMAIN M.kin
KinDefSyms(M) == UNION {M.kin[k] : k \in DOMAIN M.kin}
AmpSyms(M) == UNION {M.amps[k] : k \in DOMAIN M.amps}
CompSyms(M) == UNION {M.comps[k] : k \in DOMAIN M.comps}
Params(M) == SeqSet(M.pkeys)
ExprSyms(M) == M.intensity \cup AmpSyms(M)        \* amplitudes substituted into the intensity
AllSyms(M) == M.intensity \cup AmpSyms(M) \cup CompSyms(M) \cup M.expr \cup Params(M)
              \cup KinKeys(M) \cup KinDefSyms(M) \cup M.p4
Names(S) == {s.name : s \in S}

\* ---- C01 closure and its companions --------------------------------------
Closure(M) ==
  /\ M.expr \subseteq Params(M) \cup KinKeys(M)
  /\ Params(M) \cap KinKeys(M) = {}
  /\ \A k \in KinKeys(M) : M.kin[k] \ Params(M) \subseteq M.p4
ExprConsistent(M) == M.expr = ExprSyms(M) /\ CompSyms(M) \subseteq M.expr
NamesUnique(M) == LET A == AllSyms(M) IN Cardinality(Names(A)) = Cardinality(A)
\* names are unambiguous and a four-momentum is neither a parameter nor a kinematic variable
WellNamed(M) == NamesUnique(M) /\ M.p4 \cap (Params(M) \cup KinKeys(M)) = {}
ParamsWellFormed(M) ==
  /\ Len(M.pkeys) = Len(M.pvals)
  /\ \A i, j \in DOMAIN M.pkeys : M.pkeys[i] = M.pkeys[j] => i = j

\* ---- the ordered dictionary {f(k): v for k, v in items} -----------------
\* a key keeps the position of its first occurrence and the value of its last
DictKeys(nk) ==
  LET First == {i \in DOMAIN nk : \A j \in DOMAIN nk : j < i => nk[j] # nk[i]}
      Rank(i) == Cardinality({j \in First : j <= i})
  IN [r \in 1..Cardinality(First) |-> nk[CHOOSE i \in First : Rank(i) = r]]
DictVals(nk, vals) ==
  LET keys == DictKeys(nk)
      LastOf(k) == CHOOSE i \in DOMAIN nk : nk[i] = k /\ \A j \in DOMAIN nk : nk[j] = k => j <= i
  IN [r \in DOMAIN keys |-> vals[LastOf(keys[r])]]

\* ---- the property: the renamed model is the image of the original --------
KinInjective(M, pairs) ==
  \A k1, k2 \in KinKeys(M) : RenSym(pairs, k1) = RenSym(pairs, k2) => k1 = k2
ImageBy(M, R(_)) ==
  LET nk == [i \in DOMAIN M.pkeys |-> R(M.pkeys[i])]
      I(S) == {R(s) : s \in S}
  IN
  [ intensity |-> I(M.intensity),
    amps  |-> [k \in DOMAIN M.amps |-> I(M.amps[k])],          \* keys unchanged
    comps |-> [k \in DOMAIN M.comps |-> I(M.comps[k])],        \* keys unchanged
    expr  |-> I(M.expr),
    pkeys |-> DictKeys(nk),
    pvals |-> DictVals(nk, M.pvals),
    kin   |-> [k2 \in I(KinKeys(M)) |-> I(M.kin[CHOOSE k \in KinKeys(M) : R(k) = k2])],
    p4    |-> I(M.p4) ]
ImageOf(M, pairs) == ImageBy(M, LAMBDA s : RenSym(pairs, s))

\* a map is admissible for M when the only symbols it identifies (by name) are
\* parameters carrying the same assumptions, i.e. when it couples parameters and does
\* nothing else
Admissible(M, pairs) ==
  LET par == Params(M)
      nn == [n \in Names(AllSyms(M)) |-> NewName(pairs, n)]
  IN \A s, t \in AllSyms(M) :
       (s.name # t.name /\ nn[s.name] = nn[t.name]) => (s \in par /\ t \in par /\ s.tag = t.tag)

\* ---- what rename_symbols does ---------------------------------------------
Collected(M, dev) ==
  M.expr \cup KinKeys(M) \cup KinDefSyms(M)
  \cup (IF "CollectExprKinOnly" \in dev THEN {} ELSE AllSyms(M))
NewSym(pairs, s, dev) ==
  Sym(NewName(pairs, s.name), IF "DropAssumptions" \in dev THEN "none" ELSE s.tag)
\* the Symbol -> Symbol dictionary
SymMap(M, pairs, dev) ==
  [s \in Collected(M, dev) |-> IF s.name \in Dom(pairs) THEN NewSym(pairs, s, dev) ELSE s]
\* xreplace is simultaneous: every symbol is looked up once in the dictionary
XRep(sm, S) == {IF s \in DOMAIN sm THEN sm[s] ELSE s : s \in S}
\* deviation: one substitution after the other, in dictionary order
RECURSIVE SeqRep(_, _, _, _, _)
SeqRep(M, pairs, dev, i, S) ==
  IF i > Len(pairs) THEN S
  ELSE SeqRep(M, pairs, dev, i + 1,
              {IF s.name = pairs[i][1] /\ s \in Collected(M, dev)
               THEN Sym(pairs[i][2], IF "DropAssumptions" \in dev THEN "none" ELSE s.tag)
               ELSE s : s \in S})
Warned(M, pairs, dev) == {n \in Dom(pairs) : n \notin Names(Collected(M, dev))}

RenameImpl(M, pairs, dev) ==
  IF pairs = <<>> THEN M                                              \* "return self"
  ELSE
  LET sm == SymMap(M, pairs, dev)                                     \* built once, used for every attribute
      Rep(S) == IF "SequentialSubs" \in dev THEN SeqRep(M, pairs, dev, 1, S) ELSE XRep(sm, S)
      Rep1(x) == CHOOSE y \in Rep({x}) : TRUE
      nk == [i \in DOMAIN M.pkeys |-> Rep1(M.pkeys[i])]
      newI == Rep(M.intensity)
      newA == IF "AmplitudesNotRenamed" \in dev THEN M.amps
              ELSE [k \in DOMAIN M.amps |-> Rep(M.amps[k])]
      KK == [k \in KinKeys(M) |-> IF "KinKeysNotRenamed" \in dev THEN k ELSE Rep1(k)]
  IN
  [ intensity |-> newI,
    amps  |-> newA,
    comps |-> IF "ComponentsNotRenamed" \in dev THEN M.comps
              ELSE [k \in DOMAIN M.comps |-> Rep(M.comps[k])],
    expr  |-> newI \cup UNION {newA[k] : k \in DOMAIN newA},          \* .expression is derived
    pkeys |-> DictKeys(nk),
    pvals |-> DictVals(nk, M.pvals),
    kin   |-> [k2 \in {KK[k] : k \in KinKeys(M)} |->
                 Rep(M.kin[CHOOSE k \in KinKeys(M) : KK[k] = k2])],
    p4    |-> Rep(M.p4) ]

\* ---- ParameterValues --------------------------------------------------------
Kinds == {"symbol", "name", "index"}
KeyError == [ok |-> FALSE, val |-> 0]
Value(v) == [ok |-> TRUE, val |-> v]
\* position (1-based) of the parameter a key denotes, 0 = KeyError
Resolve(M, kind, key, dev) ==
  LET n == Len(M.pkeys) IN
  CASE kind = "symbol" ->
         IF \E i \in 1..n : M.pkeys[i] = key THEN CHOOSE i \in 1..n : M.pkeys[i] = key ELSE 0
    [] kind = "name" ->
         LET I == {i \in 1..n : M.pkeys[i].name = key} IN
         IF I = {} THEN 0 ELSE CHOOSE i \in I : \A j \in I : i <= j
    [] kind = "index" ->
         LET k == IF "IndexOffByOne" \in dev THEN key ELSE key + 1 IN
         IF k >= 1 /\ k <= n THEN k ELSE 0
ResolveSet(M, kind, key, dev) ==
  LET i == Resolve(M, kind, key, dev) IN
  IF "SetByNameNext" \in dev /\ kind = "name" /\ i # 0 /\ i < Len(M.pkeys) THEN i + 1 ELSE i
KeysOf(M, kind) ==
  CASE kind = "symbol" -> Params(M) \cup ExtraSyms
    [] kind = "name"   -> Names(Params(M)) \cup ExtraNames
    [] kind = "index"  -> (0 - 1)..Len(M.pkeys)
Offered(M, a) == a[2] \in KeysOf(M, a[1])
\* the three views of the mapping agree
ViewsAgree(M) ==
  \A i \in DOMAIN M.pkeys :
    /\ Resolve(M, "symbol", M.pkeys[i], Dev) = i
    /\ Resolve(M, "index", i - 1, Dev) = i
    /\ LET j == Resolve(M, "name", M.pkeys[i].name, Dev) IN
       j # 0 /\ j <= i /\ (j < i => M.pkeys[j] # M.pkeys[i] /\ M.pkeys[j].name = M.pkeys[i].name)

\* ---- the state machine --------------------------------------------------------
VARIABLES orig,      \* parameter_defaults [pkeys, pvals] of the original model object as it is now
                     \*   (its other attributes cannot be written through any operation modelled here;
                     \*   that a rename leaves its receiver alone is recorded in last.recvSame)
          cur,       \* the model object the user currently holds
          aliased,   \* cur IS orig (same object), not a copy
          adm,       \* every rename so far was admissible for the model it was applied to
          last,      \* last operation: [op, mid (map id / key kind), idx (position the key of a
                     \*   ParamGet/ParamSet denotes, 0 = none), warned (names warned about),
                     \*   recvSame (the receiver object is afterwards what it was before)]
          result,    \* result of the last ParamGet / ParamSet
          steps
vars == <<orig, cur, aliased, adm, last, result, steps>>

Op(op, mid, idx, warned, same) == [op |-> op, mid |-> mid, idx |-> idx, warned |-> warned, recvSame |-> same]
NoResult == [ok |-> TRUE, val |-> 0]

ParOf(M) == [pkeys |-> M.pkeys, pvals |-> M.pvals]
Init == /\ orig = ParOf(Model0) /\ cur = Model0 /\ aliased = TRUE /\ adm = TRUE
        /\ last = Op("Init", "-", 0, {}, TRUE) /\ result = NoResult /\ steps = 0

Rename(mid) ==
  LET pairs == MapTable[mid]
      new == RenameImpl(cur, pairs, Dev)
      mut == "MutateReceiver" \in Dev /\ pairs # <<>> /\ new.pkeys # cur.pkeys
  IN
  /\ steps < MaxSteps
  /\ KinInjective(cur, pairs)
  /\ cur' = new
  /\ aliased' = (aliased /\ pairs = <<>>)                       \* the empty map returns self
  /\ orig' = IF aliased /\ mut THEN [orig EXCEPT !.pkeys = new.pkeys, !.pvals = new.pvals] ELSE orig
  /\ adm' = (adm /\ Admissible(cur, pairs))
  /\ last' = Op("Rename", mid, 0, Warned(cur, pairs, Dev), ~mut)
  /\ result' = NoResult
  /\ steps' = steps + 1

PickleRoundTrip ==
  /\ last' = Op("Pickle", "-", 0, {}, TRUE)
  /\ aliased' = FALSE            \* loads(dumps(m)) is a new object equal to m
  /\ UNCHANGED <<orig, cur, adm, steps>>
  /\ result' = NoResult

\* a = <<kind, key>>
ParamGet(a) ==
  LET kind == a[1]
      key == a[2]
      i == Resolve(cur, kind, key, Dev) IN
  /\ Offered(cur, a)
  /\ result' = IF i = 0 THEN KeyError ELSE Value(cur.pvals[i])
  /\ last' = Op("ParamGet", kind, Resolve(cur, kind, key, {}), {}, TRUE)
  /\ UNCHANGED <<orig, cur, aliased, adm, steps>>

\* a = <<kind, key, value>>
ParamSet(a) ==
  LET kind == a[1]
      key == a[2]
      v == a[3]
      i == ResolveSet(cur, kind, key, Dev) IN
  /\ Offered(cur, a)
  /\ steps < MaxSteps
  /\ result' = IF i = 0 THEN KeyError ELSE Value(v)
  /\ cur' = IF i = 0 THEN cur ELSE [cur EXCEPT !.pvals[i] = v]
  /\ orig' = IF i # 0 /\ aliased THEN [orig EXCEPT !.pvals[i] = v] ELSE orig
  /\ last' = Op("ParamSet", kind, Resolve(cur, kind, key, {}), {}, i = 0)
  /\ steps' = steps + 1
  /\ UNCHANGED <<aliased, adm>>

\* The argument universes are constant-level sets so that TLC splits Next into one action
\* per argument (its -simulate / -dump output then names the action together with its
\* argument); which arguments are offered in a state is the guard a \in GetArgs(cur).
NameUniverse == Names(AllSyms(Model0)) \cup Names(ExtraSyms) \cup ExtraNames
                \cup UNION {{MapTable[m][i][2] : i \in DOMAIN MapTable[m]} : m \in DOMAIN MapTable}
TagUniverse == {s.tag : s \in AllSyms(Model0) \cup ExtraSyms} \cup {"none"}
KeyUniverse(kind) ==
  CASE kind = "symbol" -> {Sym(n, t) : n \in NameUniverse, t \in TagUniverse}
    [] kind = "name"   -> NameUniverse
    [] kind = "index"  -> (0 - 1)..Len(Model0.pkeys)
GetUniverse == UNION {{<<kind, key>> : key \in KeyUniverse(kind)} : kind \in Kinds}
SetUniverse == UNION {{<<kind, key, v>> : key \in KeyUniverse(kind), v \in SetValues} : kind \in Kinds}
Next ==
  \/ \E mid \in DOMAIN MapTable : Rename(mid)
  \/ PickleRoundTrip
  \/ \E a \in GetUniverse : ParamGet(a)
  \/ \E a \in SetUniverse : ParamSet(a)
NextRename == \E mid \in DOMAIN MapTable : Rename(mid)

Spec == Init /\ [][Next]_vars
SpecRename == Init /\ [][NextRename]_vars

\* ---- laws: state invariants -----------------------------------------------------
TypeOK ==
  /\ ParamsWellFormed(cur) /\ ParamsWellFormed(orig)
  /\ DOMAIN cur.amps = DOMAIN Model0.amps /\ DOMAIN cur.comps = DOMAIN Model0.comps
  /\ steps \in 0..MaxSteps
ClosureInv == adm => (Closure(cur) /\ WellNamed(cur))        \* C01 survives admissible maps
ConsistentInv == ExprConsistent(cur)                         \* attributes stay mutually consistent
ViewsAgreeInv == ViewsAgree(cur)
AliasInv == aliased => orig = ParOf(cur)
\* renaming back gives the model back; two renames compose to the rename by the composed
\* name map (evaluated in every reachable state for every map / pair of maps of the alphabet)
InvertibleOn(M, pairs) ==
  /\ KinInjective(M, pairs)
  /\ \A s, t \in AllSyms(M) : NewName(pairs, s.name) = NewName(pairs, t.name) => s.name = t.name
  /\ \A i, j \in DOMAIN pairs : pairs[i][1] = pairs[j][1] => i = j
  /\ Dom(pairs) \subseteq Names(AllSyms(M))
Inverse(pairs) == [i \in DOMAIN pairs |-> <<pairs[i][2], pairs[i][1]>>]
RenameBackInv ==
  \A mid \in DOMAIN MapTable :
    LET pairs == MapTable[mid] IN
    InvertibleOn(cur, pairs) => ImageOf(ImageOf(cur, pairs), Inverse(pairs)) = cur
ComposeInv ==
  \A m1, m2 \in DOMAIN MapTable :
    LET p1 == MapTable[m1]
        p2 == MapTable[m2]
        mid == ImageOf(cur, p1)
    IN (KinInjective(cur, p1) /\ KinInjective(mid, p2))
       => ImageOf(mid, p2) = ImageBy(cur, LAMBDA s : RenSym(p2, RenSym(p1, s)))

\* ---- laws as predicates over (receiver, result, map): shared with Trace_ModelOps ------
\* every attribute of the renamed model is the image of the receiver's under the symbol map
\* built from names
LawImage(pre, post, pairs) == post = ImageOf(pre, pairs)
\* assumptions kept: every symbol afterwards is the renaming of a symbol with the same tag
LawAssumptions(pre, post, pairs) ==
  LET img == {<<NewName(pairs, t.name), t.tag>> : t \in AllSyms(pre)}
  IN \A s \in AllSyms(post) : <<s.name, s.tag>> \in img
\* unrelated symbols untouched: symbols, the amplitude they occur in, parameter and value
LawUnrelated(pre, post, pairs) ==
  LET after == AllSyms(post)
      dom == Dom(pairs)
  IN /\ \A s \in AllSyms(pre) : s.name \notin dom => s \in after
     /\ DOMAIN post.amps = DOMAIN pre.amps /\ DOMAIN post.comps = DOMAIN pre.comps
     /\ \A a \in DOMAIN pre.amps : \A s \in pre.amps[a] : s.name \notin dom => s \in post.amps[a]
     /\ \A i \in DOMAIN pre.pkeys :
          (\A j \in DOMAIN pre.pkeys : RenSym(pairs, pre.pkeys[j]) = RenSym(pairs, pre.pkeys[i]) => j = i)
            => \E k \in DOMAIN post.pkeys : post.pkeys[k] = RenSym(pairs, pre.pkeys[i]) /\ post.pvals[k] = pre.pvals[i]
\* only coupling: symbols are identified iff they get the same name and carry the same
\* assumptions, nothing else is; a coupled parameter takes the value of one of its originals
LawCoupling(pre, post, pairs) ==
  /\ Len(post.pkeys) = Cardinality(Img(pairs, Params(pre)))
  /\ Cardinality(AllSyms(post)) = Cardinality(Img(pairs, AllSyms(pre)))
  /\ Len(post.pkeys) = Len(post.pvals)
  /\ \A i \in DOMAIN post.pkeys :
       post.pvals[i] \in {pre.pvals[j] : j \in {j \in DOMAIN pre.pkeys : RenSym(pairs, pre.pkeys[j]) = post.pkeys[i]}}
\* admissibility is exactly what keeps the model closed (C01) and its names unambiguous
LawAdmissible(pre, post, pairs) ==
  (Closure(pre) /\ WellNamed(pre)) => ((Closure(post) /\ WellNamed(post)) <=> Admissible(pre, pairs))
\* a warning for exactly the names no symbol of the model carries
LawWarned(pre, pairs, warned) == warned = {n \in Dom(pairs) : n \notin Names(AllSyms(pre))}
\* ParameterValues: a read returns the value at the position the key denotes, KeyError if it
\* denotes none; a write changes that one value, never keys or order
LawGet(pre, idx, res) == res = IF idx = 0 THEN KeyError ELSE Value(pre.pvals[idx])
LawSet(pre, post, idx, res) ==
  /\ post.pkeys = pre.pkeys
  /\ [post EXCEPT !.pvals = pre.pvals] = pre
  /\ IF idx = 0 THEN res = KeyError /\ post = pre
     ELSE /\ res.ok /\ post.pvals[idx] = res.val
          /\ \A i \in DOMAIN pre.pvals : i # idx => post.pvals[i] = pre.pvals[i]

\* ---- laws: action properties, evaluated on every step <<state, state'>> ------------
IsRename == last'.op = "Rename"
Pairs == MapTable[last'.mid]
RenameIsImageA == IsRename => LawImage(cur, cur', Pairs)
AssumptionsKeptA == IsRename => LawAssumptions(cur, cur', Pairs)
UnrelatedUntouchedA == IsRename => LawUnrelated(cur, cur', Pairs)
OnlyCouplingA == IsRename => LawCoupling(cur, cur', Pairs)
AdmissibleExactA == IsRename => LawAdmissible(cur, cur', Pairs)
WarnsExactlyA == IsRename => LawWarned(cur, Pairs, last'.warned)
\* the receiver of a rename is not modified; the original changes only through a ParamSet on
\* an object that IS the original; reads and pickling change nothing
OriginalUnchangedA ==
  /\ IsRename => last'.recvSame
  /\ (orig' # orig) => (aliased /\ last'.op = "ParamSet")
  /\ last'.op \in {"Pickle", "ParamGet"} => (cur' = cur /\ orig' = orig)
ParamGetA == last'.op = "ParamGet" => LawGet(cur, last'.idx, result')
ParamSetA == last'.op = "ParamSet" => LawSet(cur, cur', last'.idx, result')

RenameIsImage == [][RenameIsImageA]_vars
AssumptionsKept == [][AssumptionsKeptA]_vars
UnrelatedUntouched == [][UnrelatedUntouchedA]_vars
OnlyCoupling == [][OnlyCouplingA]_vars
AdmissibleExact == [][AdmissibleExactA]_vars
WarnsExactly == [][WarnsExactlyA]_vars
OriginalUnchanged == [][OriginalUnchangedA]_vars
ParamGetLaw == [][ParamGetA]_vars
ParamSetLaw == [][ParamSetA]_vars
=============================================================================
