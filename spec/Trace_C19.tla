--------------------------- MODULE Trace_C19 ---------------------------
(* C19, code -> specification.

   Record 1 ("table") is the projection of the case tables of formulate_zeta_angle (64 index triples),
   formulate_theta_hat_angle and formulate_scattering_angle (16 index pairs each): for every entry
   kind ("raise" / "zero" / "acos" / "other"), outer sign sg and a formula id fid; entries with the same
   fid returned structurally the same arccos argument.

   "pt" records carry, for one physical lattice point (squared masses M, pair masses S, and for events
   the three integer four-vectors P), the exact integer values <<N, K1, K2>> of numerator and the two
   Kallen factors of every formula:  arccos argument = N / sqrt(K1 K2).  The specification computes
   its own Kallen factors, the Gram-determinant cosines of the geometric definitions and the case
   tables (PhaseSpace3) and evaluates the clauses of the property in sign-and-square form.

   "obs" records are the small floating-point observation family: the angles themselves, quantised
   (Q units per radian), from the implementation (z, h, t) and from four-momenta by boosts (gh, gt);
   TLC only evaluates the laws on them with a tolerance.  UNDEF marks "raises / not a real number".

   Clause classes (see props/c19.py): "Harness*" machinery; "*Shape" / "*Value" implementation-shaped
   (adjudicated on the observation family before anything is reported); the rest are the property's
   clauses.                                                                                      *)
EXTENDS PhaseSpace3, Json, IOUtils, TLC

Log == ndJsonDeserialize(IOEnv.TRACE_FILE)
VARIABLES l, cnt
Rec == Log[l]
Tab == Log[1]

Clause(name, ok, info) == IF ok THEN TRUE ELSE PrintT(<<"REJECT", name, Rec.id, info>>)

ZE(i, j, k) == Tab.zeta[16 * i + 4 * j + k + 1]
HE(i, j) == Tab.hat[4 * i + j + 1]
SE(i, j) == Tab.scat[4 * i + j + 1]
Pairs == { <<i, j>> \in (1..3) \X (1..3) : i # j }
Perms == { <<i, j, k>> \in (1..3) \X (1..3) \X (1..3) : i # j /\ j # k /\ i # k }

Counters == {"pt", "pt_event", "pt_lattice", "pt_boundary", "pt_adjacent", "pt_massless", "pt_equalmass",
             "pt_degenerate_formula", "sumrule_instances", "arg_checked", "hat_geom", "scat_geom", "obs"}
Add(c, name, n) == [c EXCEPT ![name] = @ + n]

\* ---- the case tables ------------------------------------------------------------------------
TableStep ==
  /\ Clause("HarnessTableOrder",
            /\ Len(Tab.zeta) = 64 /\ Len(Tab.hat) = 16 /\ Len(Tab.scat) = 16
            /\ \A i \in Ids, j \in Ids, k \in Ids : ZE(i, j, k).t = <<i, j, k>>
            /\ \A i \in Ids, j \in Ids : HE(i, j).t = <<i, j>> /\ SE(i, j).t = <<i, j>>, "order")
  \* which triples raise / are zero
  /\ LET bad == { t \in Ids \X Ids \X Ids : (ZE(t[1], t[2], t[3]).kind = "raise") # ZRaises(t[1], t[2], t[3]) } IN
     Clause("ZetaRaises", bad = {}, bad)
  /\ LET bad == { t \in Ids \X Ids \X Ids : ZZero(t[1], t[2], t[3]) /\ ZE(t[1], t[2], t[3]).kind \notin {"zero", "raise"} } IN
     Clause("ZetaZeroShape", bad = {}, bad)
  /\ LET bad == { t \in Ids \X Ids \X Ids : ~ZRaises(t[1], t[2], t[3]) /\ ~ZZero(t[1], t[2], t[3])
                                          /\ ZE(t[1], t[2], t[3]).kind \notin {"acos", "raise"} } IN
     Clause("ZetaProjectionShape", bad = {}, bad)
  \* "equals minus another": opposite outer signs for (i,j,k) and (i,k,j); zeta^i_{k(0)} has the sign of zeta^i_{k(i)}
  /\ LET bad == { t \in Ids \X (1..3) \X (1..3) :
                    LET a == ZE(t[1], t[2], t[3])  b == ZE(t[1], t[3], t[2]) IN
                    t[2] # t[3] /\ a.kind = "acos" /\ b.kind = "acos" /\ a.sg # -b.sg } IN
     Clause("ZetaAntisymTable", bad = {}, bad)
  /\ LET bad == { t \in (1..3) \X (1..3) :
                    LET a == ZE(t[1], t[2], 0)  b == ZE(t[1], t[2], t[1]) IN
                    a.kind # b.kind \/ (a.kind = "acos" /\ a.sg # b.sg) } IN
     Clause("ZetaRef0Table", bad = {}, bad)
  \* absolute sign convention of zeta^i (i # 0): not fixed by the property text
  /\ LET bad == { t \in (1..3) \X (1..3) \X Ids :
                    LET a == ZE(t[1], t[2], t[3]) IN a.kind = "acos" /\ a.sg # ZSign(t[1], t[2], t[3]) } IN
     Clause("ZetaSignValue", bad = {}, bad)
  \* theta-hat: raises / zero for equal indices / + for cyclic pairs, - for the exchanged ones
  /\ LET bad == { t \in Ids \X Ids : (HE(t[1], t[2]).kind = "raise") # HatRaises(t[1], t[2]) } IN
     Clause("HatRaises", bad = {}, bad)
  /\ LET bad == { t \in Ids \X Ids : HatZero(t[1], t[2]) /\ HE(t[1], t[2]).kind # "zero" } IN
     Clause("HatZeroShape", bad = {}, bad)
  /\ LET bad == { t \in Pairs : HE(t[1], t[2]).kind = "acos" /\ HE(t[1], t[2]).sg # HatSign(t[1], t[2]) } IN
     Clause("HatSign", bad = {}, bad)
  /\ LET bad == { t \in Pairs : HE(t[1], t[2]).kind \notin {"acos"} } IN
     Clause("HatProjectionShape", bad = {}, bad)
  /\ LET bad == { t \in Pairs : LET a == ZE(0, t[1], t[2])  h == HE(t[1], t[2]) IN a.kind # h.kind \/ a.sg # h.sg \/ a.fid # h.fid } IN
     Clause("ZetaHatValue", bad = {}, bad)
  \* theta_ij: defined for the six ordered pairs (the guarded three may raise NotImplementedError)
  /\ LET bad == { t \in Ids \X Ids : ScatRaises(t[1], t[2]) /\ SE(t[1], t[2]).kind # "raise" } IN
     Clause("ScatRaises", bad = {}, bad)
  /\ LET bad == { t \in Pairs : SE(t[1], t[2]).kind = "raise" /\ ~(ScatGuarded(t[1], t[2]) /\ SE(t[1], t[2]).exc = "NotImplementedError") } IN
     Clause("ScatTable", bad = {}, bad)
  /\ LET bad == { t \in Pairs : SE(t[1], t[2]).kind \notin {"acos", "raise"} } IN
     Clause("ScatProjectionShape", bad = {}, bad)
  /\ LET g == { t \in Pairs : SE(t[1], t[2]).kind = "raise" } IN IF g = {} THEN TRUE ELSE PrintT(<<"STAT", "scat_guard_fires", Cardinality(g)>>)
  /\ UNCHANGED cnt

\* ---- exact lattice points -----------------------------------------------------------------------
V(e) == Rec.vals[e.fid]
RangeOK(v) == Abs(v[1]) <= MaxNum /\ 0 <= v[2] /\ v[2] <= MaxNum /\ 0 <= v[3] /\ v[3] <= MaxNum
Defd(v) == v[2] > 0 /\ v[3] > 0
ArgOK(v) == v[1] * v[1] <= v[2] * v[3]
\* the entry has a value at this point that the sign-and-square laws can use
Usable(e) == e.kind = "zero" \/ (e.kind = "acos" /\ RangeOK(V(e)) /\ Defd(V(e)) /\ ArgOK(V(e)))
RawCos(e) == Cos(V(e)[1], V(e)[2] * V(e)[3])
EAng(e) == IF e.kind = "zero" THEN AngZero ELSE Ang(e.sg, RawCos(e))
SameBag(a, b) == (a[1] = b[1] /\ a[2] = b[2]) \/ (a[1] = b[2] /\ a[2] = b[1])
Ks(e) == <<V(e)[2], V(e)[3]>>

\* X = Y + Z for angles in [0, pi] given by <<N, K1, K2>>: find the common Kallen factor of Y and Z
SumShape(x, y, z) ==
  { a \in (2..3) \X (2..3) :                 \* positions: y[a1] = z[a2] = k0; x = {other(y), other(z)}
      /\ y[a[1]] = z[a[2]]
      /\ SameBag(<<x[2], x[3]>>, <<y[5 - a[1]], z[5 - a[2]]>>) }
SumLaw(x, y, z) ==
  LET a == CHOOSE a \in SumShape(x, y, z) : TRUE IN
  AdditionTheorem(x[1], y[1], z[1], y[a[1]], y[5 - a[1]], z[5 - a[2]])
\* sa*A = sb*B + sc*C with A, B, C in [0, pi]
SignedSumShape(ea, eb, ec) ==
  IF ea.sg = eb.sg /\ ea.sg = ec.sg THEN SumShape(V(ea), V(eb), V(ec)) # {}
  ELSE IF ea.sg # eb.sg /\ ea.sg = ec.sg THEN SumShape(V(ec), V(ea), V(eb)) # {}
  ELSE IF ea.sg = eb.sg /\ ea.sg # ec.sg THEN SumShape(V(eb), V(ea), V(ec)) # {}
  ELSE TRUE
SignedSumLaw(ea, eb, ec) ==
  IF ea.sg = eb.sg /\ ea.sg = ec.sg THEN SumLaw(V(ea), V(eb), V(ec))                   \* A = B + C
  ELSE IF ea.sg # eb.sg /\ ea.sg = ec.sg THEN SumLaw(V(ec), V(ea), V(eb))              \* C = A + B
  ELSE IF ea.sg = eb.sg /\ ea.sg # ec.sg THEN SumLaw(V(eb), V(ea), V(ec))              \* B = A + C
  ELSE RawCos(ea) = CosOne /\ RawCos(eb) = CosOne /\ RawCos(ec) = CosOne              \* A + B + C = 0

PtStep ==
  LET M == Rec.M  S == Rec.S  P == Rec.P
      isEv == Len(P) = 3
      kib == Kibble(S[1], S[2], S[3], M)
      acosZ == { t \in Ids \X Ids \X Ids : ZE(t[1], t[2], t[3]).kind = "acos" }
      acosH == { t \in Pairs : HE(t[1], t[2]).kind = "acos" }
      acosS == { t \in Pairs : SE(t[1], t[2]).kind = "acos" }
      fids == 1..Len(Rec.vals)
      oracleKsZ(t) == LET r == ZResolve(t[1], t[2], t[3]) IN
                      IF t[1] = 0 THEN HatKs(r[2], r[3], M, S) ELSE ZetaKs(r[1], r[2], r[3], M, S)
      shapeZ(t) == RangeOK(V(ZE(t[1], t[2], t[3]))) /\ SameBag(Ks(ZE(t[1], t[2], t[3])), oracleKsZ(t))
      hatGeomAng(t) == LET ks == HatKs(t[1], t[2], M, S) IN Ang(HatSign(t[1], t[2]), Cos(HatNum(t[1], t[2], M, S), ks[1] * ks[2]))
      scatGeomCos(t) == LET ks == ThetaKs(t[1], t[2], M, S) IN Cos(ThetaNum(t[1], t[2], M, S), ks[1] * ks[2])
      hatDefd(t) == LET ks == HatKs(t[1], t[2], M, S) IN ks[1] > 0 /\ ks[2] > 0
      scatDefd(t) == LET ks == ThetaKs(t[1], t[2], M, S) IN ks[1] > 0 /\ ks[2] > 0
      sumInst == { t \in Perms : LET a == ZE(t[1], t[2], t[3])  b == ZE(t[1], t[2], t[1])  c == ZE(t[1], t[1], t[3]) IN
                     /\ a.kind = "acos" /\ b.kind = "acos" /\ c.kind = "acos"
                     /\ Usable(a) /\ Usable(b) /\ Usable(c) }
  IN
  /\ Clause("HarnessInputs",
            /\ Len(M) = 4 /\ Len(S) = 3 /\ M[1] > 0 /\ M[1] <= 49 /\ M[2] >= 0 /\ M[3] >= 0 /\ M[4] >= 0
            /\ S[3] = ThirdMandelstam(S[1], S[2], M) /\ kib <= 0
            /\ (isEv => M = MassesOf(P) /\ S = PairsOf(P)), <<M, S, P>>)
  \* the two forms of the reference agree (Gram determinants of the four-vectors = invariant forms)
  /\ Clause("HarnessSpecGram",
            isEv => \A t \in Pairs :
              /\ HatNum(t[1], t[2], M, S) = 4 * HatGram(t[1], t[2], P)[1]
              /\ HatKs(t[1], t[2], M, S) = <<4 * HatGram(t[1], t[2], P)[2], 4 * HatGram(t[1], t[2], P)[3]>>
              /\ ThetaNum(t[1], t[2], M, S) = 4 * ThetaGram(t[1], t[2], P)[1]
              /\ ThetaKs(t[1], t[2], M, S) = <<4 * ThetaGram(t[1], t[2], P)[2], 4 * ThetaGram(t[1], t[2], P)[3]>>, <<M, S>>)
  /\ LET bad == { f \in fids : ~RangeOK(Rec.vals[f]) } IN Clause("RangeShape", bad = {}, bad)
  \* |arccos argument| <= 1 at physical points
  /\ LET bad == { f \in fids : RangeOK(Rec.vals[f]) /\ Defd(Rec.vals[f]) /\ ~ArgOK(Rec.vals[f]) } IN
     Clause("ArgRange", bad = {}, <<bad, M, S>>)
  \* the implementation's square roots are the Kallen functions of the geometric definition
  /\ LET bad == { t \in acosZ : ~shapeZ(t) }
             \cup { <<9, t[1], t[2]>> : t \in { u \in acosH : ~(RangeOK(V(HE(u[1], u[2]))) /\ SameBag(Ks(HE(u[1], u[2])), HatKs(u[1], u[2], M, S))) } }
             \cup { <<8, t[1], t[2]>> : t \in { u \in acosS : ~(RangeOK(V(SE(u[1], u[2]))) /\ SameBag(Ks(SE(u[1], u[2])), ThetaKs(u[1], u[2], M, S))) } } IN
     Clause("DenShape", bad = {}, bad)
  \* zeta^i_{k(0)} = zeta^i_{k(i)}
  /\ LET bad == { t \in (1..3) \X (1..3) : LET a == ZE(t[1], t[2], 0)  b == ZE(t[1], t[2], t[1]) IN
                    Usable(a) /\ Usable(b) /\ EAng(a) # EAng(b) } IN
     Clause("ZetaRef0", bad = {}, <<bad, M, S>>)
  \* zeta^i_{k(k)} = 0
  /\ LET bad == { t \in Ids \X (1..3) : LET a == ZE(t[1], t[2], t[2]) IN Usable(a) /\ EAng(a) # AngZero } IN
     Clause("ZetaZero", bad = {}, <<bad, M, S>>)
  \* zeta^i_{j(k)} = - zeta^i_{k(j)}  (and theta-hat_{i(j)} = - theta-hat_{j(i)})
  /\ LET bad == { t \in Ids \X (1..3) \X (1..3) : LET a == ZE(t[1], t[2], t[3])  b == ZE(t[1], t[3], t[2]) IN
                    t[2] # t[3] /\ a.kind # "raise" /\ b.kind # "raise" /\ Usable(a) /\ Usable(b) /\ EAng(a) # AngNeg(EAng(b)) } IN
     Clause("ZetaAntisym", bad = {}, <<bad, M, S>>)
  /\ LET bad == { t \in Pairs : LET a == HE(t[1], t[2])  b == HE(t[2], t[1]) IN
                    Usable(a) /\ Usable(b) /\ EAng(a) # AngNeg(EAng(b)) }
             \cup { <<i, i>> : i \in { n \in 1..3 : HE(n, n).kind # "raise" /\ Usable(HE(n, n)) /\ EAng(HE(n, n)) # AngZero } } IN
     Clause("HatAntisym", bad = {}, <<bad, M, S>>)
  \* cyclic sum rule  zeta^i_{j(k)} = zeta^i_{j(i)} + zeta^i_{i(k)}  for the six permutations (i,j,k) of (1,2,3)
  /\ LET bad == { t \in sumInst : ~SignedSumShape(ZE(t[1], t[2], t[3]), ZE(t[1], t[2], t[1]), ZE(t[1], t[1], t[3])) } IN
     Clause("SumRuleShape", bad = {}, bad)
  /\ LET bad == { t \in sumInst : /\ SignedSumShape(ZE(t[1], t[2], t[3]), ZE(t[1], t[2], t[1]), ZE(t[1], t[1], t[3]))
                                  /\ shapeZ(t) /\ shapeZ(<<t[1], t[2], t[1]>>) /\ shapeZ(<<t[1], t[1], t[3]>>)
                                  /\ ~SignedSumLaw(ZE(t[1], t[2], t[3]), ZE(t[1], t[2], t[1]), ZE(t[1], t[1], t[3])) } IN
     Clause("SumRule", bad = {}, <<bad, M, S>>)
  \* theta-hat_{i(j)} = angle between p_i and p_j in the parent rest frame, + for cyclic (i,j)
  /\ LET bad == { t \in acosH : hatDefd(t) /\ Usable(HE(t[1], t[2])) /\ EAng(HE(t[1], t[2])) # hatGeomAng(t) } IN
     Clause("HatGeom", bad = {}, <<bad, M, S>>)
  \* theta_ij = helicity angle of i in the (ij) rest frame, from the flight direction of (ij); theta_ij + theta_ji = pi
  /\ LET bad == { t \in acosS : scatDefd(t) /\ Usable(SE(t[1], t[2])) /\ (SE(t[1], t[2]).sg # 1 \/ RawCos(SE(t[1], t[2])) # scatGeomCos(t)) } IN
     Clause("ScatGeom", bad = {}, <<bad, M, S>>)
  /\ LET bad == { t \in acosS : <<t[2], t[1]>> \in acosS /\ Usable(SE(t[1], t[2])) /\ Usable(SE(t[2], t[1]))
                                /\ RawCos(SE(t[1], t[2])) # CosNeg(RawCos(SE(t[2], t[1]))) } IN
     Clause("ScatPi", bad = {}, <<bad, M, S>>)
  \* beyond the property text: zeta^i_{j(k)} is the angle, in the rest frame of i, between the chain directions
  /\ LET bad == { t \in (1..3) \X (1..3) \X (1..3) :
                    LET e == ZE(t[1], t[2], t[3])  ks == ZetaKs(t[1], t[2], t[3], M, S) IN
                    /\ t[2] # t[3] /\ e.kind = "acos" /\ Usable(e) /\ ks[1] > 0 /\ ks[2] > 0
                    /\ EAng(e) # Ang(ZSign(t[1], t[2], t[3]), Cos(ZetaRefNum(t[1], t[2], t[3], M, S), ks[1] * ks[2])) } IN
     Clause("ZetaGeomValue", bad = {}, <<bad, M, S>>)
  /\ cnt' = LET c1 == Add(cnt, "pt", 1)
                c2 == Add(c1, IF isEv THEN "pt_event" ELSE "pt_lattice", 1)
                c3 == IF kib = 0 THEN Add(c2, "pt_boundary", 1) ELSE c2
                c4 == IF kib < 0 /\ \E d \in {<<1, 0>>, <<-1, 0>>, <<0, 1>>, <<0, -1>>} :
                            Kibble(S[1] + d[1], S[2] + d[2], S[3] - d[1] - d[2], M) > 0
                      THEN Add(c3, "pt_adjacent", 1) ELSE c3
                c5 == IF M[2] = 0 \/ M[3] = 0 \/ M[4] = 0 THEN Add(c4, "pt_massless", 1) ELSE c4
                c6 == IF M[2] = M[3] \/ M[3] = M[4] \/ M[2] = M[4] THEN Add(c5, "pt_equalmass", 1) ELSE c5
                c7 == IF \E f \in fids : RangeOK(Rec.vals[f]) /\ ~Defd(Rec.vals[f]) THEN Add(c6, "pt_degenerate_formula", 1) ELSE c6
                c8 == Add(c7, "sumrule_instances", Cardinality(sumInst))
                c9 == Add(c8, "arg_checked", Cardinality({ f \in fids : RangeOK(Rec.vals[f]) /\ Defd(Rec.vals[f]) }))
                c10 == Add(c9, "hat_geom", Cardinality({ t \in acosH : hatDefd(t) /\ Usable(HE(t[1], t[2])) }))
            IN Add(c10, "scat_geom", Cardinality({ t \in acosS : scatDefd(t) /\ Usable(SE(t[1], t[2])) }))

\* ---- observation family: the angle values (floating point, quantised) --------------------------
UNDEF == -999999999
ObsStep ==
  LET tol == Rec.tol  piq == Rec.pi
      Z(i, j, k) == Rec.z[16 * i + 4 * j + k + 1]
      H(i, j) == Rec.h[4 * i + j + 1]
      T(i, j) == Rec.t[4 * i + j + 1]
      GH(i, j) == Rec.gh[4 * i + j + 1]
      GT(i, j) == Rec.gt[4 * i + j + 1]
      Near(a, b) == Abs(a - b) <= tol
      Both(a, b) == a # UNDEF /\ b # UNDEF
      \* the angle zeta^i_{j(k)} exists at this point: the Kallen factors of its definition are positive
      zdef(t) == LET r == ZResolve(t[1], t[2], t[3])
                     ks == IF t[1] = 0 THEN HatKs(r[2], r[3], Rec.M, Rec.S) ELSE ZetaKs(r[1], r[2], r[3], Rec.M, Rec.S) IN
                 r[2] = r[3] \/ (ks[1] > 0 /\ ks[2] > 0)
  IN
  \* where the geometric angle exists, the implementation's angle is a real number
  /\ LET bad == { <<9, t[1], t[2]>> : t \in { u \in Pairs : GH(u[1], u[2]) # UNDEF /\ HE(u[1], u[2]).kind # "raise" /\ H(u[1], u[2]) = UNDEF } }
             \cup { <<8, t[1], t[2]>> : t \in { u \in Pairs : GT(u[1], u[2]) # UNDEF /\ SE(u[1], u[2]).kind # "raise" /\ T(u[1], u[2]) = UNDEF } }
             \cup { t \in Ids \X (1..3) \X Ids : ZE(t[1], t[2], t[3]).kind # "raise" /\ ~ZRaises(t[1], t[2], t[3]) /\ zdef(t)
                                                /\ Z(t[1], t[2], t[3]) = UNDEF } IN
     Clause("ObsArgRange", bad = {}, bad)
  /\ LET bad == { t \in Pairs : Both(H(t[1], t[2]), GH(t[1], t[2])) /\ ~Near(H(t[1], t[2]), GH(t[1], t[2])) } IN
     Clause("ObsHatGeom", bad = {}, bad)
  /\ LET bad == { t \in Pairs : Both(H(t[1], t[2]), H(t[2], t[1])) /\ ~Near(H(t[1], t[2]), -H(t[2], t[1])) } IN
     Clause("ObsHatAntisym", bad = {}, bad)
  /\ LET bad == { t \in Pairs : Both(T(t[1], t[2]), GT(t[1], t[2])) /\ ~Near(T(t[1], t[2]), GT(t[1], t[2])) } IN
     Clause("ObsScatGeom", bad = {}, bad)
  /\ LET bad == { t \in Pairs : Both(T(t[1], t[2]), T(t[2], t[1])) /\ ~Near(T(t[1], t[2]) + T(t[2], t[1]), piq) } IN
     Clause("ObsScatPi", bad = {}, bad)
  /\ LET bad == { t \in (1..3) \X (1..3) : Both(Z(t[1], t[2], 0), Z(t[1], t[2], t[1])) /\ ~Near(Z(t[1], t[2], 0), Z(t[1], t[2], t[1])) } IN
     Clause("ObsZetaRef0", bad = {}, bad)
  /\ LET bad == { t \in Ids \X (1..3) : Z(t[1], t[2], t[2]) # UNDEF /\ ~Near(Z(t[1], t[2], t[2]), 0) } IN
     Clause("ObsZetaZero", bad = {}, bad)
  /\ LET bad == { t \in Ids \X (1..3) \X (1..3) : t[2] # t[3] /\ Both(Z(t[1], t[2], t[3]), Z(t[1], t[3], t[2]))
                                                  /\ ~Near(Z(t[1], t[2], t[3]), -Z(t[1], t[3], t[2])) } IN
     Clause("ObsZetaAntisym", bad = {}, bad)
  /\ LET bad == { t \in Perms : /\ Z(t[1], t[2], t[3]) # UNDEF /\ Both(Z(t[1], t[2], t[1]), Z(t[1], t[1], t[3]))
                                /\ ~Near(Z(t[1], t[2], t[3]), Z(t[1], t[2], t[1]) + Z(t[1], t[1], t[3])) } IN
     Clause("ObsSumRule", bad = {}, bad)
  /\ cnt' = Add(cnt, "obs", 1)

Step ==
  /\ l <= Len(Log)
  /\ CASE Rec.k = "table" -> Clause("HarnessTableFirst", l = 1, l) /\ TableStep
       [] Rec.k = "pt" -> PtStep
       [] Rec.k = "obs" -> ObsStep
       [] OTHER -> Clause("HarnessKind", FALSE, Rec.k) /\ UNCHANGED cnt
  /\ l' = l + 1
  /\ (l = Len(Log) => \A n \in Counters : PrintT(<<"STAT", n, cnt'[n]>>))

TraceInit == l = 1 /\ cnt = [n \in Counters |-> 0]
TraceSpec == TraceInit /\ [][Step]_<<l, cnt>>
TraceAccepted == TLCGet("stats").diameter = Len(Log) + 1
=============================================================================
