"""C05 — spin alignment never changes a single-topology intensity; ranges are -s..s.

Exact part: Alignment!SpinRange is the oracle for create_spin_range (exhaustive lattice) and
for every summation pool of aligned models; aligned models of single-topology reactions with
every final-state spin (massless half-integer included) must formulate.  Observation part:
aligned and unaligned intensities on the same events (law judged by Trace_Observe)."""
from __future__ import annotations

import random
from fractions import Fraction as F

import numpy as np

from .. import ampl, observe, topo, trace
from .. import ampl_universe as U
from ..core import Machinery

LEVEL = "model_checking"
META = {
    "technique": "TLA+ oracle Alignment!SpinRange + applicability logic (AlignmentNeutralClaimed) evaluated by TLC (Trace_Observe) on: the exhaustive "
    "create_spin_range lattice, the summation pools of aligned models over synthetic single-topology reactions with spins 0..5/2 "
    "and massless particles, formulate() success, and logged aligned-vs-unaligned intensities on generated events",
    "text": "The discrete clauses (ranges are exactly -s..s; every aligned single-topology model formulates) are decided exactly against the "
    "specification's range oracle over all spins and masslessness flags; the equality of intensities is a law over values the "
    "implementation computes (TLC cannot evaluate Wigner-D functions), judged with the specification's applicability logic.",
    "note": "Trusted: TLC; sympy/numpy evaluation of the models (two-stage lambdify); event generator. The intensity equality is an "
    "observation law at sampled events (relative 1e-7), not a proof. Bounds: spins <= 5/2, 2..4 final states for the exact part, "
    "three-body reactions for the numeric part.",
    "design_ref": "DESIGN.md §4 C05",
}


def range_records():
    """create_spin_range over the whole lattice, as a *history*: every (spin, no_zero, int/float input)
    is called in ascending order, then again in descending order, then interleaved — a hidden cache
    that one call corrupts for the next one changes a later record."""
    from ampform.helicity.align._spin import create_spin_range

    combos = [(s2, nz, kind) for s2 in range(0, 11) for nz in (0, 1) for kind in ("int", "float")]
    order = combos + combos[::-1] + [c for pair in zip(combos[1::2], combos[::2]) for c in pair]
    recs = []
    for pos, (s2, nz, kind) in enumerate(order):
        arg = (F(s2, 2) if s2 % 2 else s2 // 2) if kind == "int" else s2 / 2
        rid = f"range:{kind}:{s2}:{nz}:call{pos}"
        try:
            vals = create_spin_range(arg, no_zero_spin=bool(nz))
            ok = all(float(2 * v).is_integer() for v in vals)
            recs.append({"kind": "range", "id": rid, "s2": s2, "nozero": nz, "raised": 0 if ok else 1, "vals": [int(round(2 * v)) for v in vals], "pos": pos})
        except Exception as ex:  # noqa: BLE001
            recs.append({"kind": "range", "id": rid, "s2": s2, "nozero": nz, "raised": 1, "vals": [], "error": type(ex).__name__, "pos": pos})
    return recs


def _massless_roles(spec):
    """Which roles massless final-state particles with spin play: 'hel' / 'opp' (opposite-helicity state)."""
    t = spec["transitions"][0]["topology"]
    tree = [tuple(x) for x in topo.tree_of(t)]
    roles = set()
    for name, d in spec["particles"].items():
        if name.startswith("f") and d["mass"] == 0.0 and d["spin2"] > 0:
            i = int(name[1:])
            parent = min((S for S in tree if i in S and len(S) > 1), key=len)
            kids = sorted(c for c in tree if set(c) < set(parent) and not any(set(c) < set(o) < set(parent) for o in tree))
            roles.add("hel" if kids[0] == (i,) else "opp")
    return roles


def single_topology_specs(rng, n):
    """Random single-topology reactions; the selection always contains massless particles with spin both as
    helicity state and as opposite-helicity state of their production node."""
    out, need = [], {"hel": 2, "opp": 2}
    tries = 0
    while tries < n * 60 and (len(out) < n or any(v > 0 for v in need.values())):
        tries += 1
        spec = U.synth_spec(rng, nfs=rng.choice([3, 3, 3, 2, 4]), formalism="helicity", helset="full", maxspin2=4, ntop=1)
        if spec is None or len(spec["transitions"]) > 48:
            continue
        roles = _massless_roles(spec)
        wanted = [r for r in roles if need.get(r, 0) > 0]
        if len(out) < n - sum(need.values()) or wanted:
            out.append(spec)
            for r in wanted:
                need[r] -= 1
    return out


def run(chk, replay=None):
    tier = chk.tier
    rng = random.Random(chk.seed)
    nrng = np.random.default_rng(chk.seed)
    chk.assume("TLC/SANY", "sympy/numpy evaluation of WignerD and of the lambdified models", "phase-space generator (vf/numeric.py)")
    records = range_records()
    n_range = len(records)
    # structural: pools + success over a synthetic single-topology universe (no evaluation)
    specs = single_topology_specs(rng, 40 if tier == "thorough" else 8)
    jobs, meta = [], []
    for k, spec in enumerate(specs):
        nfs = spec["meta"]["nfs"]
        als = ["axis"] + ([f"dpd{rng.choice([1, 2, 3])}"] if nfs == 3 else [])
        if tier == "thorough" and nfs == 3:
            als = ["axis", "dpd1", "dpd2", "dpd3"]
        for al in als:
            jobs.append((("synth", spec), al, None, [], chk.seed, True))
            meta.append((f"synth:{k}:{nfs}", spec, al))
    # deep cascades (five final states, fully sequential): the rotation chain of the innermost particles has four links
    deep, tries = [], 0
    while len(deep) < (4 if tier == "thorough" else 2) and tries < 6000:
        tries += 1
        spec = U.synth_spec(rng, nfs=5, formalism="helicity", helset="restricted", maxspin2=2, ntop=1)
        if spec is None or len(spec["transitions"]) > 24:
            continue
        tree = [tuple(s_) for s_ in spec["meta"]["tree"]]
        pair = [s_ for s_ in tree if len(s_) == 2]
        if sorted(len(s_) for s_ in tree if len(s_) > 1) == [2, 3, 4, 5] and any(spec["particles"][f"f{i}"]["spin2"] > 0 and spec["particles"][f"f{i}"]["mass"] > 0 for i in pair[0]):
            deep.append(spec)
    for k, spec in enumerate(deep):
        jobs.append((("synth", spec), "axis", None, [], chk.seed, True))
        meta.append((f"synth5:{k}", spec, "axis"))
    # numeric: aligned vs unaligned on events, real single-topology reactions (+ synthetic with massless half-integer spin)
    numeric_reactions = [("real", "jpsi_ksp_sigma", "helicity")] + ([("real", "jpsi_3pi_rho0", "helicity"), ("real", "jpsi_ksp_sigma", "canonical-helicity")] if tier == "thorough" else [])
    small = [s for s in specs if s["meta"]["nfs"] == 3 and len(s["transitions"]) <= 8]
    # prefer final states whose spins differ (a rotation built with a neighbour's spin shows up there)
    small.sort(key=lambda s: -len({d["spin2"] for n, d in s["particles"].items() if n.startswith("f")}))
    small = small[: (3 if tier == "thorough" else 1)]
    numeric_specs = [tuple(x) for x in numeric_reactions] + [("synth", s) for s in small]
    # a fixed minimal reaction with a massless final-state particle with spin (the listed axis-angle finding)
    from qrules.topology import create_isobar_topologies

    t3 = create_isobar_topologies(3)[0]
    photon = {"formalism": "helicity", "particles": {"A": {"spin2": 0, "mass": 3.0}, "f0": {"spin2": 0, "mass": 0.14}, "f1": {"spin2": 2, "mass": 0.0},
                                                     "f2": {"spin2": 0, "mass": 0.5}, "R": {"spin2": 2, "mass": 1.3}},
              "transitions": [{"topology": t3, "states": {-1: ["A", 0], 0: ["f0", 0], 3: ["R", 0], 1: ["f1", h], 2: ["f2", 0]},
                               "nodes": {0: {"L2": U.NONE, "S2": U.NONE, "eta": 0}, 1: {"L2": U.NONE, "S2": U.NONE, "eta": 0}}} for h in (-2, 2)],
              "meta": {"nfs": 3, "helset": "full", "tree": [], "ntop": 1}}
    numeric_specs.append(("synth", photon))
    nj = []
    for spec in numeric_specs:
        reaction = observe.load(spec)
        ev = observe.events_for(reaction, 24, nrng)
        als = ["none", "axis", "dpd1"] + (["dpd2", "dpd3"] if tier == "thorough" else [["dpd2"], ["dpd3"]][chk.seed % 2])
        if spec[0] == "synth" and tier == "quick" and spec[1] is not photon:
            als = [a for a in als if a != "axis"]  # the axis-angle model of a synthetic reaction does not fit the quick budget
        als = als + ["relabel"]  # relabel_edge_ids alone (the prerequisite of DPD): the same model on shifted ids
        for al in als:
            jobs.append((spec, al, ev, [], chk.seed, al not in ("none", "relabel")))
            nj.append((spec, al))
            meta.append((str(spec[:3]) if spec[0] == "real" else "synth-numeric", spec, al))
    results = observe.run_jobs(jobs, workers=12, job_timeout=600 if tier == "thorough" else 50)
    timeouts = []
    by_numeric = {}
    for (label, spec, al), job, res in zip(meta, jobs, results):
        reaction = observe.load(job[0])
        outer = observe.outer_states(reaction)
        ntop = observe.n_topologies(reaction)
        rid = f"{label}:{al}"
        if res["ok"] == -1:
            raise Machinery(f"worker failed for {rid}: {res['error']}")
        if res["ok"] == -2:
            timeouts.append(rid)
            continue
        chk.count(1)
        if al not in ("none", "relabel"):
            records.append({"kind": "built", "id": rid, "ntop": ntop, "ok": res["ok"], "alignment": al, "error": res["error"][:120]})
        if res["ok"] == 1 and res.get("pools") is not None and al not in ("none", "relabel"):
            records.append({"kind": "pools", "id": rid, "outer": outer, "pools": res["pools"]})
            if res.get("links"):
                records.append({"kind": "links", "id": rid + ":links", "links": res["links"], "alignment": al})
            chk.nontrivial((al, tuple((o["spin2"], o["massless"]) for o in outer)))
        if job[2] is not None and res["ok"] == 1:
            by_numeric.setdefault(id(job[0]) if job[0][0] == "synth" else job[0], {})[al] = (res["I"], outer, ntop, rid)
    for key, d in by_numeric.items():
        if "none" not in d:
            continue
        for al, (I, outer, ntop, rid) in d.items():
            if al == "none":
                continue
            q, nan = observe.reldiff_q(I, d["none"][0])
            records.append({"kind": "relabel" if al == "relabel" else "equal", "id": rid, "outer": outer, "ntop": ntop, "alignment": al, "reldiff_q": q, "nan": nan})
    tv = trace.validate("Trace_Observe", records, timeout=1200)
    chk.add_tlc("trace_observe", tv.res, traces=len(records))
    if timeouts:
        chk.note(f"{len(timeouts)} model evaluations exceeded the per-job time limit and were skipped: {timeouts[:6]}")
    chk.part("records", skipped_timeouts=len(timeouts), spin_range=n_range, built=sum(r["kind"] == "built" for r in records), pools=sum(r["kind"] == "pools" for r in records),
             equal=sum(r["kind"] == "equal" for r in records), stats=tv.stats)
    if tv.stats.get("equal-claimed", 0) == 0 or tv.stats.get("pools", 0) == 0:
        raise Machinery(f"vacuous: {tv.stats}")
    chk.sample(next(r for r in records if r["kind"] == "pools"))
    chk.sample(next(r for r in records if r["kind"] == "equal"))
    byid = {r["id"]: r for r in records}
    for clause, rid, info in tv.rejects:
        r = byid.get(rid, {})
        if r.get("kind") == "range":
            first = r.get("pos", 0) < 44
            sig = f"create_spin_range:s2={r['s2']}:no_zero={r['nozero']}:{'raises-' + r.get('error', '') if r['raised'] else 'wrong-values'}:{'first-call' if first else 'after-other-calls'}"
        elif r.get("kind") == "built":
            sig = f"aligned-formulate-raises:{r['alignment'][:3]}:{r['error'].split(':')[0]}"
        elif r.get("kind") == "pools" and clause == "rotation-carries-the-spin-of-its-state":
            sig = f"rotation-with-wrong-spin:{rid.split(':')[-1][:3]}:state-spin2={info[1]}:j2={info[2][0]}"
        elif r.get("kind") == "pools":
            sig = f"pool-not-full-range:{rid.split(':')[-1][:3]}:spin2={info[1]}:massless={info[2]}"
        elif r.get("kind") == "equal" and r.get("nan") and any(o["massless"] and o["spin2"] > 0 for o in r["outer"][1:]):
            sig = f"aligned-intensity-is-nan:{r['alignment'][:3]}:massless-final-state-particle-with-spin"
        else:
            sig = f"{clause}:{r.get('alignment', '')[:3]}"
        chk.violation(sig, f"{clause}: {rid}: {str(info)[:400]}", {"record": r})
    bad = dict(next(r for r in records if r["kind"] == "equal"))
    bad["id"] = "corrupted"
    bad["reldiff_q"] = 5_000_000
    bad2 = dict(next(r for r in records if r["kind"] == "range" and r["s2"] == 3))
    bad2["id"] = "corrupted2"
    bad2["vals"] = bad2["vals"][:-1]
    tvb = trace.validate("Trace_Observe", [bad, bad2])
    if len({r[1] for r in tvb.rejects}) != 2:
        raise Machinery("binding demonstration failed")
    chk.part("binding_demo", corrupted=["equal.reldiff_q", "range.vals"], rejected_by=sorted({r[0] for r in tvb.rejects}))
    chk.cov["rule"] = ("cases = create_spin_range lattice (spin2 0..10 x no_zero x int/float input, exhaustive) + aligned models (axis-angle, DPD ref 1-3) of synthetic "
                       "single-topology reactions with spins<=5/2 incl. massless particles (pools, success) + aligned-vs-unaligned intensities on 24 events of "
                       "real/synthetic three-body reactions; distinct = distinct (alignment, outer spins/masslessness)")
    chk.cov["exhaustive"] = False
