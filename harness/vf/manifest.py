"""Generates /verif/MANIFEST.json from the per-property table below (python -m vf.manifest)."""
from __future__ import annotations

import json
from pathlib import Path

ROOT = Path(__file__).resolve().parents[2]

# id -> (level, technique, text, note, design_ref)
TABLE: dict[str, tuple[str, str, str, str, str]] = {
    "C16": (
        "model_checking",
        "TLA+ spec CacheFS (inode-level file system, 2 processes, crashes) model-checked exhaustively with TLC; "
        "TLC -simulate behaviours and enumerated crash points forced on the real perform_cached_doit by a "
        "fork/interposition scheduler; recorded operation traces validated by Trace_CacheFS with TLC",
        "Exhaustive model checking of the caching algorithm's design for every interleaving/crash point within "
        "small bounds, bound to the code in both directions: specification behaviours are replayed as schedules "
        "on the real function, and every recorded file-operation trace must be a behaviour of the specification "
        "with ReturnsDoit/NeverRaises evaluated on the logged results. Histories x crash points x schedules is "
        "exactly the quantifier tests cannot sample.",
        "Trusted: TLC, the inode model of POSIX open/replace, the interposition layer (open/os.open/stat/replace/unlink "
        "on the cache directory), SIGKILL between operations or after n bytes as the crash model; bounds: 2-3 processes, "
        "3 expressions (2 colliding), <=5 calls, <=2 crashes per behaviour.",
        "DESIGN.md §4 C16",
    ),
}

NOT_YET = "check not built yet in this round (see DESIGN.md §9 construction order)"


def build() -> dict:
    props = [json.loads(l) for l in (ROOT / "properties.jsonl").read_text().splitlines() if l.strip()]
    checks, na = [], []
    for p in props:
        pid = p["id"]
        mod = ROOT / "harness" / "vf" / "props" / f"{pid.lower()}.py"
        if pid in TABLE and mod.exists():
            level, tech, text, note, ref = TABLE[pid]
            checks.append({
                "property_id": pid,
                "quick_cmd": f"bin/vcheck {pid} --tier quick",
                "thorough_cmd": f"bin/vcheck {pid} --tier thorough",
                "evidence_file": f"/verif/evidence/{pid}.json",
                "replay_cmd_template": f"bin/vcheck {pid} --tier quick --replay {{path}}",
                "engine": "vf",
                "level_claimed": {"category": level, "text": text, "design_ref": ref},
                "level_note": note,
                "technique": tech,
            })
        else:
            na.append({"property_id": pid, "reason": NA_REASONS.get(pid, NOT_YET)})
    return {
        "version": 1,
        "setup_cmd": "bin/vsetup",
        "hooks": {
            "guard": "AMPFORM_VERIF",
            "enable": "no source hooks are needed: ampform is a sequential library whose public calls are the linearisation points; "
                      "file-system interposition and crash injection for C16 live in the harness process",
            "baseline_off_cmd": "cd /repo && /venv/bin/python -m pytest -ra -q -p no:cacheprovider --timeout=900 --continue-on-collection-errors",
            "source_commits": [],
            "add_only": True,
        },
        "engines": [{
            "name": "vf",
            "path": "/verif/harness/vf",
            "serves_properties": [c["property_id"] for c in checks],
            "kind_free_text": "TLA+ specifications under /verif/spec checked with TLC (exhaustive, simulation, trace validation), "
                              "bound to the implementation by Python drivers that replay specification behaviours into ampform and "
                              "log implementation behaviour for the trace specifications",
        }],
        "checks": checks,
        "not_applicable": na,
        "notes": "Exit codes: 0 held (KNOWN-FINDING / SPEC-DRIFT lines possible), 1 VIOLATION, 2 machinery failure. "
                 "known_findings.json lists genuine unrepaired defects by signature and the fixed ones with their commits.",
    }


NA_REASONS: dict[str, str] = {}


def main():
    m = build()
    (ROOT / "MANIFEST.json").write_text(json.dumps(m, indent=1) + "\n")
    try:
        import jsonschema

        jsonschema.validate(m, json.loads(Path("/root/.vp/MANIFEST.schema.json").read_text()))
        print("MANIFEST.json written and valid:", len(m["checks"]), "checks,", len(m["not_applicable"]), "not applicable")
    except FileNotFoundError:
        print("MANIFEST.json written (schema not available)")


if __name__ == "__main__":
    main()
