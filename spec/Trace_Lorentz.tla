---------------------------- MODULE Trace_Lorentz ----------------------------
(***************************************************************************)
(* Judges matrices logged from the IMPLEMENTATION (ampform.kinematics.     *)
(* lorentz, driver vf/props/c08.py + vf/lorentz_exact.py) with the exact   *)
(* arithmetic and the reference transformations of Lorentz.  Every number  *)
(* in a record is an integer; a rational is [num, den]; a matrix is 4 rows *)
(* of 4 rationals.  The implementation's entries are exact: the driver     *)
(* substitutes a lattice point into as_explicit()/evaluate() (Rationals,   *)
(* Pythagorean (cos, sin)), it never rounds.  Record kinds (field k):      *)
(*                                                                         *)
(*  start  q                reset the Lorentz machine: M = Id, p = p0 = q   *)
(*  step   a par L acc pv   one transformation of a chain (<= MaxDepth):    *)
(*                          the Lorentz action a(par) is taken; L is the    *)
(*                          implementation's matrix for it, acc the product *)
(*                          of the implementation's matrices so far, pv the *)
(*                          momentum transported by them.  TLC evaluates    *)
(*                          the laws on L and acc and compares L, acc, pv   *)
(*                          with its own M', p'.                            *)
(*  inv    q m1 m2 nq       B(q), B(NegativeMomentum(q)), NegativeMomentum  *)
(*  zag    b scale m1 m2    BoostZMatrix(beta) and BoostMatrix(scale*(gamma,*)
(*                          0,0,gamma*beta))                                *)
(*  rot    t a b ma mb mab  R(a), R(b), R(a+b) for t in {RotY, RotZ}        *)
(*  args   t m vals         arguments of evaluate() against as_explicit()   *)
(*  num    ms hasv v out    floating-point result of the generated numpy    *)
(*                          code for the product ms[1]...ms[n] (.v), logged *)
(*                          as floor(|x| 10^12) in two limbs; TLC forms the *)
(*                          exact product of the implementation's explicit  *)
(*                          matrices and evaluates the closeness law        *)
(*  samp   r                float-only residuals at large beta*gamma,       *)
(*                          normalised by eps*gamma^2 (sampled, kind N)     *)
(*  approx r                fallback when the implementation's explicit     *)
(*                          matrix is NOT rational at a lattice point: the  *)
(*                          residuals of the laws, evaluated by the driver  *)
(*                          in floating point, in units of 10^-12           *)
(*                                                                         *)
(* A failing clause prints <<"REJECT", clause, id, info>> and the record is*)
(* still consumed, so every rejection of a batch is reported.  A record the*)
(* harness built wrongly prints "BADREC" (machinery failure, no verdict).  *)
(***************************************************************************)
EXTENDS Lorentz, Json, IOUtils

Log == ndJsonDeserialize(IOEnv.TRACE_FILE)

VARIABLES l,      \* next record
          st      \* counters: how often each law was evaluated (vacuity)
tvars == <<vars, l, st>>

Rec == Log[l]
Clause(name, ok, info) == IF ok THEN TRUE ELSE PrintT(<<"REJECT", name, Rec.id, info>>)
Precond(name, ok, info) == IF ok THEN TRUE ELSE PrintT(<<"BADREC", name, Rec.id, info>>)

Kinds == {"start", "step", "inv", "zag", "rot", "args", "num", "samp", "approx"}
Counters == Kinds \cup {"proper", "detexact", "rest", "reference", "numentries"}
Bump(c, ks) == [k \in Counters |-> IF k \in DOMAIN ks THEN c[k] + ks[k] ELSE c[k]]
Consume(ks) ==
  /\ l' = l + 1
  /\ st' = Bump(st, ks)
  /\ IF l + 1 > Len(Log)
     THEN /\ TLCSet(1, TRUE)
          /\ \A k \in Counters : PrintT(<<"STAT", k, st'[k]>>)
     ELSE TRUE

\* ---- shapes -------------------------------------------------------------------
IsRatRec(r) == Len(r) = 2 /\ r[2] > 0 /\ GCD(Abs(r[1]), r[2]) = 1
IsVecRec(v) == Len(v) = 4 /\ \A i \in Ix : IsRatRec(v[i])
IsMatRec(A) == Len(A) = 4 /\ \A i \in Ix : IsVecRec(A[i])

\* ---- the three clauses of "proper orthochronous Lorentz transformation" ------------
ProperLaws(L, what) ==
  /\ Clause("EtaOrthogonal", EtaOrth(L), <<what, L>>)
  /\ Clause("DetOne", DetOne(L), <<what, DetModP(L)>>)
  /\ Clause("Orthochronous", RLe(One, L[1][1]), <<what, L[1][1]>>)

\* ---- lattice parameters ----------------------------------------------------------
BetaParOK(b) == Len(b) = 3 /\ b[1] * b[1] + b[2] * b[2] = b[3] * b[3] /\ b[2] > 0 /\ b[3] > 0
AngleParOK(a) == Len(a) = 3 /\ a[1] * a[1] + a[2] * a[2] = a[3] * a[3] /\ a[3] > 0
MomParOK(q) == Len(q) = 5 /\ q[1] > 0 /\ q[2] > 0 /\ MassOK(MassOf(q), VecOf(q))
ParOK(a, par) == CASE a = "BoostZ" -> BetaParOK(par)
                   [] a \in {"RotY", "RotZ"} -> AngleParOK(par)
                   [] a = "Boost" -> MomParOK(par)
                   [] OTHER -> TRUE

\* ---- chains: the Lorentz machine driven by the log ---------------------------------
TStart ==
  /\ Rec.k = "start"
  /\ Precond("start", MomParOK(Rec.q), Rec.q)
  /\ p0' = VecOf(Rec.q) /\ p' = VecOf(Rec.q) /\ mass' = MassOf(Rec.q)
  /\ M' = Id /\ prev' = Id /\ n' = 0 /\ last' = [a |-> "Init", par |-> <<>>]
  /\ Consume([start |-> 1])

Act(r) == CASE r.a = "BoostZ" -> ApplyBoostZ(r.par)
            [] r.a = "RotY"   -> ApplyRotY(r.par)
            [] r.a = "RotZ"   -> ApplyRotZ(r.par)
            [] r.a = "Boost"  -> ApplyBoost(r.par)
            [] r.a = "ToRest" -> ToRest
            [] r.a = "Negate" -> Negate
            [] OTHER -> FALSE

\* the specification's own matrix of the step just taken: M' = Lspec M, so Lspec = M' M^-1
\* with M^-1 = eta M^T eta (M is eta-orthogonal: invariant of Lorentz)
StepRef(r) == CASE r.a = "BoostZ" -> RefBoostZ(BetaOf(r.par), GammaOf(r.par))
                [] r.a = "RotY"   -> RefRotY(CosSin(r.par)[1], CosSin(r.par)[2])
                [] r.a = "RotZ"   -> RefRotZ(CosSin(r.par)[1], CosSin(r.par)[2])
                [] r.a = "Boost"  -> RefBoost(MassOf(r.par), VecOf(r.par))
                [] r.a = "ToRest" -> RefBoost(mass, p)
                [] OTHER -> Id

TStep ==
  /\ Rec.k = "step"
  /\ Precond("step-shape", IsMatRec(Rec.L) /\ IsMatRec(Rec.acc) /\ IsVecRec(Rec.pv) /\ ParOK(Rec.a, Rec.par), Rec.a)
  /\ Act(Rec)
  \* (i) the laws, evaluated on the implementation's matrices
  /\ IF Rec.a = "Negate"
     THEN Clause("NegKeepsEnergy", Rec.pv[1] = p[1] /\ \A i \in 2..4 : RAdd(Rec.pv[i], p[i]) = Zero, <<p, Rec.pv>>)
     ELSE ProperLaws(Rec.L, Rec.a)
  /\ ProperLaws(Rec.acc, "chain")
  /\ IF Rec.a = "ToRest" THEN Clause("RestFrame", Rec.pv = Rest(mass), <<p, Rec.pv>>) ELSE TRUE
  \* (ii) against the specification's own state
  /\ IF Rec.a = "Negate" THEN TRUE ELSE Clause("MatchesReference", Rec.L = StepRef(Rec), <<Rec.a, Rec.par, Rec.L>>)
  /\ Clause("ChainMatchesReference", Rec.acc = M', <<n', Rec.a>>)
  /\ Clause("Transport", Rec.pv = p', <<n', Rec.a, Rec.pv>>)
  /\ Consume([step |-> 1, proper |-> IF Rec.a = "Negate" THEN 1 ELSE 2,
              detexact |-> (IF DetFits(Rec.acc) THEN 1 ELSE 0) + (IF DetFits(Rec.L) THEN 1 ELSE 0),
              rest |-> IF Rec.a = "ToRest" THEN 1 ELSE 0, reference |-> 2])

\* ---- laws over several implementation matrices -------------------------------------
Same == UNCHANGED vars

TInv ==
  /\ Rec.k = "inv" /\ Same
  /\ Precond("inv-shape", MomParOK(Rec.q) /\ IsMatRec(Rec.m1) /\ IsMatRec(Rec.m2) /\ IsVecRec(Rec.nq), Rec.q)
  /\ Clause("NegKeepsEnergy", Rec.nq = Neg3(VecOf(Rec.q)), Rec.nq)
  /\ ProperLaws(Rec.m2, "B(-q)")
  /\ Clause("BoostInverse", MMul(Rec.m2, Rec.m1) = Id /\ MMul(Rec.m1, Rec.m2) = Id, <<Rec.q>>)
  /\ Clause("RestFrame", MVec(Rec.m1, VecOf(Rec.q)) = Rest(MassOf(Rec.q)), MVec(Rec.m1, VecOf(Rec.q)))
  /\ Clause("MatchesReference", Rec.m2 = RefBoost(MassOf(Rec.q), VecOf(NegMom(Rec.q))), <<"B(-q)", Rec.q, Rec.m2>>)
  /\ Consume([inv |-> 1, proper |-> 1, rest |-> 1, reference |-> 1])

TZag ==
  /\ Rec.k = "zag" /\ Same
  /\ Precond("zag-shape", BetaParOK(Rec.b) /\ IsRatRec(Rec.scale) /\ RSign(Rec.scale) > 0 /\ IsMatRec(Rec.m1) /\ IsMatRec(Rec.m2), Rec.b)
  /\ Clause("ZAgree", Rec.m1 = Rec.m2, <<Rec.b, Rec.scale>>)
  /\ Clause("MatchesReference", Rec.m2 = RefBoost(Rec.scale, [i \in Ix |-> RMul(Rec.scale, ZMom(BetaOf(Rec.b), GammaOf(Rec.b))[i])]),
            <<"B(z)", Rec.b, Rec.m2>>)
  /\ Consume([zag |-> 1, reference |-> 1])

TRot ==
  /\ Rec.k = "rot" /\ Same
  /\ Precond("rot-shape", Rec.t \in {"RotY", "RotZ"} /\ AngleParOK(Rec.a) /\ AngleParOK(Rec.b) /\ IsVecRec(<<Rec.ab[1], Rec.ab[2], Zero, Zero>>)
                          /\ IsMatRec(Rec.ma) /\ IsMatRec(Rec.mb) /\ IsMatRec(Rec.mab), Rec.t)
  /\ Precond("rot-sum", <<Rec.ab[1], Rec.ab[2]>> = CircleAdd(CosSin(Rec.a), CosSin(Rec.b)), Rec.ab)
  /\ Clause("RotCompose", MMul(Rec.ma, Rec.mb) = Rec.mab /\ MMul(Rec.mb, Rec.ma) = Rec.mab, <<Rec.t, Rec.a, Rec.b>>)
  /\ ProperLaws(Rec.mab, Rec.t)
  /\ Clause("MatchesReference", Rec.mab = RotOf(Rec.t, Rec.ab), <<Rec.t, Rec.ab, Rec.mab>>)
  /\ Consume([rot |-> 1, proper |-> 1, reference |-> 1])

\* evaluate() hands the numpy printer gamma, gamma*beta / cos, sin / b00..b33: they must be the
\* entries of as_explicit() at the places their names say
ArgsOK(t, m, v) ==
  CASE t = "BoostZ" -> Len(v) = 3 /\ v[2] = m[1][1] /\ v[2] = m[4][4] /\ RNeg(v[3]) = m[1][4] /\ RNeg(v[3]) = m[4][1]
                       /\ v[3] = RMul(v[2], v[1]) /\ GammaOK(v[1], v[2])
    [] t = "RotY" -> Len(v) = 2 /\ v[1] = m[2][2] /\ v[1] = m[4][4] /\ v[2] = m[2][4] /\ RNeg(v[2]) = m[4][2]
    [] t = "RotZ" -> Len(v) = 2 /\ v[1] = m[2][2] /\ v[1] = m[3][3] /\ RNeg(v[2]) = m[2][3] /\ v[2] = m[3][2]
    [] t = "Boost" -> Len(v) = 10
                      /\ <<v[1], v[2], v[3], v[4]>> = m[1]
                      /\ <<v[2], v[5], v[6], v[7]>> = m[2]
                      /\ <<v[3], v[6], v[8], v[9]>> = m[3]
                      /\ <<v[4], v[7], v[9], v[10]>> = m[4]
    [] OTHER -> FALSE
TArgs ==
  /\ Rec.k = "args" /\ Same
  /\ Precond("args-shape", IsMatRec(Rec.m) /\ \A i \in 1..Len(Rec.vals) : IsRatRec(Rec.vals[i]), Rec.t)
  /\ Clause("EvaluateAgreesWithExplicit", ArgsOK(Rec.t, Rec.m, Rec.vals), <<Rec.t, Rec.vals>>)
  /\ Consume([args |-> 1])

\* ---- the closeness law for generated numerical code ----------------------------------
\* floor(r 10^12) for a rational 0 <= r < 2147 with denominator < 2 147 483, as two limbs of
\* six decimal digits (long division in base 1000; every intermediate < 2^31)
Dec12(r) ==
  LET d == r[2]
      ip == r[1] \div d   r0 == r[1] % d
      f1 == (r0 * 1000) \div d   r1 == (r0 * 1000) % d
      f2 == (r1 * 1000) \div d   r2 == (r1 * 1000) % d
      f3 == (r2 * 1000) \div d   r3 == (r2 * 1000) % d
      f4 == (r3 * 1000) \div d
  IN  <<ip * 1000000 + f1 * 1000 + f2, f3 * 1000 + f4>>
RAbs(r) == <<Abs(r[1]), r[2]>>
DecFits(r) == r[2] < 2147483 /\ Abs(r[1]) \div r[2] < 2147
\* x = <<sign, hi, lo>> is the observed float, e the exact value; tolerance in units of 10^-12
Close(x, e, tol) ==
  LET q == Dec12(RAbs(e))
      dh == x[1] * x[2] - RSign(e) * q[1]
      dl == x[1] * x[3] - RSign(e) * q[2]
  IN  Abs(dh) <= 1 /\ Abs(dh * 1000000 + dl) <= tol
RECURSIVE ProdM(_, _)
ProdM(ms, k) == IF k = Len(ms) THEN ms[k] ELSE MMul(ms[k], ProdM(ms, k + 1))
RECURSIVE ProdV(_, _, _)
ProdV(ms, k, v) == IF k > Len(ms) THEN v ELSE MVec(ms[k], ProdV(ms, k + 1, v))
IntPart(r) == Abs(r[1]) \div r[2]
VecScale(v) == Max2(Max2(IntPart(v[1]), IntPart(v[2])), Max2(IntPart(v[3]), IntPart(v[4])))
\* relative 10^-12 of the largest expected entry (+1), plus 2 units for the two floor operations
TolOf(scale) == 2 + (scale + 1)

TNum ==
  /\ Rec.k = "num" /\ Same
  /\ Precond("num-shape", Len(Rec.ms) >= 1 /\ \A i \in 1..Len(Rec.ms) : IsMatRec(Rec.ms[i]), Len(Rec.ms))
  /\ IF Rec.raised = 1 THEN Clause("NumericCodeRuns", FALSE, Rec.exc)
     ELSE IF Rec.finite = 0 THEN Clause("NumericFinite", FALSE, Rec.out)
     ELSE IF Rec.hasv = 1
       THEN LET e == ProdV(Rec.ms, 1, Rec.v)
                tol == TolOf(VecScale(e))
            IN  /\ Precond("num-fits", \A i \in Ix : DecFits(e[i]), e)
                /\ Clause("NumericAgrees", Len(Rec.out) = 4 /\ \A i \in Ix : Close(Rec.out[i], e[i], tol), <<e, Rec.out>>)
       ELSE LET e == ProdM(Rec.ms, 1)
                tol == TolOf(Max2(Max2(VecScale(e[1]), VecScale(e[2])), Max2(VecScale(e[3]), VecScale(e[4]))))
            IN  /\ Precond("num-fits", \A i \in Ix : \A j \in Ix : DecFits(e[i][j]), e)
                /\ Clause("NumericAgrees", Len(Rec.out) = 4 /\ \A i \in Ix : Len(Rec.out[i]) = 4 /\ \A j \in Ix : Close(Rec.out[i][j], e[i][j], tol),
                          <<e, Rec.out>>)
  /\ Clause("NumericAgreesPy", Rec.pyok = 1, Rec.pyok)      \* the same comparison done in floating point by the driver
  /\ Consume([num |-> 1, numentries |-> IF Rec.raised = 1 \/ Rec.finite = 0 THEN 0 ELSE IF Rec.hasv = 1 THEN 4 ELSE 16])

\* float-only sample at large beta*gamma: residuals of the laws divided by eps*gamma^2 (the
\* conditioning of 1 - beta^2); the law is that they stay below SampBound
SampBound == 256
TSamp ==
  /\ Rec.k = "samp" /\ Same
  /\ Clause("SampledLaws", Rec.finite = 1 /\ \A i \in 1..Len(Rec.r) : Rec.r[i] >= 0 /\ Rec.r[i] <= SampBound, Rec.r)
  /\ Consume([samp |-> 1])

\* the explicit matrix was not rational on the lattice: the laws are adjudicated numerically
ApproxTol == 10
TApprox ==
  /\ Rec.k = "approx" /\ Same
  /\ Clause("ExplicitLawsNumerically", Rec.finite = 1 /\ \A i \in 1..Len(Rec.r) : Rec.r[i] >= 0 /\ Rec.r[i] <= ApproxTol, Rec.r)
  /\ Consume([approx |-> 1])

------------------------------------------------------------------------------
TraceInit ==
  /\ M = Id /\ p = <<One, Zero, Zero, Zero>> /\ p0 = <<One, Zero, Zero, Zero>> /\ mass = One
  /\ n = 0 /\ prev = Id /\ last = [a |-> "Init", par |-> <<>>]
  /\ l = 1 /\ st = [k \in Counters |-> 0]
  /\ TLCSet(1, FALSE)
TraceNext == l <= Len(Log) /\ (TStart \/ TStep \/ TInv \/ TZag \/ TRot \/ TArgs \/ TNum \/ TSamp \/ TApprox)
TraceSpec == TraceInit /\ [][TraceNext]_tvars
TraceAccepted == TLCGet(1) = TRUE

\* the machine's own invariants hold along every consumed chain (they are about the
\* specification's M, p -- a failure here is a specification error, not a verdict)
TraceInvariants == InvEta /\ InvOrthochronous /\ InvTransport
EmptySet == {}
BigCap == 2147483647
=============================================================================
