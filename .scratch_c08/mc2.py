import sys, time
sys.path.insert(0, "/verif/harness")
from vf import tlc
lat, depth, workers = sys.argv[1], int(sys.argv[2]), int(sys.argv[3])
cfg = f"""SPECIFICATION Spec
CONSTANTS
 Betas <- Betas{lat}
 Angles <- Angles{lat}
 Moms <- Moms{lat}
 Starts <- Starts{lat}
 MaxDepth = {depth}
 RestCap = {sys.argv[4]}
 Cap = {sys.argv[5]}
INVARIANT TypeOK
INVARIANT InvEta
INVARIANT InvDet
INVARIANT InvOrthochronous
INVARIANT InvTransport
INVARIANT InvMass
PROPERTY LawRest
PROPERTY LawInverse
PROPERTY LawParity
PROPERTY LawNegate
PROPERTY LawZAgree
PROPERTY LawRotCompose
CHECK_DEADLOCK FALSE
"""
t=time.time()
try:
    res = tlc.run("Lorentz_MC", cfg, workers=workers, coverage=True, fast_start=False, timeout=3000)
    print(res.ok, res.violated, res.generated, res.distinct, res.depth, res.coverage, round(time.time()-t,1))
    if not res.ok: print("\n".join(res.error_trace[:60]))
except Exception as e:
    print(str(e)[:3000])
