"""C14 / C15 binding for the expression classes.

specification -> code: behaviours of ExprOps over the class-slot universe are executed on
real instances.  A replay assigns one real class (with the real field positions that carry
the model's arguments) to every slot; the real object after every action must equal (==,
hash, srepr, non-SymPy attributes) the object built directly from the specification state,
and its projection must be the specification state.  For unfolded states the specification
state is concretised as  build(folded term).doit().

code -> specification: every discovered class (with every other class nested into every
position) is projected generically (class name, recursive args, non-SymPy attribute
labels); operations are logged as (term, operation, result) records for Trace_Expr."""
from __future__ import annotations

import base64
import dataclasses
import inspect
import json
import pickle
import random
import subprocess
import sys
import time
import warnings

import sympy as sp
from sympy.tensor.array.expressions.array_expressions import ArraySymbol

from . import expr_terms as T
from .core import Machinery, child_env
from .expr_terms import A, AT, H, K

UNINTERPRETED = ("h", "f", "g")


class OpTimeout(BaseException):
    """a real operation exceeded its time limit (ill-typed nestings can loop): never a verdict"""


class time_limit:
    def __init__(self, seconds):
        self.seconds = seconds

    def _raise(self, *_):
        raise OpTimeout()

    def __enter__(self):
        import signal

        self.old = signal.signal(signal.SIGALRM, self._raise)
        signal.setitimer(signal.ITIMER_REAL, self.seconds)

    def __exit__(self, *exc):
        import signal

        signal.setitimer(signal.ITIMER_REAL, 0)
        signal.signal(signal.SIGALRM, self.old)
        return False
SIGS_ORDER = ["10e", "20e", "21e", "22e", "10n", "20n", "11e", "12e", "11n", "12n", "21n", "22n"]


# ---- configuration --------------------------------------------------------------------------
def class_cfg(sigs, *, outer=None, inner=None, init="ClassInit", ctxs="NoTerms", max_ops=1, max_depth=3, nest_anytime=False,
              dev="DevNone", check=True, vary=True, build_d2=True, leafs=("x", "y", "z"), full_quantification=False, mixed=False):
    """sigs: signatures present ('10e', '21e', ...).  Slots 'A'+sig (outer role) and 'B'+sig (inner role)."""
    sigs = sorted(sigs)
    a_slots = ["A" + s for s in sigs]
    b_slots = ["B" + s for s in sigs]
    slots = a_slots + b_slots
    st = lambda xs: "{" + ", ".join(f'"{x}"' for x in xs) + "}"
    outer = a_slots if outer is None else outer
    inner = b_slots if inner is None else inner
    cfg = f"""SPECIFICATION Spec
CONSTANTS
 EvalClasses = {st([s for s in slots if s.endswith("e")])}
 Dev <- {dev}
 InitTerms <- {init}
 Maps <- {"MixMaps" if mixed else "ClassMaps"}
 Pairs <- {"MixPairs" if mixed else "ClassPairs"}
 SubsMaps <- {"MixMaps" if mixed else "NoMaps"}
 Ctxs <- {ctxs}
 VaryArgs <- {"ClassVaryArgs" if vary else "NoTerms"}
 VaryAttrs <- {"ClassVaryAttrs" if vary else "NoLabels"}
 VaryPools <- NoPools
 MaxOps = {max_ops}
 MaxDepth = {max_depth}
 NestAnytime = {"TRUE" if nest_anytime else "FALSE"}
 LeafS = {st(leafs)}
 IdxS = {{}}
 BodyVals = {{}}
 PoolSet <- PoolsSmall
 MaxIdx = 0
 MaxInnerIdx = 0
 BuildD2 = {"TRUE" if build_d2 else "FALSE"}
 SlotsAr1 = {st([s for s in slots if s[1] == "1"])}
 SlotsAr2 = {st([s for s in slots if s[1] == "2"])}
 SlotsNa0 = {st([s for s in slots if s[2] == "0"])}
 SlotsNa1 = {st([s for s in slots if s[2] == "1"])}
 SlotsNa2 = {st([s for s in slots if s[2] == "2"])}
 OuterSlots = {st(outer)}
 InnerSlots = {st(inner)}
CHECK_DEADLOCK FALSE
"""
    if check:
        cfg += "INVARIANT InvLaws\nINVARIANT InvWellFormed\nINVARIANT InvFree\nPROPERTY StutterProp\nPROPERTY FreeProp\n"
    if full_quantification:
        from .expr_pool import FULL_QUANTIFICATION

        cfg += FULL_QUANTIFICATION
    return cfg


# ---- assignment of real classes to slots ---------------------------------------------------------
class Assignment:
    def __init__(self, slots, flavour="symbol"):
        """slots: slot name -> (Embedding, active positions tuple)"""
        self.slots = slots
        self.flavour = flavour

    def leaf(self, name):
        if self.flavour == "array":
            return ArraySymbol(name, shape=[])
        return sp.Symbol(name)

    def concretise(self, t):
        k = t[K]
        if k == "leaf":
            return self.leaf(t[H])
        if k == "val":
            return T.rational(t[H])
        if k == "node":
            args = [self.concretise(y) for y in t[A]]
            if t[H] in self.slots:
                emb, active = self.slots[t[H]]
                return emb.build(args, t[AT], active[: len(args)])
            if t[H] in UNINTERPRETED:
                return sp.Function(t[H])(*args)
            raise Machinery(f"no class assigned to slot {t[H]}")
        if k == "unf":
            return self.concretise(refold(t)).doit()
        if k == "pool":
            from ampform.sympy import PoolSum

            return PoolSum(self.concretise(t[A][0]), *[(sp.Symbol(s_), tuple(T.rational(v) for v in vs)) for s_, vs in t[T.IX]])
        if k == "sum":
            return sp.Add(*[c * self.concretise(e) for e, c in t[T.BG]])
        raise Machinery(f"cannot concretise a {k} term in the class universe")

    def project(self, e):
        """inverse of concretise on folded objects; None where the object has left the embedded shape"""
        if isinstance(e, (sp.Symbol, ArraySymbol)) and not isinstance(e, sp.Dummy):
            name = e.name if isinstance(e, (sp.Symbol, ArraySymbol)) else str(e)
            return T.leaf(str(name))
        if isinstance(e, sp.Rational):
            return T.val(T._val_label(e))
        for slot, (emb, active) in self.slots.items():
            if type(e) is emb.cls:
                # several slots may hold the same class (self-nesting): take the first whose shape matches
                p = emb.parts(e, active[: emb.ar])
                if p is None:
                    continue
                args, labels = p
                sub = [self.project(a) for a in args]
                if any(s is None for s in sub):
                    return None
                return T.node(slot, sub, labels)
        if isinstance(e, sp.core.function.AppliedUndef) and e.func.__name__ in UNINTERPRETED:
            sub = [self.project(a) for a in e.args]
            return None if any(s is None for s in sub) else T.node(e.func.__name__, sub)
        if type(e).__name__ == "PoolSum":
            body = self.project(e.args[0])
            if body is None:
                return None
            ix = []
            for entry in e.args[1:]:
                s_, vs = entry
                if not isinstance(s_, sp.Symbol) or not all(isinstance(v, sp.Rational) for v in vs):
                    return None
                ix.append((s_.name, tuple(T._val_label(v) for v in vs)))
            return T.pool(body, ix)
        return None

    def canon(self, t):
        """slot names replaced by what they stand for (two slots may hold the same class)"""
        h = t[H]
        args = tuple(self.canon(y) for y in t[A])
        if t[K] in ("node", "unf") and h in self.slots:
            emb, active = self.slots[h]
            h = emb.qualname
            args = tuple(sorted(zip(active[: len(args)], args), key=lambda p: p[0]))
        return (t[K], h, args, t[AT], t[T.IX], t[T.BG])

    def describe(self):
        return {s: {"class": emb.qualname, "positions": list(active)} for s, (emb, active) in self.slots.items()} | {"leaves": self.flavour}

    def to_json(self):
        return {"flavour": self.flavour, "slots": {s: [emb.qualname, list(active)] for s, (emb, active) in self.slots.items()}}

    @staticmethod
    def from_json(j, by_qualname):
        return Assignment({s: (by_qualname[q], tuple(act)) for s, (q, act) in j["slots"].items()}, j["flavour"])


def refold(t):
    return (("node" if t[K] == "unf" else t[K]), t[H], tuple(refold(y) for y in t[A]), t[AT], t[T.IX], t[T.BG])


def slots_in(t):
    return {h for h in T.heads(t) if len(h) == 4 and h[0] in "AB"}


# ---- comparison with adjudication ---------------------------------------------------------------
def canon_dummies(e):
    """rename Dummy symbols by order of first appearance (evaluate() creates fresh dummies)"""
    dummies = []
    for s in sp.preorder_traversal(e):
        if isinstance(s, sp.Dummy) and s not in dummies:
            dummies.append(s)
    if not dummies:
        return e
    return e.xreplace({d: sp.Symbol(f"_dummy{n}", **d.assumptions0) for n, d in enumerate(dummies)})


def same_object(a, b):
    try:
        return type(a) is type(b) and a == b and hash(a) == hash(b) and sp.srepr(a) == sp.srepr(b)
    except Exception:  # noqa: BLE001
        return False


def equal_expr(a, b, rng):
    """'equal' for unfolded expressions: structurally, up to dummy renaming, after a further doit(),
    or numerically on seeded points.  -> (verdict in {True, False, None}, how)"""
    if a == b:
        return True, "=="
    try:
        ca, cb = canon_dummies(a), canon_dummies(b)
        if ca == cb:
            return True, "dummy-renaming"
        da, db = canon_dummies(ca.doit()), canon_dummies(cb.doit())
        if da == db:
            return True, "second-doit"
    except Exception:  # noqa: BLE001
        da, db = a, b
    try:
        syms = sorted((da.free_symbols | db.free_symbols), key=str)
        if any(not isinstance(s, sp.Symbol) for s in syms):
            return None, "array-symbols"
        agree = 0
        for _ in range(3):
            vals = {s: sp.Float(rng.uniform(1.1, 2.9)) + sp.I * sp.Float(rng.uniform(0.1, 0.9)) for s in syms}
            va = complex(sp.N(da.subs(vals), 30))
            vb = complex(sp.N(db.subs(vals), 30))
            if va != va or vb != vb:
                return None, "nan"
            if abs(va - vb) <= 1e-9 * max(1.0, abs(va), abs(vb)):
                agree += 1
            else:
                return False, f"numeric {va} vs {vb} at {vals}"
        return (True, "numeric") if agree == 3 else (None, "numeric-undecided")
    except Exception as e:  # noqa: BLE001
        return None, f"not-evaluable:{type(e).__name__}"


def mismatch_pattern(got, want):
    """name the mechanism of a structural mismatch between two folded objects"""
    def n_tuples(e):
        n = 0
        for f in (dataclasses.fields(e) if dataclasses.is_dataclass(e) else ()):
            if isinstance(getattr(e, f.name, None), tuple):
                n += 1
        for a in getattr(e, "args", ()):
            if isinstance(a, (tuple, sp.Tuple)):
                n += 1
            if isinstance(a, sp.Basic):
                n += n_tuples(a)
        return n

    if type(got) is not type(want):
        return "class-changed"
    if n_tuples(got) > n_tuples(want):
        return "nested-argument-flattened-to-tuple"
    if dataclasses.is_dataclass(want):
        for f in dataclasses.fields(want):
            if not f.metadata.get("sympify", True):
                a, b = getattr(got, f.name, "<missing>"), getattr(want, f.name, "<missing>")
                if a is not b and a != b:
                    return "non-sympy-attribute-changed"
    if hasattr(want, "_name") and getattr(got, "_name", "<missing>") != want._name:
        return "non-sympy-attribute-changed"
    if getattr(got, "args", None) == getattr(want, "args", None):
        return "equal-args-but-unequal"
    if attr_loss_site(got, want) is not None:
        return "non-sympy-attribute-changed"
    return "arguments-differ"


# ---- the replayer -----------------------------------------------------------------------------------
class ClassReplayer:
    def __init__(self, chk, mode="c14", doit_budget_s=1e9, eval_classes=()):
        self.eval_classes = tuple(eval_classes)
        self.chk = chk
        self.mode = mode  # "c14": all laws; "c15": pickle law only
        self.rng = random.Random(chk.seed + 17)
        self.steps = 0
        self.by_action = {}
        self.states = 0
        self.diamonds = {"==": 0}
        self.undefined = 0
        self.skipped_not_constructible = 0
        self.pickle_jobs = []  # for the fresh-process check
        self.pickled = 0
        self.covered_outer, self.covered_inner, self.covered_triples = set(), set(), set()
        self.doit_deadline = time.time() + doit_budget_s
        self.eq_pairs = 0

    def v(self, sig, detail, case):
        self.chk.violation(sig, detail, case)

    def c14(self):
        return self.mode == "c14"

    # -- one behaviour ---------------------------------------------------------------------------
    def replay(self, beh, asg, focus=None, limit_s=20):
        try:
            with time_limit(limit_s):
                return self._replay(beh, asg, focus)
        except OpTimeout:
            self.timeouts = getattr(self, "timeouts", 0) + 1
            return True, "time limit"

    def _replay(self, beh, asg, focus=None):
        cur = T.from_tla(beh[0]["state"]["cur"])
        try:
            with warnings.catch_warnings():
                warnings.simplefilter("ignore")
                real = asg.concretise(cur)
        except Machinery:
            raise
        except Exception as e:  # noqa: BLE001
            self.skipped_not_constructible += 1
            return False, f"initial term not constructible: {e!r}"
        hist = [("Init", T.show(cur))]
        ctx = {"assignment": asg.describe(), "focus": focus}
        self.observe(real, cur, asg, hist, ctx)
        for step in beh[1:]:
            act, args, st = step["action"], step["args"], step["state"]
            nxt = T.from_tla(st["cur"])
            self.steps += 1
            self.by_action[act] = self.by_action.get(act, 0) + 1
            hist = hist + [(act, self.show_args(act, args))]
            case = {"history": hist, "before": T.show(cur), "expected": T.show(nxt), "object": describe(real), **ctx}
            try:
                with warnings.catch_warnings():
                    warnings.simplefilter("ignore")
                    want = asg.concretise(nxt)
            except Machinery:
                raise
            except Exception as e:  # noqa: BLE001
                want, want_exc = None, e
            try:
                with warnings.catch_warnings():
                    warnings.simplefilter("ignore")
                    # (PoolSum.cleanup is C18's business: the step is taken from the specification state)
                    got = want if act.startswith("Vary") or act in ("Nest", "CleanupA") else self.apply(act, args, real, asg)
                    if act == "Nest":
                        got = self.nest(T.from_tla(args[0]), real, asg)
            except Exception as e:  # noqa: BLE001
                if want is None or cur[K] == "unf" or act == "DoitA":
                    # ill-typed nesting: undefined on the direct construction too (or unfolding raises)
                    self.undefined += 1
                    if want is None:
                        return True, "left the constructible terms"
                    real, cur = want, nxt
                    continue
                if self.c14() or act == "PickleA":
                    self.v(f"unevaluated.{self.opname(act)}:raises-{type(e).__name__}",
                           f"{type(real).__name__}: {self.opname(act)}{hist[-1][1]} raised {e!r} on {real!r}", case)
                real, cur = want, nxt
                continue
            if want is None:
                self.undefined += 1
                return True, "left the constructible terms"
            if act in ("Xreplace", "Subs", "SubsMap") and self.aliased(act, args, cur, asg):
                # two slots hold the same class: terms the specification distinguishes are one real object
                self.aliased_steps = getattr(self, "aliased_steps", 0) + 1
                real, cur = want, nxt
                continue
            ok = self.compare(act, args, real, cur, got, want, nxt, asg, case)
            real = got if ok else want
            cur = nxt
            self.observe(real, cur, asg, hist, ctx)
        self.chk.count(1)
        return True, ""

    @staticmethod
    def opname(act):
        return {"Xreplace": "xreplace", "Subs": "subs", "SubsMap": "subs", "DoitA": "doit", "RebuildA": "rebuild", "PickleA": "pickle",
                "Nest": "__new__", "CleanupA": "cleanup"}.get(act, "__eq__")

    @staticmethod
    def show_args(act, args):
        if act in ("Xreplace", "SubsMap"):
            return {T.show(k): T.show(r) for k, r in T.map_from_tla(args[0])}
        if act == "Subs":
            return [T.show(T.from_tla(args[0])), T.show(T.from_tla(args[1]))]
        if act == "Nest":
            return T.show(T.from_tla(args[0]))
        if act == "VaryArg":
            return [int(args[0]), T.show(T.from_tla(args[1]))]
        if act == "VaryAttr":
            return [int(args[0]), str(args[1])]
        return ""

    def real_map(self, act, args, asg):
        m = T.map_from_tla(args[0]) if act in ("Xreplace", "SubsMap") else ((T.from_tla(args[0]), T.from_tla(args[1])),)
        return {asg.concretise(k): asg.concretise(r) for k, r in m}

    def aliased(self, act, args, cur, asg):
        m = T.map_from_tla(args[0]) if act in ("Xreplace", "SubsMap") else ((T.from_tla(args[0]), T.from_tla(args[1])),)
        keys = [k for k, _ in m if k[K] == "node"]
        if not keys:
            return False
        real_keys = [asg.concretise(k) for k in keys]
        for s_ in subterms(cur):
            if s_[K] == "node" and s_ not in keys:
                try:
                    if asg.concretise(s_) in real_keys:
                        return True
                except Exception:  # noqa: BLE001
                    return True
        return False

    def bound_key_in_map(self, act, args, real, asg):
        rm = self.real_map(act, args, asg)
        bound = set()
        for a in sp.preorder_traversal(real):
            if type(a).__name__ == "PoolSum":
                bound |= {entry[0] for entry in a.args[1:]}
        return bool(bound & set(rm))

    def subst(self, act, obj, rm):
        if act == "Xreplace":
            return obj.xreplace(rm)
        if act == "SubsMap":
            return obj.subs(dict(rm))
        ((k, r),) = rm.items()
        return obj.subs(k, r)

    def apply(self, act, args, real, asg):
        if act in ("Xreplace", "Subs", "SubsMap"):
            return self.subst(act, real, self.real_map(act, args, asg))
        if act == "DoitA":
            return real.doit()
        if act == "RebuildA":
            return real.func(*real.args)
        if act == "PickleA":
            return pickle.loads(pickle.dumps(real))
        raise ValueError(f"unknown action {act}")

    def nest(self, ctx, real, asg):
        if ctx[K] == "leaf" and ctx[H] == "_":
            return real
        if ctx[K] == "leaf":
            return asg.leaf(ctx[H])
        if ctx[K] == "node":
            args = [self.nest(y, real, asg) for y in ctx[A]]
            emb, active = asg.slots[ctx[H]]
            return emb.build(args, ctx[AT], active[: len(args)])
        raise ValueError(ctx[K])

    # -- comparison of one step -------------------------------------------------------------------------
    def compare(self, act, args, real, cur, got, want, nxt, asg, case):
        cname = type(real).__name__
        op = self.opname(act)
        folded = nxt[K] != "unf" and "unf" not in {s[K] for s in subterms(nxt)}
        if act == "CleanupA":
            return True
        if act.startswith("Vary"):
            # the neighbour differs in exactly one argument / one non-SymPy attribute
            if self.c14():
                self.eq_pairs += 1
                try:
                    eq, heq = (real == want), (hash(real) == hash(want))
                except Exception as e:  # noqa: BLE001
                    self.v(f"unevaluated.__eq__:raises-{type(e).__name__}", f"{real!r} == {want!r}: {e!r}", case)
                    return True
                what = "non-SymPy attribute" if act == "VaryAttr" else "argument"
                if eq:
                    self.v(f"unevaluated.__eq__:instances-differing-in-one-{what.replace(' ', '-')}-compare-equal",
                           f"{cname}: {describe(real)} == {describe(want)} although one {what} differs", case)
                elif heq:
                    self.v(f"unevaluated.__hash__:instances-differing-in-one-{what.replace(' ', '-')}-hash-alike",
                           f"{cname}: hash({describe(real)}) == hash({describe(want)}) although one {what} differs", case)
            return True
        if act in ("PickleA", "RebuildA") and not folded:
            # an unfolded expression may contain forms SymPy re-canonicalises on reconstruction: value, not shape
            if not same_object(got, real):
                verdict, how = equal_expr(got, real, self.rng)
                self.recanonicalised = getattr(self, "recanonicalised", 0) + 1
                if verdict is False:
                    self.v(f"unevaluated.{op}-of-unfolded-expression:value-changed", f"{real!r} -> {got!r} ({how})", case)
                    return False
            return True
        if act in ("PickleA", "RebuildA"):
            same = same_object(got, real) and attrs_equal(got, real)
            if not same and (act == "PickleA" or self.c14()):
                pat = mismatch_pattern(got, real)
                self.v(f"unevaluated.{op}:{pat}", f"{cname}: {op} of {describe(real)} gave {describe(got)}", case)
                return False
            if act == "PickleA":
                self.pickled += 1
            return True
        if folded:
            if same_object(got, want) and attrs_equal(got, want):
                proj = asg.project(got)
                if proj is not None and asg.canon(proj) != asg.canon(nxt) and self.c14():
                    raise Machinery(f"projection of {got!r} is {T.show(proj)}, specification state {T.show(nxt)}: harness projection error")
                if act in ("Xreplace", "Subs", "SubsMap") and self.c14():
                    self.diamond(act, args, real, got, asg, case)
                return True
            proj = asg.project(got)
            if proj is not None and asg.canon(proj) == asg.canon(nxt):
                # the model part of the object is the specification state; only what a helper class derives from its
                # arguments at construction (e.g. slice bounds normalised with the parent's shape) differs: ill-typed nesting
                self.derived_part_differs = getattr(self, "derived_part_differs", 0) + 1
                return False
            if self.c14() and act in ("Xreplace", "Subs", "SubsMap") and self.bound_key_in_map(act, args, real, asg):
                # a map that contains a summation index of a (nested) PoolSum: the index part must not matter,
                # the rest of the map must still be applied
                what = "whole-map-discarded" if got == real else "result-differs"
                self.v(f"PoolSum.{op}:map-with-bound-index-and-free-symbol:{what}",
                       f"{describe(real)}.{op}({case['history'][-1][1]}) = {describe(got)}, the specification requires {describe(want)} "
                       "(a summation index in the map must not prevent the substitution of free symbols)", case)
                return False
            if self.c14():
                pat = mismatch_pattern(got, want)
                sig = f"unevaluated.{op}:{pat}" + (f":{cname}" if pat in ("arguments-differ", "equal-args-but-unequal") else "")
                culprit = attr_loss_site(got, want)
                if culprit is not None:
                    sig = SIG_LEGACY_NAME if culprit == "legacy" else f"unevaluated.{op}:non-sympy-attribute-changed"
                self.v(sig, f"{cname}: {describe(real)}.{op}({case['history'][-1][1]}) = {describe(got)}, the specification requires {describe(want)}", case)
            return False
        # unfolded state: equality up to dummy renaming / numerically
        if not self.c14():
            return True
        if act == "DoitA" and self.eval_classes:
            # ~Folded(Doit(t)): no instance of a class with evaluate() is left after doit()
            left = next((a for a in sp.preorder_traversal(got) if isinstance(a, self.eval_classes)), None)
            if left is not None:
                self.v("unevaluated.doit:not-fully-unfolded",
                       f"{describe(real)}.doit() = {got!r} still contains the foldable {type(left).__name__} instance {left!r}", case)
                return False
        verdict, how = equal_expr(got, want, self.rng)
        self.diamonds[how] = self.diamonds.get(how, 0) + 1
        if verdict is False:
            self.v(f"unevaluated.{op}-after-doit:differs-from-unfolding-of-the-specification-term:{cname}",
                   f"{case['history']}: got {got!r}, expected {want!r} ({how})", case)
            return False
        return True

    def diamond(self, act, args, real, got, asg, case):
        """den' = Subst(den, m) on real objects: unfold-then-substitute == substitute-then-unfold"""
        if time.time() > self.doit_deadline:
            return
        emb_has_eval = callable(getattr(type(real), "evaluate", None)) or any(callable(getattr(type(a), "evaluate", None)) for a in sp.preorder_traversal(real))
        if not emb_has_eval:
            return
        rm = self.real_map(act, args, asg)
        if not all(isinstance(k, (sp.Symbol, ArraySymbol)) for k in rm):
            return  # LeafKeyed(m): a compound key does not survive unfolding, the law is about symbol keys
        # doit().xreplace(m restricted to the free symbols) on the unfold-first side: keys that only occur bound
        # (summation indices) must not matter
        try:
            free = set(real.free_symbols) | {a for a in sp.preorder_traversal(real) if isinstance(a, ArraySymbol)}
        except Exception:  # noqa: BLE001
            free = set(rm)
        rm_free = {k: v for k, v in rm.items() if k in free}
        try:
            with warnings.catch_warnings():
                warnings.simplefilter("ignore")
                d0 = real.doit()
                d1 = got.doit()
                d0m = self.subst("Xreplace" if act != "Subs" or len(rm_free) != 1 else act, d0, rm_free) if rm_free else d0
        except Exception:  # noqa: BLE001
            self.undefined += 1
            return
        verdict, how = equal_expr(d1, d0m, self.rng)
        self.diamonds[how] = self.diamonds.get(how, 0) + 1
        if verdict is False:
            op = self.opname(act)
            self.v(f"unevaluated.{op}-doit-diamond:{type(real).__name__}",
                   f"{describe(real)}: {op}({case['history'][-1][1]}) then doit() = {d1!r}, doit() then {op} = {d0m!r} ({how})", case)
        elif verdict is None:
            self.undecided = getattr(self, "undecided", 0) + 1

    # -- observations in a state ------------------------------------------------------------------------------
    def observe(self, real, cur, asg, hist, ctx):
        self.states += 1
        self.chk.nontrivial(("cls", tuple(sorted((s, e.name, a) for s, (e, a) in asg.slots.items() if s in slots_in(cur))), cur))
        folded = "unf" not in {s[K] for s in subterms(cur)}
        if not folded:
            return
        case = {"history": hist, "term": T.show(cur), **ctx}
        # C15 on every folded state: pickle round trip in-process, and queued for the fresh interpreter
        try:
            blob = pickle.dumps(real)
            back = pickle.loads(blob)
        except Exception as e:  # noqa: BLE001
            self.v(f"unevaluated.pickle:raises-{type(e).__name__}", f"{describe(real)}: {e!r}", case)
            return
        if not (same_object(back, real) and attrs_equal(back, real)):
            self.v(f"unevaluated.pickle:{mismatch_pattern(back, real)}", f"pickle round trip of {describe(real)} gave {describe(back)}", case)
        self.pickled += 1
        if len(self.pickle_jobs) < 4000 and cur[K] == "node":
            self.pickle_jobs.append({"blob": base64.b64encode(blob).decode(), "term": T.to_json(cur), "asg": asg.to_json(),
                                     "srepr": sp.srepr(real), "shown": describe(real), "hist": hist})
        if self.c14() and cur[K] == "node":
            # free symbols of a folded instance: the model's leaves plus the fillers, nothing else
            emb = asg.slots.get(cur[H])
            if emb is not None and emb[0].all_sympy() and emb[0].kind != "helper":
                try:
                    rb = real.func(*real.args)
                    if not same_object(rb, real):
                        self.v(f"unevaluated.rebuild:{mismatch_pattern(rb, real)}", f"{describe(real)}.func(*args) = {describe(rb)}", case)
                except Exception as e:  # noqa: BLE001
                    self.v(f"unevaluated.rebuild:raises-{type(e).__name__}", f"{describe(real)}.func(*args): {e!r}", case)


def subterms(t):
    yield t
    for y in t[A]:
        yield from subterms(y)
    for e, _ in t[T.BG]:
        yield from subterms(e)


def attrs_equal(a, b):
    if type(a) is not type(b):
        return False
    names = []
    if dataclasses.is_dataclass(a):
        names = [f.name for f in dataclasses.fields(a) if not f.metadata.get("sympify", True)]
    elif hasattr(a, "_name"):
        names = ["_name"]
    for n in names:
        x, y = getattr(a, n, "<missing>"), getattr(b, n, "<missing>")
        if not (x is y or (type(x) is type(y) and x == y)):
            return False
    # nested instances
    return all(attrs_equal(x, y) for x, y in zip(getattr(a, "args", ()), getattr(b, "args", ())) if isinstance(x, sp.Basic))


def attr_loss_site(got, want):
    """the first node (top-down) whose non-SymPy attributes differ although class and shape agree:
    'legacy' for the deprecated UnevaluatedExpression API (attribute _name), 'decorated' otherwise"""
    if type(got) is not type(want) or not isinstance(want, sp.Basic):
        return None
    if dataclasses.is_dataclass(want):
        for f in dataclasses.fields(want):
            if not f.metadata.get("sympify", True):
                a, b = getattr(got, f.name, "<missing>"), getattr(want, f.name, "<missing>")
                if not (a is b or (type(a) is type(b) and a == b)):
                    return "decorated"
    elif hasattr(want, "_name") and getattr(got, "_name", "<missing>") != want._name:
        return "legacy"
    if len(got.args) != len(want.args):
        return None
    for x, y in zip(got.args, want.args):
        r = attr_loss_site(x, y)
        if r is not None:
            return r
    return None


def describe(e):
    """repr with the non-SymPy attributes made visible"""
    if not isinstance(e, sp.Basic):
        return repr(e)
    extra = ""
    if dataclasses.is_dataclass(e):
        names = [f.name for f in dataclasses.fields(e) if not f.metadata.get("sympify", True)]
        if names:
            extra = "{" + ", ".join(f"{n}={getattr(getattr(e, n, None), '__name__', getattr(e, n, '<missing>'))!r}" for n in names) + "}"
    elif hasattr(e, "_name"):
        extra = "{" + f"name={e._name!r}" + "}"
    if isinstance(e, (sp.Symbol, sp.Number, ArraySymbol)) or not e.args:
        return str(e)
    return f"{type(e).__name__ if not isinstance(e, sp.core.function.AppliedUndef) else e.func.__name__}({', '.join(describe(a) for a in e.args)}){extra}"


# ---- generic projection for the code -> specification direction ----------------------------------------
def attr_label(v):
    if v is None:
        return "None"
    if isinstance(v, str):
        return "s:" + v
    if inspect.isclass(v):
        return "c:" + v.__module__ + "." + v.__qualname__
    if isinstance(v, (tuple, list)):
        return "t:" + repr(v)
    return "r:" + repr(v)


def project_generic(e):
    if isinstance(e, sp.Dummy):
        return T.leaf(f"{e.name}_{e.dummy_index}")
    if isinstance(e, sp.Symbol):
        return T.leaf(e.name)
    if isinstance(e, ArraySymbol):
        return T.leaf("arr:" + str(e.name))
    if isinstance(e, sp.Rational):
        return T.val(T._val_label(e))
    if type(e).__name__ == "PoolSum" and all(isinstance(en[0], sp.Symbol) and all(isinstance(v, sp.Rational) for v in en[1]) for en in e.args[1:]) \
            and len({en[0] for en in e.args[1:]}) == len(e.args) - 1:
        # a binder: the trace specification must know which symbols are summation indices
        return T.pool(project_generic(e.args[0]), [(en[0].name, tuple(T._val_label(v) for v in en[1])) for en in e.args[1:]])
    if isinstance(e, sp.Basic):
        at = ()
        if dataclasses.is_dataclass(e):
            at = tuple(f.name + "=" + attr_label(getattr(e, f.name, "<missing>")) for f in dataclasses.fields(e) if not f.metadata.get("sympify", True))
        elif hasattr(e, "_name"):
            at = ("_name=" + attr_label(e._name),)
        if isinstance(e, sp.core.function.AppliedUndef):
            head = e.func.__name__
        else:
            head = type(e).__name__
        return T.node(head, [project_generic(a) for a in e.args], at)
    if isinstance(e, tuple):
        return T.node("pytuple", [project_generic(a) for a in e])
    return T.node("py:" + type(e).__name__ + ":" + repr(e), [])


# ---- fresh-interpreter pickle check --------------------------------------------------------------------
def fresh_process_check(jobs, hashseed):
    """Load the pickles in a fresh interpreter with another hash seed, compare with objects built there
    from the specification term; also pickle the child's own objects for the way back."""
    if not jobs:
        return []
    payload = json.dumps({"jobs": [{k: j[k] for k in ("blob", "term", "asg", "srepr")} for j in jobs]})
    p = subprocess.run([sys.executable, "-m", "vf.expr_child", "classes"], input=payload, capture_output=True, text=True,
                       env=child_env(hashseed), timeout=3000)
    if p.returncode != 0:
        raise Machinery(f"fresh-interpreter pickle check failed to run:\n{p.stderr[-3000:]}")
    return json.loads(p.stdout)["results"]


# ---- driving the replays: buckets, triples, assignments -------------------------------------------------
def sig_buckets(embs):
    by_sig = {}
    for e in embs:
        by_sig.setdefault(e.sig, []).append(e)
    return by_sig


def simulate_buckets(sigs, *, per_outer, depth, seed, jobs=5, leafs=("x", "y", "z")):
    """behaviours starting from nested terms, one TLC -simulate run per outer signature (so that rare
    signature combinations are not starved), plus one run from the un-nested terms"""
    from concurrent.futures import ThreadPoolExecutor

    from . import tlc

    runs = []
    for so in sigs:
        cfg = class_cfg(sigs, outer=["A" + so], init="ClassInitD2", ctxs="ClassCtxs", max_ops=5, max_depth=3, nest_anytime=True,
                        check=False, leafs=leafs)
        runs.append((cfg, per_outer, seed * 100 + len(runs)))
    runs.append((class_cfg(sigs, init="ClassInitD1", ctxs="ClassCtxs", max_ops=5, max_depth=3, nest_anytime=True, check=False, leafs=leafs),
                 per_outer, seed * 100 + 99))
    # the inner signatures with the fewest terms (one SymPy argument, no attribute) would be starved by uniform sampling
    rare = ["B" + s for s in sigs if s[:2] == "10"]
    if rare:
        runs.append((class_cfg(sigs, inner=rare, init="ClassInitD2", ctxs="ClassCtxs", max_ops=5, max_depth=3, nest_anytime=True,
                               check=False, leafs=leafs), 2 * per_outer, seed * 100 + 98))
    with ThreadPoolExecutor(max_workers=jobs) as ex:
        futs = [ex.submit(tlc.simulate, "ExprOps_MC", cfg, num=n, depth=depth, seed=sd, timeout=900) for cfg, n, sd in runs]
        behs = []
        for f in futs:
            behs.extend(f.result())
    return behs


def nesting_of(t):
    """(outer slot, model position of the nested node, inner slot) of a term Node(outer, .. Node(inner) ..)"""
    if t[K] != "node":
        return None
    for pos, a in enumerate(t[A]):
        if a[K] == "node" and a[H][:1] in "AB" and len(a[H]) == 4:
            return t[H], pos, a[H]
    return t[H], None, None


def bucket_behaviours(behs):
    buckets = {}
    for b in behs:
        cur = T.from_tla(b[0]["state"]["cur"])
        nest = nesting_of(cur)
        if nest is None:
            continue
        o, pos, i = nest
        buckets.setdefault((o[1:], i[1:] if i else None), []).append((b, o, pos, i))
    return buckets


def pick_active(emb, rng):
    if emb.builder is not None:
        return tuple(range(emb.ar))
    return tuple(rng.sample(emb.expr_positions, emb.ar))


def default_assignment(by_sig, rng, sigs, flavour="symbol"):
    slots = {}
    for s in sigs:
        for role in "AB":
            emb = rng.choice(by_sig[s])
            slots[role + s] = (emb, pick_active(emb, rng))
    return Assignment(slots, flavour)


def assignment_for(by_sig, rng, sigs, outer_emb, real_pos, model_pos, outer_slot, inner_emb, inner_slot, flavour):
    asg = default_assignment(by_sig, rng, sigs, flavour)
    if outer_emb is not None:
        if outer_emb.builder is None:
            others = [p for p in outer_emb.expr_positions if p != real_pos]
            if outer_emb.ar == 1:
                active = (real_pos,)
            else:
                other = rng.choice(others)
                active = (real_pos, other) if model_pos in (0, None) else (other, real_pos)
        else:
            active = tuple(range(outer_emb.ar))
        asg.slots[outer_slot] = (outer_emb, active)
    if inner_emb is not None and inner_slot is not None:
        asg.slots[inner_slot] = (inner_emb, pick_active(inner_emb, rng))
    return asg


def flavour_for(emb, rng):
    if emb is not None and ("kinematics.lorentz" in emb.qualname or "kinematics.angles" in emb.qualname or "_array_expressions" in emb.qualname):
        return rng.choice(["array", "symbol"])
    return "symbol"


def all_triples(embs):
    out = []
    for c in embs:
        for p in c.expr_positions:
            for d in embs:
                out.append((c, p, d))
    return out


def run_replays(rep, embs, behs, rng, *, budget_s, exhaustive_triples, limit_s=20):
    """cover every class as outer and as inner first, then triples (class, position, nested class)"""
    by_sig = sig_buckets(embs)
    sigs = sorted(by_sig)
    buckets = bucket_behaviours(behs)
    t_end = time.time() + budget_s
    notes = {"no_behaviour_for_bucket": set()}

    def one(c, p, d):
        key = (c.sig, d.sig if d is not None else None)
        cands = buckets.get(key)
        if not cands:
            notes["no_behaviour_for_bucket"].add(str(key))
            return
        beh, oslot, mpos, islot = rng.choice(cands)
        asg = assignment_for(by_sig, rng, sigs, c, p, mpos, oslot, d, islot, flavour_for(c, rng))
        ok, why = rep.replay(beh, asg, focus=[c.name, p, d.name if d else None], limit_s=limit_s)
        if ok:
            rep.covered_outer.add(c.name)
            if d is not None:
                rep.covered_inner.add(d.name)
                rep.covered_triples.add((c.name, p, d.name))

    # every class un-nested
    for c in embs:
        one(c, 0, None)
    triples = all_triples(embs)
    rng.shuffle(triples)
    if not exhaustive_triples:
        # first: every class once as outer (random position/inner) and once as inner
        first = []
        for c in embs:
            first.append(next(t for t in triples if t[0] is c))
            first.append(next(t for t in triples if t[2] is c))
        triples = first + [t for t in triples if t not in first]
    done = 0
    for c, p, d in triples:
        if time.time() > t_end and done >= 2 * len(embs):
            break
        one(c, p, d)
        done += 1
    return {"triples_total": len(all_triples(embs)), "triples_replayed": len(rep.covered_triples), "classes_as_outer": len(rep.covered_outer),
            "classes_as_inner": len(rep.covered_inner), "buckets": {str(k): len(v) for k, v in buckets.items()},
            "no_behaviour_for_bucket": sorted(notes["no_behaviour_for_bucket"])}


# ---- code -> specification: operation records over every discovered class --------------------------------
def class_trace_records(embs, rng, *, nest_samples, start_id=0):
    """For every class (un-nested, and with other classes nested into its positions): run subs / xreplace /
    pickle / rebuild / == on the real instance and log (projected operand, operation, projected result)."""
    x, y, z, w = sp.symbols("x y z w")
    hfun = sp.Function("h")
    recs, ctx, samples = [], {}, []
    rid = start_id

    def add(rec, **info):
        nonlocal rid
        rec["id"] = rid
        ctx[rid] = info
        recs.append(rec)
        rid += 1

    def instance(c, p=None, d=None):
        args = [x, y][: c.ar]
        active = tuple(range(c.ar))
        if c.builder is None:
            pool = list(range(c.n_positions))
            if p is not None:
                pool.remove(p)
                active = (p, *rng.sample(pool, c.ar - 1))
            else:
                active = tuple(rng.sample(pool, c.ar))
        if d is not None:
            dact = tuple(rng.sample(range(d.n_positions), d.ar)) if d.builder is None else tuple(range(d.ar))
            inner = d.build([x, z][: d.ar], tuple(rng.choice("ab") for _ in range(d.na)), dact)
            args[0] = inner
        return c.build(args, tuple(rng.choice("ab") for _ in range(c.na)), active), active

    cases = [(c, None, None) for c in embs]
    trip = all_triples(embs)
    rng.shuffle(trip)
    cases += trip[:nest_samples]
    for c, p, d in cases:
        try:
            with warnings.catch_warnings():
                warnings.simplefilter("ignore")
                with time_limit(10):
                    obj, active = instance(c, p, d)
        except (Exception, OpTimeout):  # noqa: BLE001
            continue
        t = project_generic(obj)
        tj = T.to_json(t)
        inner = next((a for a in obj.args if isinstance(a, sp.Basic) and str(type(a).__module__).startswith(("ampform", "vf."))), None)
        maps = [({x: w}, "subs"), ({x: w}, "xreplace"), ({x: hfun(w)}, "subs"), ({x: y, y: x}, "xreplace"), ({w: x}, "xreplace"), ({z: w, x: z}, "xreplace")]
        if inner is not None:
            maps.append(({inner: w}, "xreplace"))  # compound keys: xreplace only (subs pattern-matches)
        for m, op in maps:
            try:
                with warnings.catch_warnings():
                    warnings.simplefilter("ignore")
                    with time_limit(10):
                        if op == "subs":
                            ((k, r),) = m.items()
                            res = obj.subs(k, r)
                        else:
                            res = obj.xreplace(m)
            except OpTimeout:
                continue
            except Exception as e:  # noqa: BLE001
                add({"op": "error", "t": tj}, cls=c.name, obj=describe(obj), what=f"{op}({m}) raised {e!r}", exc=type(e).__name__, opname=op)
                continue
            add({"op": "subst", "t": tj, "m": [[T.to_json(project_generic(k)), T.to_json(project_generic(r))] for k, r in m.items()],  # noqa: E501
                 "r": T.to_json(project_generic(res))}, cls=c.name, obj=describe(obj), what=f"{op}({m})", res=describe(res), opname=op,
                nested=d.name if d else None)
        # identity operations
        try:
            back = pickle.loads(pickle.dumps(obj))
            add({"op": "pickle", "t": tj, "r": T.to_json(project_generic(back))}, cls=c.name, obj=describe(obj), res=describe(back), opname="pickle")
        except Exception as e:  # noqa: BLE001
            add({"op": "error", "t": tj}, cls=c.name, obj=describe(obj), what=f"pickle raised {e!r}", exc=type(e).__name__, opname="pickle")
        if c.all_sympy():
            try:
                rb = obj.func(*obj.args)
                add({"op": "rebuild", "t": tj, "r": T.to_json(project_generic(rb))}, cls=c.name, obj=describe(obj), res=describe(rb), opname="rebuild")
            except Exception as e:  # noqa: BLE001
                add({"op": "error", "t": tj}, cls=c.name, obj=describe(obj), what=f"func(*args) raised {e!r}", exc=type(e).__name__, opname="rebuild")
        # equality: a second construction, and neighbours differing in one argument / one attribute
        others = []
        try:
            again, _ = (c.build([x, y][: c.ar], (), active), None) if d is None and c.na == 0 else (None, None)
            if again is not None:
                others.append(again)
            others.append(c.build([w, y][: c.ar], tuple("a" for _ in range(c.na)), active))
            for k in range(c.na):
                base = ["a"] * c.na
                o1 = c.build([x, y][: c.ar], tuple(base), active)
                base[k] = "b"
                o2 = c.build([x, y][: c.ar], tuple(base), active)
                add({"op": "eq", "t": T.to_json(project_generic(o1)), "u": T.to_json(project_generic(o2)), "eq": int(o1 == o2),
                     "hash": int(hash(o1) == hash(o2))}, cls=c.name, obj=describe(o1), res=describe(o2), opname="__eq__")
        except Exception:  # noqa: BLE001
            pass
        for o in others:
            add({"op": "eq", "t": tj, "u": T.to_json(project_generic(o)), "eq": int(obj == o), "hash": int(hash(obj) == hash(o))},
                cls=c.name, obj=describe(obj), res=describe(o), opname="__eq__")
        if len(samples) < 4 and d is not None:
            samples.append({"object": describe(obj), "projection": T.show(t)})
    return recs, ctx, samples


def classify_class_reject(chk, clause, rec, info, prop="C14"):
    """Trace_Expr rejected a record of a class instance"""
    cls, op = info.get("cls"), info.get("opname")
    case = {"record": rec.get("id"), **{k: v for k, v in info.items() if k in ("cls", "obj", "what", "res", "nested")}}
    if clause == "Subst" and info.get("mixed"):
        what = "whole-map-discarded" if info.get("unchanged") else "result-differs"
        chk.violation(f"PoolSum.{op}:map-with-bound-index-and-free-symbol:{what}",
                      f"{info['obj']}.{info['what']} = {info['res']}: a summation index in the map must not matter, the free symbols must be substituted", case)
    elif clause == "Subst":
        r = json.dumps(rec["r"])
        t = json.dumps(rec["t"])
        if r.count('"h": "Tuple"') > t.count('"h": "Tuple"') + sum(json.dumps(x[1]).count('"h": "Tuple"') for x in rec["m"]) or '"pytuple"' in r:
            pat = "nested-argument-flattened-to-tuple"
        elif sorted(_labels(rec["r"])) != sorted(_labels(rec["t"])):
            pat = "non-sympy-attribute-changed"
        else:
            pat = f"arguments-differ:{cls}"
        from collections import Counter

        def split(j):
            ls = Counter(_labels(j))
            return Counter({k: v for k, v in ls.items() if k.startswith("_name=")}), Counter({k: v for k, v in ls.items() if not k.startswith("_name=")})

        leg_t, oth_t = split(rec["t"])
        leg_r, oth_r = split(rec["r"])
        tjs = json.dumps(rec["t"], sort_keys=True)
        for key, repl in rec["m"]:
            n_occ = tjs.count(json.dumps(key, sort_keys=True))
            lk, ok_ = split(key)
            lr, or_ = split(repl)
            for _ in range(n_occ):
                leg_t, oth_t = leg_t - lk + lr, oth_t - ok_ + or_
        if pat == "non-sympy-attribute-changed" and oth_t == oth_r and leg_t != leg_r:
            sig = SIG_LEGACY_NAME
        else:
            sig = f"unevaluated.{op}:{pat}"
        chk.violation(sig, f"{cls}: {info['obj']}.{info['what']} = {info['res']} is not the substituted term", case)
    elif clause in ("PickleIdentity", "RebuildIdentity"):
        r, t = json.dumps(rec["r"]), json.dumps(rec["t"])
        if r.count('"h": "Tuple"') > t.count('"h": "Tuple"') or '"pytuple"' in r:
            sig = f"unevaluated.{op}:nested-argument-flattened-to-tuple"
        elif sorted(_labels(rec["r"])) != sorted(_labels(rec["t"])):
            sig = f"unevaluated.{op}:non-sympy-attribute-changed"
        else:
            sig = f"unevaluated.{op}:not-identity:{cls}"
        chk.violation(sig, f"{cls}: {op} of {info['obj']} gave {info['res']}", case)
    elif clause == "EqIffSameTerm":
        chk.violation(f"unevaluated.__eq__:not-exactly-class-args-attributes:{cls}", f"{info['obj']} == {info['res']}: {rec['eq']}", case)
    elif clause in ("EqualHashAlike", "UnequalHashDiffer"):
        chk.violation(f"unevaluated.__hash__:{clause}:{cls}", f"hash({info['obj']}) vs hash({info['res']}): equal={rec['hash']}, == is {rec['eq']}", case)
    else:
        raise Machinery(f"Trace_Expr rejected record {rec.get('id')} with clause {clause}: harness error ({info})")


SIG_LEGACY_NAME = "deprecated-UnevaluatedExpression.subs/xreplace:name-attribute-dropped"


def _labels(j):
    out = list(j["at"])
    for a in j["a"]:
        out += _labels(a)
    return out


# ---- numeric clause (observation): code generated from the folded form == from the unfolded form --------------
FOURVEC_FIELDS = ("momentum", "vector", "array")


def numeric_clause(chk, embs, rng, n_events=7):
    """lambdify(form) vs lambdify(expr.doit()) for form in {expr, expr.doit(deep=False)}, cse on/off, seeded
    inputs.  Only forms that SymPy can print for numpy are comparable (classes with a numpy printer)."""
    import numpy as np
    from ampform.sympy._array_expressions import ArraySum

    nrng = np.random.default_rng(chk.seed + 5)
    out = {"comparisons": 0, "classes_compared": [], "forms_compared": {"folded": 0, "one-level": 0}, "cse_on": 0, "cse_off": 0,
           "not_comparable_by_reason": {}, "no_evaluate": [], "compound_argument_comparisons": 0}

    def skip(reason):
        out["not_comparable_by_reason"][reason] = out["not_comparable_by_reason"].get(reason, 0) + 1

    for c in embs:
        if not c.has_eval:
            out["no_evaluate"].append(c.name)
            continue
        vec = c.builder is None and any(f in FOURVEC_FIELDS for f in c.sympy_fields)
        leaf = (lambda n: ArraySymbol(n, shape=[])) if vec else sp.Symbol
        for compound in (False, True):
            try:
                with warnings.catch_warnings():
                    warnings.simplefilter("ignore")
                    with time_limit(30):
                        args = []
                        for i in range(c.n_positions if c.builder is None else c.ar):
                            name = c.sympy_fields[i] if c.builder is None else f"a{i}"
                            if name in ("n_events", "shape"):
                                args.append(sp.Symbol("nev"))
                            elif name in FILLERS_NUM:
                                args.append(FILLERS_NUM[name])
                            elif compound:
                                # an argument that prints as an unparenthesised compound (a printer that pastes it in front of an
                                # operator without parentheses changes the value)
                                args.append(ArraySum(leaf(f"v{i}"), leaf(f"w{i}")) if vec else leaf(f"v{i}") + 2 * leaf(f"w{i}"))
                            else:
                                args.append(leaf(f"v{i}"))
                        obj = c.build(args, tuple("a" for _ in range(c.na)), tuple(range(len(args))))
                        unfolded = obj.doit()
                        forms = [("folded", obj)]
                        try:
                            one = obj.doit(deep=False)
                            if one != unfolded and one != obj:
                                forms.append(("one-level", one))
                        except Exception:  # noqa: BLE001
                            pass
            except (Exception, OpTimeout) as e:  # noqa: BLE001
                skip(f"generic instance / doit failed: {type(e).__name__}" + (" (compound arguments)" if compound else ""))
                continue
            byname = {}
            for a_ in sp.preorder_traversal(obj):
                if isinstance(a_, ArraySymbol):
                    byname[str(a_.name)] = a_
            for a_ in obj.free_symbols:
                if isinstance(a_, sp.Symbol):
                    byname.setdefault(a_.name, a_)
            syms = [byname[k] for k in sorted(byname)]
            inputs = []
            for s_ in syms:
                if isinstance(s_, ArraySymbol):
                    p3 = nrng.uniform(-1.0, 1.0, size=(n_events, 3))
                    m = nrng.uniform(0.2, 1.5, size=n_events)
                    e = np.sqrt((p3**2).sum(axis=1) + m**2)
                    inputs.append(np.concatenate([e[:, None], p3], axis=1))
                elif str(s_) == "nev":
                    inputs.append(n_events)
                else:
                    inputs.append(nrng.uniform(1.2, 3.7, size=n_events))
            for cse in (False, True):
                try:
                    with warnings.catch_warnings(), np.errstate(all="ignore"):
                        warnings.simplefilter("ignore")
                        with time_limit(60):
                            v2 = np.asarray(sp.lambdify(syms, unfolded, "numpy", cse=cse)(*inputs), dtype=complex)
                except (Exception, OpTimeout) as e:  # noqa: BLE001
                    skip(f"unfolded form not evaluable: {type(e).__name__}")
                    continue
                for fname, form in forms:
                    try:
                        with warnings.catch_warnings(), np.errstate(all="ignore"):
                            warnings.simplefilter("ignore")
                            with time_limit(60):
                                v1 = np.asarray(sp.lambdify(syms, form, "numpy", cse=cse)(*inputs), dtype=complex)
                    except (Exception, OpTimeout) as e:  # noqa: BLE001
                        skip(f"{fname} form has no numpy code: {type(e).__name__}")
                        continue
                    out["comparisons"] += 1
                    out["compound_argument_comparisons"] += int(compound)
                    out["forms_compared"][fname] += 1
                    out["cse_on" if cse else "cse_off"] += 1
                    if c.name not in out["classes_compared"]:
                        out["classes_compared"].append(c.name)
                    try:
                        b1, b2 = np.broadcast_arrays(v1, v2)
                        ok = bool(np.array_equal(np.isnan(b1), np.isnan(b2))) and bool(
                            np.allclose(b1[~np.isnan(b1)], b2[~np.isnan(b2)], rtol=1e-7, atol=1e-12))
                    except ValueError:
                        ok = False
                    if not ok:
                        chk.violation(f"lambdify:folded-vs-unfolded-differ:{c.name}",
                                      f"{describe(obj)} ({fname} form{', compound arguments' if compound else ''}) with cse={cse}: generated code gives {v1.ravel()[:4]}, code from doit() gives {v2.ravel()[:4]}",
                                      {"class": c.qualname, "cse": cse, "form": fname, "compound": compound, "expr": sp.srepr(obj)})
                    chk.count(1)
    return out


FILLERS_NUM = {"angular_momentum": sp.Integer(2), "l": sp.Integer(2)}


# ---- mixed maps: a summation index and a free symbol in one map (PoolSum as outer class and as nested argument) ----
def simulate_mixed(sigs, *, num, depth, seed, leafs=("x", "y")):
    from .expr_pool import simulate_parallel

    cfg = class_cfg(sigs, init="MixInit", mixed=True, ctxs="ClassCtxs", max_ops=4, max_depth=5, nest_anytime=True, check=False, leafs=leafs)
    return simulate_parallel("ExprOps_MC", cfg, num=num, depth=depth, seed=seed, jobs=2)


def run_mixed_replays(rep, embs, behs, rng, *, budget_s, limit_s):
    by_sig = sig_buckets(embs)
    sigs = sorted(by_sig)
    t_end = time.time() + budget_s
    rr = {s_: 0 for s_ in sigs}
    n = mixed_steps = 0
    classes = set()
    for beh in behs:
        if time.time() > t_end:
            break
        asg = default_assignment(by_sig, rng, sigs, "symbol")
        # round robin over the classes of the slots that occur in the initial term
        cur = T.from_tla(beh[0]["state"]["cur"])
        for slot in slots_in(cur):
            cands = by_sig[slot[1:]]
            emb = cands[rr[slot[1:]] % len(cands)]
            rr[slot[1:]] += 1
            asg.slots[slot] = (emb, pick_active(emb, rng))
            classes.add(emb.name)
        before = rep.by_action.get("Xreplace", 0) + rep.by_action.get("SubsMap", 0)
        rep.replay(beh, asg, focus=["mixed-map", T.show(cur)], limit_s=limit_s)
        mixed_steps += rep.by_action.get("Xreplace", 0) + rep.by_action.get("SubsMap", 0) - before
        n += 1
    return {"behaviours_replayed": n, "xreplace_and_subs_dict_steps": mixed_steps, "classes_around_or_inside_pool_sums": len(classes)}


def mixed_trace_records(embs, rng, start_id):
    """(term, operation, result) records with maps {summation index -> value, free symbol -> term} on PoolSum as outer
    class and as nested argument of every class; judged by Trace_Expr (Subst drops the bound key, applies the rest)."""
    from ampform.sympy import PoolSum

    x, y, w, i = sp.symbols("x y w i")
    f, hfun = sp.Function("f"), sp.Function("h")
    recs, ctx = [], {}
    rid = start_id

    def add(rec, **info):
        nonlocal rid
        rec["id"] = rid
        ctx[rid] = info
        recs.append(rec)
        rid += 1

    gfun = sp.Function("g")
    objs = [(None, PoolSum(f(x, i), (i, (1, 2)))), (None, PoolSum(gfun(f(x, i), x), (i, (0, 1, 2)))),
            (None, PoolSum(f(i, PoolSum(f(x, i), (i, (1, 2)))), (i, (2, 3))))]
    for c in embs:
        try:
            with warnings.catch_warnings():
                warnings.simplefilter("ignore")
                with time_limit(10):
                    inner = PoolSum(f(x, i), (i, (1, 2)))
                    args = [inner, y][: c.ar]
                    objs.append((c, c.build(args, tuple(rng.choice("ab") for _ in range(c.na)), pick_active(c, rng))))
                    if c.name != "PoolSum":
                        body = c.build([x, i][: c.ar] if c.ar == 2 else [i], tuple("a" for _ in range(c.na)), pick_active(c, rng))
                        # (no Add/Mul around: their argument order is canonicalised by SymPy, the projection is positional)
                        objs.append((c, PoolSum(gfun(body, x), (i, (1, 2)))))
        except (Exception, OpTimeout):  # noqa: BLE001
            continue
    maps = [({i: sp.Integer(5), x: w}, "xreplace"), ({x: hfun(w), i: w}, "xreplace"), ({i: sp.Integer(5), x: w}, "subs"),
            ({x: w, i: sp.Integer(3)}, "subs"), ({i: sp.Integer(5)}, "xreplace"), ({x: w}, "xreplace")]
    for c, obj in objs:
        tj = T.to_json(project_generic(obj))
        for m, op in maps:
            try:
                with warnings.catch_warnings():
                    warnings.simplefilter("ignore")
                    with time_limit(10):
                        res = obj.xreplace(m) if op == "xreplace" else obj.subs(m)
            except OpTimeout:
                continue
            except Exception as e:  # noqa: BLE001
                add({"op": "error", "t": tj}, cls=c.name if c else "PoolSum", obj=describe(obj), what=f"{op}({m}) raised {e!r}", exc=type(e).__name__, opname=op)
                continue
            add({"op": "subst", "t": tj, "m": [[T.to_json(project_generic(k)), T.to_json(project_generic(r))] for k, r in m.items()],
                 "r": T.to_json(project_generic(res))}, cls=c.name if c else "PoolSum", obj=describe(obj), what=f"{op}({m})", res=describe(res),
                opname=op, mixed=True, unchanged=bool(res == obj))
    return recs, ctx
