"""Executor for C16: runs scripted schedules of perform_cached_doit callers against the real
code, one forked child per call, with every file-system operation on the cache directory
interposed in the child (announce -> wait for the scheduler -> perform -> report), so
that the scheduler (this process) decides the interleaving, can kill a child between any
two operations or in the middle of a write, and logs one event per operation together
with an abstract snapshot of the directory.

Run as a subprocess so that PYTHONHASHSEED can be chosen:  python -m vf.cachefs_exec
stdin:  {"binding": "width"|"assume"|..., "nchunks": 2, "scenarios": [[step...], ...]}
steps:  ["call", p, "e1"]   fork a child for process p calling perform_cached_doit(e1, dir)
        ["step", p, expect] let p perform its next pending operation (expect = spec action or "")
        ["crash", p]        kill p before its pending operation
        ["partial", p, n]   let p's pending Write put only n bytes on disk, then kill it
        ["run", p]          let p run to completion (sequential semantics)
stdout: {"keyof": {...}, "traces": [[event...], ...]}
"""
from __future__ import annotations

import builtins
import io
import json
import logging
import os
import pickle
import re
import shutil
import signal
import sys
import tempfile

logging.disable(logging.CRITICAL)


# --------------------------------------------------------------------------------------
def make_bindings():
    import sympy as sp

    from ampform.dynamics import EnergyDependentWidth
    from ampform.dynamics.form_factor import BlattWeisskopfSquared
    from ampform.dynamics.phasespace import (
        BreakupMomentumSquared,
        PhaseSpaceFactor,
        PhaseSpaceFactorComplex,
        PhaseSpaceFactorSWave,
    )

    s, m0, w0, ma, mb, d = sp.symbols("s m0 Gamma0 m_a m_b d", nonnegative=True)
    z = sp.Symbol("z", nonnegative=True)

    def width(ph, L=1):
        return EnergyDependentWidth(s, m0, w0, ma, mb, angular_momentum=L, meson_radius=d, phsp_factor=ph)

    sr, sn = sp.Symbol("s", real=True), sp.Symbol("s")
    m1, m2 = sp.symbols("m1 m2", nonnegative=True)
    return {
        # two widths that print identically (non-SymPy attribute differs), one unrelated
        "width": {
            "e1": width(PhaseSpaceFactor),
            "e2": width(PhaseSpaceFactorSWave),
            "e3": BlattWeisskopfSquared(z, angular_momentum=2),
        },
        # CPython: hash(-1) == hash(-2), and SymPy's tuple-based hashing carries that through: with PYTHONHASHSEED set
        # (file name from hash()) these two share one key file under every seed; with the seed unset they do not
        "minus": {
            "e1": PhaseSpaceFactor(s, m1, m2) ** (-1) + BlattWeisskopfSquared(z, angular_momentum=1),
            "e2": PhaseSpaceFactor(s, m1, m2) ** (-2) + BlattWeisskopfSquared(z, angular_momentum=1),
            "e3": width(PhaseSpaceFactorSWave, L=0),
        },
        # symbols that differ in assumptions only
        "assume": {
            "e1": sp.sqrt(BreakupMomentumSquared(sr, m1, m2)) + PhaseSpaceFactorComplex(sr, m1, m2),
            "e2": sp.sqrt(BreakupMomentumSquared(sn, m1, m2)) + PhaseSpaceFactorComplex(sn, m1, m2),
            "e3": width(PhaseSpaceFactorComplex, L=2),
        },
    }


# --------------------------------------------------------------------------------------
class ChildIO:
    """Runs in the forked child: announce/perform/report protocol with the scheduler."""

    def __init__(self, directory, to_parent, from_parent, nchunks):
        self.dir = os.path.realpath(directory)
        self.w = os.fdopen(to_parent, "w", buffering=1)
        self.r = os.fdopen(from_parent, "r", buffering=1)
        self.nchunks = nchunks
        self.fd_names = {}
        self.real_open = io.open
        self.real_stat = os.stat
        self.real_replace = os.replace
        self.real_rename = os.rename
        self.real_unlink = os.unlink
        self.real_osopen = os.open
        self.real_mkdir = os.mkdir

    def is_cache_dir(self, path):
        try:
            return not isinstance(path, int) and os.path.abspath(os.fspath(path)) == self.dir
        except TypeError:
            return False

    def inside(self, path):
        try:
            p = os.path.realpath(os.fspath(path))
        except TypeError:
            return False
        return os.path.dirname(p) == self.dir

    def announce(self, op, **kw):
        if os.environ.get("VF_DEBUG"):
            sys.stderr.write(f"[{os.getpid()}] announce {op} {kw}\n")
        self.w.write(json.dumps({"op": op, **kw}) + "\n")
        self.w.flush()
        line = self.r.readline()
        if not line:
            os._exit(97)
        return json.loads(line)

    def done(self, **kw):
        self.w.write(json.dumps({"done": True, **kw}) + "\n")
        self.w.flush()

    # -- interposed functions ----------------------------------------------------------
    def install(self):
        cio = self

        def stat(path, *a, **k):
            if cio.is_cache_dir(path):
                # exists() / is_dir() of the cache directory itself
                cio.announce("DirStat")
                try:
                    st = cio.real_stat(path, *a, **k)
                except BaseException:
                    cio.done(exists=False)
                    raise
                cio.done(exists=True)
                return st
            if isinstance(path, int) or not cio.inside(path):
                return cio.real_stat(path, *a, **k)
            cio.announce("Stat", name=os.path.basename(os.fspath(path)))
            try:
                st = cio.real_stat(path, *a, **k)
            except BaseException as ex:
                cio.done(exists=False, **({} if isinstance(ex, FileNotFoundError) else {"error": type(ex).__name__}))
                raise
            cio.done(exists=True)
            return st

        def open_(file, mode="r", *a, **k):
            if isinstance(file, int):
                if file in cio.fd_names and ("w" in mode or "a" in mode or "+" in mode):
                    real = cio.real_open(file, mode, *a, **k)
                    return WriteProxy(cio, real, cio.fd_names[file], announced=True)
                return cio.real_open(file, mode, *a, **k)
            if not cio.inside(file):
                return cio.real_open(file, mode, *a, **k)
            name = os.path.basename(os.fspath(file))
            if "b" not in mode:
                return cio.real_open(file, mode, *a, **k)
            if "w" in mode or "a" in mode or "x" in mode or "+" in mode:
                cio.announce("OpenW", name=name)
                try:
                    real = cio.real_open(file, mode, *a, **k)
                except BaseException as ex:
                    cio.done(error=type(ex).__name__)
                    raise
                cio.done()
                return WriteProxy(cio, real, name, announced=True)
            cio.announce("OpenR", name=name)
            try:
                real = cio.real_open(file, mode, *a, **k)
            except BaseException as ex:
                cio.done(found=False, error=type(ex).__name__)
                raise
            cio.done(found=True)
            return ReadProxy(cio, real, name)

        def os_open(path, flags, *a, **k):
            if isinstance(path, (str, bytes, os.PathLike)) and cio.inside(path) and flags & os.O_CREAT:
                name = os.path.basename(os.fspath(path))
                cio.announce("OpenW", name=name)
                try:
                    fd = cio.real_osopen(path, flags, *a, **k)
                except BaseException as ex:
                    cio.done(error=type(ex).__name__)
                    raise
                cio.fd_names[fd] = name
                cio.done()
                return fd
            return cio.real_osopen(path, flags, *a, **k)

        def replace(src, dst, *a, **k):
            if cio.inside(dst):
                cio.announce("Replace", src=os.path.basename(os.fspath(src)), dst=os.path.basename(os.fspath(dst)))
                try:
                    r = cio.real_replace(src, dst, *a, **k)
                except BaseException as ex:
                    cio.done(error=type(ex).__name__)
                    raise
                cio.done()
                return r
            return cio.real_replace(src, dst, *a, **k)

        def rename(src, dst, *a, **k):
            if cio.inside(dst):
                cio.announce("Replace", src=os.path.basename(os.fspath(src)), dst=os.path.basename(os.fspath(dst)))
                try:
                    r = cio.real_rename(src, dst, *a, **k)
                except BaseException as ex:
                    cio.done(error=type(ex).__name__)
                    raise
                cio.done()
                return r
            return cio.real_rename(src, dst, *a, **k)

        def unlink(path, *a, **k):
            if cio.inside(path):
                cio.announce("Unlink", name=os.path.basename(os.fspath(path)))
                try:
                    r = cio.real_unlink(path, *a, **k)
                finally:
                    cio.done()
                return r
            return cio.real_unlink(path, *a, **k)

        def mkdir(path, *a, **k):
            if not cio.is_cache_dir(path):
                return cio.real_mkdir(path, *a, **k)
            cio.announce("Mkdir")
            try:
                r = cio.real_mkdir(path, *a, **k)
            except BaseException as ex:
                cio.done(created=False, error=type(ex).__name__)
                raise
            cio.done(created=True)
            return r

        os.mkdir = mkdir
        builtins.open = open_
        io.open = open_
        os.stat = stat
        os.replace = replace
        os.rename = rename
        os.unlink = unlink
        os.remove = unlink
        os.open = os_open


class WriteProxy:
    def __init__(self, cio, real, name, announced):
        self.cio, self.real, self.name = cio, real, name
        self.buf = bytearray()
        self.closed = False

    def write(self, data):
        self.buf += bytes(data)
        return len(data)

    def flush(self):
        pass

    def fileno(self):
        return self.real.fileno()

    def close(self):
        if self.closed:
            return
        self.closed = True
        data = bytes(self.buf)
        n = self.cio.nchunks
        size = len(data)
        bounds = [size * i // n for i in range(n + 1)]
        for i in range(n):
            msg = self.cio.announce("Write", name=self.name, chunk=i + 1, size=size)
            piece = data[bounds[i] : bounds[i + 1]]
            if "partial" in msg:
                # put only the first `partial` bytes of the whole pickle on disk, then die
                upto = max(bounds[i], min(int(msg["partial"]), size))
                self.real.write(data[bounds[i] : upto])
                self.real.flush()
                os._exit(99)
            self.real.write(piece)
            self.real.flush()
            self.cio.done()
        self.cio.announce("Close", name=self.name)
        self.real.close()
        self.cio.done()

    def __enter__(self):
        return self

    def __exit__(self, *exc):
        self.close()
        return False


class ReadProxy:
    def __init__(self, cio, real, name):
        self.cio, self.real, self.name = cio, real, name
        self.bio = None

    def _load(self):
        if self.bio is None:
            self.cio.announce("Load", name=self.name)
            data = self.real.read()
            self.bio = io.BytesIO(data)
            self.cio.done(nbytes=len(data))

    def read(self, *a):
        self._load()
        return self.bio.read(*a)

    def readline(self, *a):
        self._load()
        return self.bio.readline(*a)

    def readinto(self, b):
        self._load()
        return self.bio.readinto(b)

    def close(self):
        self._load()  # an unread open/close still counts as a Load step of the model
        self.real.close()

    def __enter__(self):
        return self

    def __exit__(self, *exc):
        self.close()
        return False


# --------------------------------------------------------------------------------------
class Scheduler:
    def __init__(self, exprs, nchunks):
        self.exprs = exprs
        self.nchunks = nchunks
        self.doits = {k: e.doit() for k, e in exprs.items()}
        from ampform.sympy._cache import get_readable_hash

        self.keyfile = {k: get_readable_hash(e) + ".pkl" for k, e in exprs.items()}
        names = {}
        for k in sorted(exprs):
            names.setdefault(self.keyfile[k], f"k{len(names) + 1}")
        self.keyname = names  # real file name -> abstract key name
        self.keyof = {k: names[self.keyfile[k]] for k in exprs}
        self.planted_names = {}

    # -- abstraction of results and directory ---------------------------------------
    def classify_value(self, obj):
        for k, d in self.doits.items():
            try:
                if obj == d and type(obj) is type(d):
                    return k
            except Exception:  # noqa: BLE001
                pass
        return "other"

    def classify_file(self, path):
        data = open(path, "rb").read()
        if not data:
            return ["none", 0, 0]
        try:
            obj = pickle.loads(data)
        except Exception:  # noqa: BLE001
            return ["none", 1, len(data)]
        # an entry of expression e: the stored (expr, unfolded) pair with expr == e and unfolded == e.doit();
        # anything else that unpickles is foreign content
        if isinstance(obj, tuple) and len(obj) == 2:
            for kk, e in self.exprs.items():
                try:
                    if obj[0] == e and type(obj[0]) is type(e) and self.classify_value(obj[1]) == kk:
                        return [kk, self.nchunks, len(data)]
                except Exception:  # noqa: BLE001
                    pass
        else:
            # layout of an implementation that stores the unfolded expression only
            k = self.classify_value(obj)
            if k != "other" and not self.planted_names.get(os.path.basename(path)):
                return [k, self.nchunks, len(data)]
        return ["other", self.nchunks, len(data)]

    def abstract_name(self, fname, owner):
        if fname in self.keyname:
            return self.keyname[fname]
        return owner.get(fname, "t?")

    def snapshot(self, d, owner):
        snap = {}
        if not os.path.isdir(d):
            return snap
        for fname in sorted(os.listdir(d)):
            name = self.abstract_name(fname, owner)
            if name == "orphan":  # temporary file of a killed call: unique name, never reused
                continue
            snap[name] = self.classify_file(os.path.join(d, fname))
        return snap

    # -- one scenario -------------------------------------------------------------------
    def run_scenario(self, steps):
        # the cache directory is a sub-directory that exists already unless the scenario starts with ["nodir"] (first use)
        base = tempfile.mkdtemp(prefix="vf_c16_")
        d = os.path.join(base, "cache")
        if steps and steps[0][0] == "nodir":
            steps = steps[1:]
        else:
            os.mkdir(d)
        events = []
        kids = {}  # p -> dict(pid, r, w, pending)
        owner = {}  # temp file name -> abstract temp name

        def log(ev, p, **kw):
            events.append({"ev": ev, "p": p, **kw, "fs": self.snapshot(d, owner)})

        def read_msg(k):
            import select

            while b"\n" not in k["buf"]:
                ready, _, _ = select.select([k["rfd"]], [], [], 120)
                if not ready:
                    raise RuntimeError("child did not respond within 120 s (protocol deadlock)")
                chunk = os.read(k["rfd"], 65536)
                if not chunk:
                    return None
                k["buf"] += chunk
            line, _, rest = k["buf"].partition(b"\n")
            k["buf"] = rest
            return json.loads(line)

        def orphan(p):
            for fname, who in list(owner.items()):
                if who == f"t{p}":
                    owner[fname] = "orphan"

        def reap(p):
            k = kids.pop(p)
            try:
                os.kill(k["pid"], signal.SIGKILL)
            except ProcessLookupError:
                pass
            os.waitpid(k["pid"], 0)
            os.close(k["rfd"])
            k["w"].close()

        def busy(p):
            return p in kids and not kids[p]["idle"]

        def pending(p):
            k = kids[p]
            if k["pending"] is None:
                k["pending"] = read_msg(k)
            return k["pending"]

        def absname(msg, p, key="name"):
            fname = msg.get(key)
            if fname is None:
                return "-"
            if fname not in self.keyname and fname not in owner:
                owner[fname] = f"t{p}"
            return self.abstract_name(fname, owner)

        def perform(p, expect, partial=None):
            """Let child p do its pending op. Returns False when the child is gone."""
            k = kids[p]
            msg = pending(p)
            if msg is None:
                log("Vanished", p)
                reap(p)
                return False
            op = msg["op"]
            drift = bool(expect) and {"EnsureDir": "Mkdir"}.get(expect, expect) != op
            if op == "Return":
                # the OS process lives on (whatever the call left in the interpreter stays there) and waits for its next call
                k["w"].write("{}\n")
                k["w"].flush()
                k["pending"] = None
                k["idle"] = True
                log("Return", p, res=msg["res"], exc=msg.get("exc", ""), drift=drift)
                return False
            if partial is not None and op == "Write":
                k["w"].write(json.dumps({"partial": partial}) + "\n")
                k["w"].flush()
                os.waitpid(k["pid"], 0)
                os.close(k["rfd"])
                k["w"].close()
                kids.pop(p)
                pw_name = absname(msg, p)
                orphan(p)
                log("PartialWrite", p, name=pw_name, nbytes=partial, size=msg["size"])
                return False
            k["w"].write("{}\n")
            k["w"].flush()
            fin = read_msg(k)
            k["pending"] = None
            if fin is None:
                log("Vanished", p)
                reap(p)
                return False
            info = {kk: vv for kk, vv in fin.items() if kk != "done"}
            if "done" not in fin:
                raise RuntimeError(f"protocol error: expected completion of {op}, got {fin}")
            if op == "Replace":
                src = absname(msg, p, "src")
                dst = absname(msg, p, "dst")
                owner.pop(msg["src"], None)
                log("Replace", p, src=src, dst=dst, drift=drift)
            elif op in ("Mkdir", "DirStat"):
                log(op, p, drift=drift, **{kk: (int(vv) if isinstance(vv, bool) else vv) for kk, vv in info.items()})
            elif op in ("Stat", "OpenR", "OpenW", "Load", "Write", "Close", "Unlink"):
                log(op, p, name=absname(msg, p), drift=drift, **{kk: (int(vv) if isinstance(vv, bool) else vv) for kk, vv in info.items()},
                    **({"chunk": msg["chunk"]} if op == "Write" else {}))
            else:
                log(op, p, drift=drift)
            return True

        try:
            for st in steps:
                kind, p = st[0], st[1]
                if kind == "call":
                    e = st[2]
                    while busy(p):   # (a schedule that is out of step with the code: the earlier call of this process finishes first)
                        perform(p, "")
                    if p in kids:   # the process is alive and idle: its next call runs in the same interpreter
                        kids[p]["idle"] = False
                        kids[p]["w"].write(json.dumps({"call": e}) + "\n")
                        kids[p]["w"].flush()
                        log("Call", p, e=e)
                        continue
                    c2p_r, c2p_w = os.pipe()
                    p2c_r, p2c_w = os.pipe()
                    sys.stdout.flush()
                    pid = os.fork()
                    if pid == 0:
                        try:
                            os.close(c2p_r)
                            os.close(p2c_w)
                            cio = ChildIO(d, c2p_w, p2c_r, self.nchunks)
                            from ampform.sympy import perform_cached_doit

                            cio.install()
                            while True:
                                try:
                                    out = perform_cached_doit(self.exprs[e], d)
                                    res, exc = self.classify_value(out), ""
                                except BaseException as ex:  # noqa: BLE001
                                    res, exc = "RAISED", type(ex).__name__
                                cio.announce("Return", res=res, exc=exc)
                                line = cio.r.readline()   # the next call of this process, or end of the scenario
                                if not line:
                                    break
                                e = json.loads(line)["call"]
                        finally:
                            os._exit(0)
                    os.close(c2p_w)
                    os.close(p2c_r)
                    kids[p] = {"pid": pid, "rfd": c2p_r, "buf": b"", "w": os.fdopen(p2c_w, "w"), "pending": None, "idle": False}
                    log("Call", p, e=e)
                elif kind == "plant":
                    # pre-existing content of the key file of expression st[1]
                    e, what = st[2], st[3]
                    fname = self.keyfile[e]
                    full = pickle.dumps((self.exprs[e], self.doits[e]))
                    if what in DAMAGED_KINDS:
                        data = _damaged(full, what)
                    else:
                        data = {"garbage": b"\x00not a pickle\xff" * 3, "truncated": full[: len(full) // 2], "empty-ish": full[:1],
                                "foreign": pickle.dumps({"answer": 42}), "oldformat": pickle.dumps(self.doits[e]),
                                "wrongpair": pickle.dumps((self.exprs[e], 1))}[what]
                    with open(os.path.join(d, fname), "wb") as f:
                        f.write(data)
                    self.planted_names[fname] = True
                    try:
                        pickle.loads(data)
                        complete, exc = 1, ""
                    except Exception as ex:  # noqa: BLE001
                        complete, exc = 0, type(ex).__name__
                    log("Plant", p, name=self.keyname[fname], what=what, complete=complete, exc=exc)
                elif kind == "step":
                    if busy(p):
                        perform(p, st[2] if len(st) > 2 else "")
                        # one tolerant mkdir = os.mkdir and, when the directory was there, a look at it (is_dir): one model step
                        while len(st) > 2 and st[2] == "EnsureDir" and busy(p) and (pending(p) or {}).get("op") == "DirStat":
                            perform(p, "")
                elif kind == "crash":
                    if busy(p):
                        pending(p)
                        reap(p)
                        orphan(p)
                        log("Crash", p)
                elif kind == "partial":
                    if busy(p):
                        # run p up to its first Write, then write only n bytes and die
                        while busy(p) and (pending(p) or {}).get("op") not in ("Write", "Return", None):
                            perform(p, "")
                        if busy(p):
                            if pending(p) and pending(p)["op"] == "Write":
                                perform(p, "", partial=int(st[2]))
                            else:
                                perform(p, "")
                elif kind == "run":
                    while busy(p):
                        perform(p, "")
                else:
                    raise ValueError(kind)
            for p in list(kids):  # leftovers run to completion
                while busy(p):
                    perform(p, "")
        finally:
            for p in list(kids):
                reap(p)
            self.planted_names = {}
            shutil.rmtree(base, ignore_errors=True)
        return events


class _BadCtor:
    """pickles as a call sympy.Symbol() without arguments: loading raises TypeError"""

    def __reduce__(self):
        import sympy as sp

        return (sp.Symbol, ())


class _Plain:
    pass


class _BadSympify:
    """pickles as sympy.Add(<arbitrary object>): loading raises SympifyError"""

    def __reduce__(self):
        import sympy as sp

        return (sp.Add, (_Plain(),))


def _damaged(full: bytes, what: str) -> bytes:
    """Entries that fail to load, one per exception type a damaged or foreign file can raise in pickle.load
    (whatever list of exception types the reader expects): the ways a single damaged byte of a valid entry fails
    (UnicodeDecodeError, OverflowError, ValueError, TypeError, SympifyError, ModuleNotFoundError, AttributeError)
    constructed directly instead of searched for (loading arbitrary damaged entries can be arbitrarily expensive)."""
    if what == "text-pickle":            # protocol-0 integer with a non-numeric literal: ValueError
        return b"Iabc\n."
    if what == "bad-constructor":        # TypeError
        return pickle.dumps(_BadCtor())
    if what == "bad-utf8":               # a damaged byte inside the name of a symbol of the valid entry: UnicodeDecodeError
        m = re.search(rb"\x8c([\x01-\x10])([a-zA-Z_])", full)
        if m:
            return full[: m.start(2)] + b"\xf8" + full[m.end(2):]
        return b"\x80\x04\x8c\x01\xf8."
    if what == "oversize-length":        # a length field that exceeds the address space: OverflowError
        return b"\x80\x04\x8d" + b"\xff" * 8 + b"abc."
    if what == "sympify-error":          # SympifyError
        return pickle.dumps(_BadSympify())
    if what == "missing-module":         # ModuleNotFoundError
        return b"cno_such_module_for_this_entry\nX\n."
    if what == "missing-class":          # AttributeError
        return b"csympy\nNoSuchClassInThisVersion\n."
    raise KeyError(what)


DAMAGED_KINDS = ("text-pickle", "bad-constructor", "bad-utf8", "oversize-length", "sympify-error", "missing-module", "missing-class")


def main():
    job = json.load(sys.stdin)
    exprs = make_bindings()[job["binding"]]
    sch = Scheduler(exprs, job.get("nchunks", 2))
    traces = [sch.run_scenario(s) for s in job["scenarios"]]
    pick = {k: len(pickle.dumps(v)) for k, v in sch.doits.items()}
    json.dump({"keyof": sch.keyof, "traces": traces, "pickle_sizes": pick, "hashseed": os.environ.get("PYTHONHASHSEED", "")}, sys.stdout)


if __name__ == "__main__":
    main()
