--------------------------- MODULE PhaseSpace3_Proofs ---------------------------
(* TLAPS lemmas behind C20 (unbounded, over Int).  Checked with
      tlapm --toolbox 0 0 PhaseSpace3_Proofs.tla
   in the thorough tier under a timeout; an obligation the SMT back end cannot discharge is
   reported as "not proved" (TLC checks the same statement pointwise on the lattice).
   The definitions are repeated from PhaseSpace3 in scalar form (no tuples) so that the back
   ends see plain polynomial arithmetic. *)
EXTENDS Integers, TLAPS

Kallen(x, y, z) == x * x + y * y + z * z - 2 * x * y - 2 * y * z - 2 * z * x

THEOREM KallenSymmetric ==
  \A x, y, z \in Int : /\ Kallen(x, y, z) = Kallen(y, x, z)
                       /\ Kallen(x, y, z) = Kallen(x, z, y)
                       /\ Kallen(x, y, z) = Kallen(z, y, x)
                       /\ Kallen(x, y, z) = Kallen(y, z, x)
                       /\ Kallen(x, y, z) = Kallen(z, x, y)
  BY DEF Kallen

THEOREM KallenFactorises ==
  \A x, b, c \in Int : Kallen(x, b * b, c * c) = (x - (b + c) * (b + c)) * (x - (b - c) * (b - c))
  BY Z3 DEF Kallen

\* Kallen as a difference of squares: the form used for the PDG limits
THEOREM KallenDifferenceOfSquares ==
  \A x, y, z \in Int : Kallen(x, y, z) = (x - y - z) * (x - y - z) - 4 * y * z
  BY Z3 DEF Kallen

\* third Mandelstam variable: the three pair masses of p1+p2+p3 (Minkowski algebra, products as symbols)
THEOREM ThirdMandelstamIdentity ==
  \A M1, M2, M3, d12, d13, d23 \in Int :
    LET M0 == M1 + M2 + M3 + 2 * d12 + 2 * d13 + 2 * d23
        s1 == M2 + M3 + 2 * d23
        s2 == M1 + M3 + 2 * d13
        s3 == M1 + M2 + 2 * d12 IN
    s3 = M0 + M1 + M2 + M3 - s1 - s2
  OBVIOUS

Kibble(s1, s2, s3, M0, M1, M2, M3) == Kallen(Kallen(s2, M2, M0), Kallen(s3, M3, M0), Kallen(s1, M1, M0))
Disc(s1, s2, M0, M1, M2, M3) ==
  LET L1 == Kallen(s1, M2, M3)
      L2 == Kallen(M0, s1, M1)
      ab == M0 - M1 - M2 + M3
      t == 4 * s1 * s2 - (ab * ab - L1 - L2) IN
  t * t - 4 * L1 * L2

\* the classification by the Kibble function is the classification by the PDG limits (s1 > 0, m0 > 0)
THEOREM KibbleIsDiscriminant ==
  \A s1, s2, M0, M1, M2, M3 \in Int :
    s1 * Kibble(s1, s2, M0 + M1 + M2 + M3 - s1 - s2, M0, M1, M2, M3) = M0 * Disc(s1, s2, M0, M1, M2, M3)
  BY Z3T(120) DEF Kibble, Disc, Kallen
=============================================================================
