import json,sys
name,prop,needs,detected,notes=sys.argv[1:6]
d={"property":prop,"seed":name,"needs_to_manifest":needs,
   "confirmed":open(f"/verif/seeded/{name}/verify.txt").read().strip().splitlines(),
   "ran":[f"bin/seedverify /tmp/seed/{prop} {prop} {name}  (demo on unchanged code, demo with change, full pytest with change)", f"bin/seedrun {name} {prop}"],
   "detected_by":detected,"notes":notes,"source":"written by a sub-agent that saw only the property text and its own worktree"}
json.dump(d,open(f"/verif/seeded/{name}/meta.json","w"),indent=1)
