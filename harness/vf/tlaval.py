"""Parser and printer for TLA+ values as TLC prints them (PrintT output, dot node labels,
-simulate state files) and as they are written into generated configuration files."""
from __future__ import annotations

import re


class ModelValue(str):
    """An identifier that is not a string literal (model value / unquoted name)."""

    def __repr__(self) -> str:
        return f"MV({str.__repr__(self)})"


class TlaParseError(ValueError):
    pass


_TOKEN = re.compile(
    r"""\s*(?:
      (?P<str>"(?:[^"\\]|\\.)*")
    | (?P<int>-?\d+)
    | (?P<sym><<|>>|\|->|:>|@@|\[|\]|\{|\}|\(|\)|,)
    | (?P<id>[A-Za-z_][A-Za-z0-9_!]*)
    )""",
    re.X,
)


def _tokens(text: str):
    pos = 0
    out = []
    n = len(text)
    while pos < n:
        if text[pos:].strip() == "":
            break
        m = _TOKEN.match(text, pos)
        if not m:
            raise TlaParseError(f"cannot tokenise at {text[pos : pos + 40]!r}")
        pos = m.end()
        kind = m.lastgroup
        out.append((kind, m.group(kind)))
    return out


class _P:
    def __init__(self, toks):
        self.t = toks
        self.i = 0

    def peek(self):
        return self.t[self.i] if self.i < len(self.t) else (None, None)

    def eat(self, val=None):
        k, v = self.peek()
        if val is not None and v != val:
            raise TlaParseError(f"expected {val!r}, got {v!r} at token {self.i}")
        self.i += 1
        return k, v

    def value(self):
        k, v = self.peek()
        if k == "str":
            self.eat()
            return bytes(v[1:-1], "utf-8").decode("unicode_escape")
        if k == "int":
            self.eat()
            return int(v)
        if k == "id":
            self.eat()
            if v == "TRUE":
                return True
            if v == "FALSE":
                return False
            return ModelValue(v)
        if v == "<<":
            self.eat()
            items = self.seq_until(">>")
            return tuple(items)
        if v == "{":
            self.eat()
            items = self.seq_until("}")
            return frozenset(_freeze(x) for x in items)
        if v == "[":
            self.eat()
            rec = {}
            if self.peek()[1] == "]":
                self.eat()
                return rec
            while True:
                _, name = self.eat()
                self.eat("|->")
                rec[name] = self.value()
                if self.peek()[1] == ",":
                    self.eat()
                    continue
                self.eat("]")
                return rec
        if v == "(":
            self.eat()
            fn = {}
            while True:
                key = self.value()
                self.eat(":>")
                fn[_freeze(key)] = self.value()
                if self.peek()[1] == "@@":
                    self.eat()
                    continue
                self.eat(")")
                return fn
        raise TlaParseError(f"unexpected token {v!r} at {self.i}")

    def seq_until(self, close):
        items = []
        if self.peek()[1] == close:
            self.eat()
            return items
        while True:
            items.append(self.value())
            if self.peek()[1] == ",":
                self.eat()
                continue
            self.eat(close)
            return items


def _freeze(x):
    if isinstance(x, dict):
        return tuple(sorted((k, _freeze(v)) for k, v in x.items()))
    if isinstance(x, (list, tuple)):
        return tuple(_freeze(v) for v in x)
    if isinstance(x, (set, frozenset)):
        return frozenset(_freeze(v) for v in x)
    return x


def parse(text: str):
    p = _P(_tokens(text))
    v = p.value()
    if p.i != len(p.t):
        raise TlaParseError(f"trailing tokens after value: {p.t[p.i :][:5]}")
    return v


def _balanced(text: str) -> bool:
    depth = 0
    in_str = False
    i = 0
    while i < len(text):
        c = text[i]
        if in_str:
            if c == "\\":
                i += 1
            elif c == '"':
                in_str = False
        elif c == '"':
            in_str = True
        elif text.startswith("<<", i) or text.startswith(">>", i):
            depth += 1 if text[i] == "<" else -1
            i += 1
        elif c in "[{(":
            depth += 1
        elif c in "]})":
            depth -= 1
        i += 1
    return depth == 0 and not in_str


def extract_prints(lines: list[str]) -> list:
    """PrintT values appear on their own lines (possibly wrapped over several lines).
    Only tuples that start with a string tag are harvested: PrintT(<<"TAG", ...>>)."""
    out = []
    i = 0
    n = len(lines)
    while i < n:
        ln = lines[i]
        if ln.startswith('<<"') or ln.startswith('<< "'):
            buf = ln
            j = i
            while not _balanced(buf) and j + 1 < n and j - i < 400:
                j += 1
                buf += " " + lines[j]
            try:
                out.append(parse(buf))
                i = j + 1
                continue
            except TlaParseError:
                pass
        i += 1
    return out


def to_tla(x) -> str:
    """Python value -> TLA+ expression text (for generated cfg/constant modules)."""
    if isinstance(x, bool):
        return "TRUE" if x else "FALSE"
    if isinstance(x, ModelValue):
        return str(x)
    if isinstance(x, int):
        return str(x)
    if isinstance(x, str):
        return '"' + x.replace("\\", "\\\\").replace('"', '\\"') + '"'
    if isinstance(x, (list, tuple)):
        return "<<" + ", ".join(to_tla(v) for v in x) + ">>"
    if isinstance(x, (set, frozenset)):
        return "{" + ", ".join(sorted(to_tla(v) for v in x)) + "}"
    if isinstance(x, dict):
        if all(isinstance(k, str) and re.fullmatch(r"[A-Za-z_][A-Za-z0-9_]*", k) for k in x):
            return "[" + ", ".join(f"{k} |-> {to_tla(v)}" for k, v in x.items()) + "]"
        if not x:
            return "<<>>"
        return "(" + " @@ ".join(f"{to_tla(k)} :> {to_tla(v)}" for k, v in x.items()) + ")"
    raise TypeError(f"cannot render {type(x)} as TLA+")
