"""C04 — the unpolarised intensity is invariant under a global rotation of the event.

Entirely an observation law (TLC cannot evaluate the intensity): the implementation computes
the intensity on events and on rotated events; the specification contributes the applicability
logic (Alignment!RotationClaimed from the logged outer states: complete helicity sets and one
topology / spinless final state / an alignment selected) and the verdict (Trace_Observe)."""
from __future__ import annotations

import random

import numpy as np

from .. import numeric, observe, trace
from .. import ampl_universe as U
from ..core import Machinery

LEVEL = "other"
META = {
    "technique": "observation law in TLA+ (Trace_Observe / Alignment!RotationClaimed) judged by TLC over intensities that the real models compute on "
    "generated phase-space events and their images under the 24 proper cube rotations and seeded random rotations, for single- and "
    "multi-topology reactions under the three alignment choices",
    "text": "The claim is analytic and TLC cannot evaluate Wigner-D functions: the model contributes which (reaction, alignment) pairs the "
    "property speaks about and a uniform verdict; the numbers are the implementation's. This still reaches what no test does: the "
    "kinematic variables are computed from (rotated) four-momenta and fed into the amplitude, so a sign convention that is consistent "
    "inside each module but not between them changes the intensity.",
    "note": "Trusted: sympy/numpy evaluation of the lambdified model (two-stage), the event generator and rotation matrices. Sampled events "
    "and rotations only; relative tolerance 1e-7.",
    "design_ref": "DESIGN.md §4 C04, §7",
}


def run(chk, replay=None):
    tier = chk.tier
    rng = random.Random(chk.seed)
    nrng = np.random.default_rng(chk.seed)
    chk.assume("sympy/numpy evaluation of the lambdified models", "phase-space generator and rotation matrices (vf/numeric.py)", "TLC for the law and applicability logic")
    cube = numeric.cube_rotations()
    rots = [cube[i] for i in (rng.sample(range(1, 24), 3) if tier == "quick" else range(1, 24))] + [numeric.random_rotation(nrng) for _ in range(2)]
    rots = [np.asarray(r).tolist() for r in rots]
    cases = [
        (("real", "jpsi_ksp_sigma", "helicity"), ["none", "axis", "dpd1"]),
        (("real", "jpsi_3pi_rho", "helicity"), ["none", "dpd2", "axis"]),
        (("real", "jpsi_ksp_two", "helicity"), ["none", "axis", "dpd1"]),
        (("real", "lc_pkpi", "helicity"), ["axis"]),
        (("real", "jpsi_gpp_f2", "canonical-helicity"), ["none"]),
        # one topology whose chains are symmetrised over the two pi0: (01)2 + (02)1 summed coherently
        (("real", "jpsi_gpp_omega_all", "helicity"), ["none", "none+ff"]),   # "+ff": production form factor and Breit-Wigners assigned by name
    ]
    if tier == "thorough":
        cases += [
            (("real", "jpsi_3pi_rho0", "helicity"), ["none", "axis", "dpd1", "dpd3"]),
            (("real", "jpsi_3pi_rho", "helicity"), ["dpd1", "dpd3"]),
            (("real", "jpsi_ksp_sigma", "canonical-helicity"), ["none", "dpd2"]),
            (("real", "d0_kskk", "helicity"), ["none", "dpd1"]),
            (("real", "lc_pkpi", "helicity"), ["none"]),
            (("real", "jpsi_4body", "helicity"), ["none"]),
            # one listed topology, chains symmetrised over two identical particles WITH spin (listed finding)
            (("real", "psi2s_ggjpsi_all", "helicity"), ["none", "dpd1"]),
        ]
    # synthetic four-body cascade / two-resonance single-topology reactions
    n4 = 0
    while n4 < (4 if tier == "thorough" else 1):
        spec = U.synth_spec(rng, nfs=4, formalism="helicity", helset="full", maxspin2=2, ntop=1)
        if spec is None or len(spec["transitions"]) > 20:
            continue
        cases.append((("synth", spec), ["none"]))
        n4 += 1
    # a two-resonance four-body topology (ab)(cd) with both resonances carrying spin: both children of the
    # first node decay further, their helicity frames must turn consistently under a rotation
    tries = 0
    while tries < 5000:
        tries += 1
        spec = U.synth_spec(rng, nfs=4, formalism="helicity", helset="full", maxspin2=2, ntop=1)
        if spec is None or len(spec["transitions"]) > 40:
            continue
        tree = spec["meta"]["tree"]
        inner = [s_ for s_ in tree if 1 < len(s_) < 4]
        if len(inner) == 2 and all(len(s_) == 2 for s_ in inner) and all(d["spin2"] >= 2 for n_, d in spec["particles"].items() if n_.startswith("R")) \
                and spec["particles"]["A"]["spin2"] >= 2 \
                and all(d["mass"] > 0 for n_, d in spec["particles"].items() if n_.startswith("f")):
            cases.append((("synth", spec), ["none"]))
            break
    # an initial state of spin 2: five projections summed incoherently (the projections -1 and -2 are different groups)
    tries = 0
    while tries < 5000:
        tries += 1
        spec = U.synth_spec(rng, nfs=3, formalism="helicity", helset="full", maxspin2=4, ntop=1)
        if spec is None or len(spec["transitions"]) > 40 or spec["particles"]["A"]["spin2"] != 4:
            continue
        # (spinless final states and a resonance with spin: every outer state carries its complete set of projections)
        if all(d["mass"] > 0 and d["spin2"] == 0 for n_, d in spec["particles"].items() if n_.startswith("f")) \
                and any(d["spin2"] >= 2 for n_, d in spec["particles"].items() if n_.startswith("R")):
            cases.append((("synth", spec), ["none"]))
            break
    # Dalitz-plot decomposition on one topology whose spectator carries spin while the last particle does not (and the other way
    # round): every final-state particle is rotated with its OWN spin
    for want in ((1, 0), (0, 1)):
        tries = 0
        while tries < 5000:
            tries += 1
            spec = U.synth_spec(rng, nfs=3, formalism="helicity", helset="full", maxspin2=2, ntop=1)
            if spec is None or len(spec["transitions"]) > 40:
                continue
            P = spec["particles"]
            tree = [tuple(s_) for s_ in spec["meta"]["tree"]]
            if (0, 2) in tree and (P["f1"]["spin2"] > 0, P["f2"]["spin2"] > 0) == (bool(want[0]), bool(want[1])) \
                    and all(P[f"f{i}"]["mass"] > 0 for i in range(3)) and any(d["spin2"] >= 2 for n_, d in P.items() if n_.startswith("R")):
                cases.append((("synth", spec), ["dpd1"] if tier == "quick" else ["dpd1", "dpd2", "dpd3"]))
                break
    jobs, meta = [], []
    for spec, als in cases:
        reaction = observe.load(spec)
        ev = observe.events_for(reaction, 16, nrng)
        for al in als:
            jobs.append((spec, al, ev, rots, chk.seed, False))
            meta.append((spec, al, reaction))
    results = observe.run_jobs(jobs, workers=12, job_timeout=900 if tier == "thorough" else 110)
    records, skipped = [], []
    for (spec, al, reaction), res in zip(meta, results):
        label = f"{spec[1]}:{spec[2]}" if spec[0] == "real" else f"synth4:{spec[1]['meta']['tree']}"
        if res["ok"] == -1:
            raise Machinery(f"worker failed for {label}:{al}: {res['error']}")
        if res["ok"] == -2 or res["ok"] == 0:
            skipped.append(f"{label}:{al}:{res['error'][:60]}")
            continue
        outer = observe.outer_states(reaction)
        ntop = observe.n_topologies(reaction)
        for k, Irot in enumerate(res["Irot"]):
            q, nan = observe.reldiff_q(res["I"], Irot)
            records.append({"kind": "rot", "id": f"{label}|{al}|rot{k}", "outer": outer, "ntop": ntop, "aligned": int(not al.startswith("none")), "alignment": al, "reldiff_q": q, "nan": nan})
            chk.count(1)
        chk.nontrivial((label, al))
    # DPD alignment as a formula: the aligned intensity against the decomposition assembled independently (observe._dpd_job)
    variant = {}
    for r in records:
        lab, al, _ = r["id"].split("|")
        variant[(lab, al)] = variant.get((lab, al), 0) or int(r["reldiff_q"] > 100 or r["nan"])
    djobs, dmeta = [], []
    for (spec, al, reaction), res in zip(meta, results):
        if spec[0] == "real" and al.startswith("dpd") and res["ok"] == 1 and observe.n_topologies(reaction) > 1:
            ev = observe.events_for(reaction, 12, nrng)
            djobs.append((spec, int(al[3]), ev, chk.seed))
            dmeta.append((spec, al, reaction))
    dres = observe.run_jobs(djobs, workers=8, job_timeout=900 if tier == "thorough" else 110, fn=observe._dpd_job) if djobs else []
    for (spec, al, reaction), res in zip(dmeta, dres):
        label = f"{spec[1]}:{spec[2]}"
        if res["ok"] == -1:
            raise Machinery(f"DPD formula worker failed for {label}:{al}: {res['error']}")
        if res["ok"] != 1:
            skipped.append(f"{label}:{al}:dpd-formula:{res['error'][:60]}")
            continue
        q, nan = observe.reldiff_q(res["I"], res["I_formula"])
        outer = observe.outer_states(reaction)
        records.append({"kind": "dpdformula", "id": f"{label}|{al}|formula", "ntop": observe.n_topologies(reaction), "spinful": int(any(o["spin2"] > 0 for o in outer[1:])),
                        "variant": variant.get((label, al), 0), "alignment": al, "reldiff_q": q, "nan": nan, "outer": outer})
        chk.count(1)
    # axis-angle alignment: the Wigner angles against the rotation they are the Euler angles of (observe._wigner_job)
    wjobs, wmeta = [], []
    for (spec, al, reaction), res in zip(meta, results):
        if spec[0] == "real" and al == "axis" and res["ok"] == 1 and observe.n_topologies(reaction) > 1:
            wjobs.append((spec, observe.events_for(reaction, 12, nrng), chk.seed))
            wmeta.append((spec, al, reaction))
    wres = observe.run_jobs(wjobs, workers=8, job_timeout=900 if tier == "thorough" else 110, fn=observe._wigner_job) if wjobs else []
    for (spec, al, reaction), res in zip(wmeta, wres):
        label = f"{spec[1]}:{spec[2]}"
        if res["ok"] == -1:
            raise Machinery(f"Wigner-angle worker failed for {label}: {res['error']}")
        if res["ok"] != 1:
            skipped.append(f"{label}:{al}:wigner-angles:{res['error'][:60]}")
            continue
        for a in res["angles"]:
            if a["diff"] < 0:
                continue   # massless particle
            records.append({"kind": "wignerangles", "id": f"{label}|{al}|wigner{a['suffix']}", "ntop": observe.n_topologies(reaction), "variant": variant.get((label, al), 0),
                            "suffix": a["suffix"], "alignment": al, "diff_q": int(min(a["diff"] * 1e9, 2e9)), "reldiff_q": int(min(a["diff"] * 1e9, 2e9)), "nan": 0, "outer": observe.outer_states(reaction)})
            chk.count(1)
    if not records:
        raise Machinery("no model could be evaluated")
    tv = trace.validate("Trace_Observe", records, timeout=900)
    chk.add_tlc("trace_observe", tv.res, traces=len(records))
    chk.part("records", rot=len(records), skipped=skipped, stats=tv.stats, rotations=len(rots), events_per_model=16)
    if tv.stats.get("rot-claimed", 0) == 0:
        raise Machinery("vacuous: no (reaction, alignment) pair the property speaks about was evaluated")
    chk.sample(records[0])
    byid = {r["id"]: r for r in records}
    for clause, rid, info in tv.rejects:
        r = byid[rid]
        label, al, _ = rid.split("|")
        if r["kind"] == "wignerangles":
            chk.violation(f"wigner-angles-differ-from-the-euler-angles-of-the-wigner-rotation:{label}",
                          f"{label} under axis-angle alignment: R_z(alpha)R_y(beta)R_z(gamma) for {r['suffix']} differs by {r['diff_q'] * 1e-9:.3g} from the rotation "
                          "(boosts along the decay chain) x (direct boost)^-1 computed from the four-momenta (and the intensity of this pair is not rotation invariant)", {"record": r})
            continue
        if r["kind"] == "dpdformula":
            chk.violation(f"dpd-aligned-amplitude-differs-from-the-decomposition-formula:{label}:alignment={al}",
                          f"{label} under {al}: the aligned intensity differs by {r['reldiff_q'] * 1e-9:.3g} (relative) from sum_k sum_l' A^k[l'] d(zeta^0_k(ref)) prod_i d(zeta^i_k(ref)) "
                          "assembled from the model's own topology amplitudes (and the intensity of this pair is not rotation invariant)", {"record": r})
            continue
        spinless = all(o["spin2"] == 0 for o in r["outer"][1:])
        sig = f"rotation-variant:{label}:{'multi' if r['ntop'] > 1 else 'single'}-topology:alignment={al[:3]}"
        chk.violation(sig, f"{label} under alignment {al}: intensity changes by {r['reldiff_q'] * 1e-9:.3g} (relative) under a global rotation ({r['ntop']} topologies)", {"record": r})
    bad = dict(next(r for r in records if r["ntop"] == 1))
    bad["id"] = "corrupted"
    bad["reldiff_q"] = 3_000_000
    tvb = trace.validate("Trace_Observe", [bad])
    if not tvb.rejects:
        raise Machinery("binding demonstration failed")
    chk.part("binding_demo", corrupted="rot.reldiff_q", rejected_by=sorted({r[0] for r in tvb.rejects}))
    chk.cov["explanation"] = (
        "Observation law: for each (reaction, alignment) the real model is evaluated (kinematic variables from four-momenta -> amplitudes -> intensity) on 16 "
        "phase-space events and on their images under cube and random rotations; TLC evaluates RotationClaimed on the logged outer states and judges the "
        "quantised relative differences. evaluations = (model, rotation) pairs; distinct_nontrivial = distinct (reaction, alignment) models evaluated.")
    chk.cov["rule"] = "see explanation"
