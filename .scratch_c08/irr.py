import sys
sys.path.insert(0, "/verif/harness")
from vf import core
from vf.props import c08
chk = core.Check("C08", "thorough", 0, "model_checking")
rec = c08.Recorder(); gen = c08.Gen(chk, rec)
gen.chains(12); gen.inverses(100000); gen.zagree(); gen.rotations(3000); gen.evaluate_args(600)
for r in rec.records:
    if r["k"] == "approx": print(r, rec.meta[r["id"]])
print(len(rec.records))
