----------------------------- MODULE KMatrixLaw -----------------------------
(***************************************************************************)
(* The algebra of K-matrix amplitudes over the Gaussian rationals Q(i),    *)
(* for properties C09 (unitarity, symmetry) and C10 (production vectors).  *)
(*                                                                         *)
(* A rational is <<n, d>> with d > 0 and gcd(|n|, d) = 1; a Gaussian       *)
(* rational is <<re, im>> with re, im rationals; a matrix is a sequence of *)
(* rows.  Every operation cancels common factors *before* it multiplies,   *)
(* so that intermediates stay inside TLC's 32-bit integers on the lattice  *)
(* of KMatrixRef (TLC aborts on overflow; that is a machinery failure,     *)
(* never a verdict).                                                       *)
(*                                                                         *)
(* The laws use multiplication and addition only -- no matrix inverse:     *)
(*   relativistic      T^ (1 - i rho K) = K        T = sqrt(rho)* T^ sqrt(rho)   *)
(*   non-relativistic  T (1 - i K) = K                                     *)
(*   both              (1 + 2iT)^dagger (1 + 2iT) = 1     T = T^T          *)
(*   production        (1 - i K) F = P                                     *)
(*   relativistic      (sqrt(rho)* - i K sqrt(rho)) F^ = sqrt(rho)* P      *)
(*                     F = sqrt(rho) F^      [hence (1 - iK) F = sqrt(rho) P]  *)
(* (the relativistic production law is  (1 - i K^ rho) F^ = P  with         *)
(*  K^ = sqrt(rho)*^-1 K sqrt(rho)^-1 and rho = sqrt(rho)^2, multiplied    *)
(*  from the left by sqrt(rho)*; all laws take Gaussian matrices/vectors.) *)
(*                                                                         *)
(* A reference solution by Cramer's rule (n <= 2, one Gaussian division by *)
(* the determinant) is defined at the end; KMatrixRef model-checks that it *)
(* satisfies every law on the whole lattice.                               *)
(***************************************************************************)
EXTENDS Integers, Sequences, FiniteSets, TLC

Abs(x) == IF x < 0 THEN -x ELSE x

RECURSIVE Gcd(_, _)
Gcd(a, b) == IF b = 0 THEN a ELSE Gcd(b, a % b)

\* ---- rationals ---------------------------------------------------------------
RNorm(n, d) ==
  LET s == IF d < 0 THEN -1 ELSE 1
      g == Gcd(Abs(n), Abs(d))
  IN  <<(s * n) \div g, (s * d) \div g>>
RZero == <<0, 1>>
ROne == <<1, 1>>
RInt(k) == <<k, 1>>
RNeg(a) == <<-a[1], a[2]>>
RAdd(a, b) ==
  LET g == Gcd(a[2], b[2])
  IN  RNorm(a[1] * (b[2] \div g) + b[1] * (a[2] \div g), (a[2] \div g) * b[2])
RSub(a, b) == RAdd(a, RNeg(b))
RMul(a, b) ==
  IF a[1] = 0 \/ b[1] = 0 THEN RZero
  ELSE LET g1 == Gcd(Abs(a[1]), b[2])
           g2 == Gcd(Abs(b[1]), a[2])
       IN  <<(a[1] \div g1) * (b[1] \div g2), (a[2] \div g2) * (b[2] \div g1)>>
RInv(a) == IF a[1] < 0 THEN <<-a[2], -a[1]>> ELSE <<a[2], a[1]>>      \* a # 0
RDiv(a, b) == RMul(a, RInv(b))
RPos(a) == a[1] > 0
RWellFormed(a) == a[2] > 0 /\ Gcd(Abs(a[1]), a[2]) = 1

\* ---- Gaussian rationals ------------------------------------------------------
GZero == <<RZero, RZero>>
GOne == <<ROne, RZero>>
GI == <<RZero, ROne>>
GR(r) == <<r, RZero>>                      \* a real number
GAdd(a, b) == <<RAdd(a[1], b[1]), RAdd(a[2], b[2])>>
GSub(a, b) == <<RSub(a[1], b[1]), RSub(a[2], b[2])>>
GNeg(a) == <<RNeg(a[1]), RNeg(a[2])>>
GMul(a, b) == <<RSub(RMul(a[1], b[1]), RMul(a[2], b[2])),
                RAdd(RMul(a[1], b[2]), RMul(a[2], b[1]))>>
GConj(a) == <<a[1], RNeg(a[2])>>
GNorm2(a) == RAdd(RMul(a[1], a[1]), RMul(a[2], a[2]))
GDiv(a, b) ==                               \* b # 0
  LET m == GNorm2(b)
      c == GMul(a, GConj(b))
  IN  <<RDiv(c[1], m), RDiv(c[2], m)>>
GIsReal(a) == a[2] = RZero
GTimesI(a) == <<RNeg(a[2]), a[1]>>

RECURSIVE GSum(_)
GSum(s) == IF s = <<>> THEN GZero ELSE GAdd(Head(s), GSum(Tail(s)))

\* ---- matrices (sequences of rows of Gaussian rationals) ------------------------
\* TLC evaluates [i \in S |-> e] lazily and re-evaluates e on every application; TLCEval
\* forces an explicit value, which keeps nested matrix products polynomial.
Mk(n, m, E(_, _)) == TLCEval([i \in 1..n |-> TLCEval([j \in 1..m |-> E(i, j)])])
MkV(n, E(_)) == TLCEval([i \in 1..n |-> E(i)])
Rows(A) == Len(A)
Cols(A) == Len(A[1])
MMul(A, B) ==
  Mk(Rows(A), Cols(B), LAMBDA i, j : GSum(MkV(Rows(B), LAMBDA k : GMul(A[i][k], B[k][j]))))
MAdd(A, B) == Mk(Rows(A), Cols(A), LAMBDA i, j : GAdd(A[i][j], B[i][j]))
MSub(A, B) == Mk(Rows(A), Cols(A), LAMBDA i, j : GSub(A[i][j], B[i][j]))
MTimesI(A) == Mk(Rows(A), Cols(A), LAMBDA i, j : GTimesI(A[i][j]))
MTranspose(A) == Mk(Cols(A), Rows(A), LAMBDA i, j : A[j][i])
MDagger(A) == Mk(Cols(A), Rows(A), LAMBDA i, j : GConj(A[j][i]))
MId(n) == Mk(n, n, LAMBDA i, j : IF i = j THEN GOne ELSE GZero)
MDiag(v) == Mk(Len(v), Len(v), LAMBDA i, j : IF i = j THEN v[i] ELSE GZero)
VConj(v) == MkV(Len(v), LAMBDA i : GConj(v[i]))
MReal(K) == Mk(Len(K), Len(K[1]), LAMBDA i, j : GR(K[i][j]))       \* rational matrix -> Gaussian
VReal(v) == MkV(Len(v), LAMBDA i : GR(v[i]))
Col(v) == Mk(Len(v), 1, LAMBDA i, j : v[i])                            \* vector -> n x 1 matrix
IsSquare(A, n) == Len(A) = n /\ \A i \in 1..n : Len(A[i]) = n

\* ---- hypotheses of the property ------------------------------------------------
RealSymmetric(K) == \A i, j \in 1..Len(K) : K[i][j] = K[j][i]             \* K is a matrix of rationals
PositiveRho(rho, sq) ==                                                    \* vectors of rationals, sq = sqrt(rho)
  \A i \in 1..Len(rho) : RPos(rho[i]) /\ RPos(sq[i]) /\ RMul(sq[i], sq[i]) = rho[i]

\* ---- the laws ----------------------------------------------------------------
\* 1 - i D K  for a diagonal D (vector of Gaussians) and a Gaussian matrix K
OneMinusIDK(d, K) == MSub(MId(Len(K)), MTimesI(MMul(MDiag(d), K)))
OneMinusIKD(d, K) == MSub(MId(Len(K)), MTimesI(MMul(K, MDiag(d))))
OneMinusIK(K) == MSub(MId(Len(K)), MTimesI(K))

RelThatLaw(That, K, rho) == MMul(That, OneMinusIDK(rho, K)) = K           \* T^ (1 - i rho K) = K
RelTLaw(T, That, sq) == T = MMul(MMul(MDiag(VConj(sq)), That), MDiag(sq))
NonRelLaw(T, K) == MMul(T, OneMinusIK(K)) = K                             \* T (1 - iK) = K
Symmetric(T) == T = MTranspose(T)

\* Unitarity, evaluated on integers: with c the least common denominator of all entries
\* and A = c T (Gaussian integers),  S^dagger S = 1  <=>  2 A^dagger A = i c (A^dagger - A).
\* |T_ij| <= 1 is a consequence of unitarity; it is checked first and bounds every
\* intermediate by 2 n c^2, which is below 2^31 for c <= CMax.
CMax == 18000
Lcm(a, b) == IF a > CMax \/ b > CMax THEN CMax + 1 ELSE (a \div Gcd(a, b)) * b
RECURSIVE LcmSeq(_)
LcmSeq(s) == IF s = <<>> THEN 1 ELSE Lcm(Head(s), LcmSeq(Tail(s)))
\* the 2 n m denominators of a matrix, as one sequence
Dens(A) == MkV(2 * Rows(A) * Cols(A), LAMBDA k :
             LET q == (k - 1) \div 2
                 e == A[(q \div Cols(A)) + 1][(q % Cols(A)) + 1]
             IN  IF k % 2 = 1 THEN e[1][2] ELSE e[2][2])
CommonDen(A) == LcmSeq(Dens(A))
InBudget(A) == CommonDen(A) <= CMax
\* integer pair <<re, im>> of c * T_ij
Scaled(A, c) == Mk(Rows(A), Cols(A), LAMBDA i, j :
                   <<A[i][j][1][1] * (c \div A[i][j][1][2]), A[i][j][2][1] * (c \div A[i][j][2][2])>>)
RECURSIVE ISum(_)
ISum(s) == IF s = <<>> THEN 0 ELSE Head(s) + ISum(Tail(s))
EntriesBounded(T) ==                                                      \* |T_ij| <= 1
  LET c == CommonDen(T)  A == Scaled(T, c)
  IN  \A i \in 1..Rows(T), j \in 1..Cols(T) :
        /\ Abs(A[i][j][1]) <= c /\ Abs(A[i][j][2]) <= c
        /\ A[i][j][1] * A[i][j][1] + A[i][j][2] * A[i][j][2] <= c * c
UnitaryInt(T) ==
  LET n == Rows(T)  c == CommonDen(T)  A == Scaled(T, c)
      \* (A^dagger A)_ij = sum_k conj(A_ki) A_kj
      ReAA(i, j) == ISum(MkV(n, LAMBDA k : A[k][i][1] * A[k][j][1] + A[k][i][2] * A[k][j][2]))
      ImAA(i, j) == ISum(MkV(n, LAMBDA k : A[k][i][1] * A[k][j][2] - A[k][i][2] * A[k][j][1]))
      \* i c (A^dagger - A)_ij = i c (conj(A_ji) - A_ij) = c (Im A_ji + Im A_ij) + i c (Re A_ji - Re A_ij)
      ReR(i, j) == c * (A[j][i][2] + A[i][j][2])
      ImR(i, j) == c * (A[j][i][1] - A[i][j][1])
  IN  \A i, j \in 1..n : 2 * ReAA(i, j) = ReR(i, j) /\ 2 * ImAA(i, j) = ImR(i, j)
Unitary(T) == EntriesBounded(T) /\ UnitaryInt(T)

\* the same statement in Gaussian-rational arithmetic (no budget guard; used by the
\* reference model on small cases to cross-check UnitaryInt)
UnitaryRat(T) ==
  LET n == Rows(T)
      S == MAdd(MId(n), MTimesI(MAdd(T, T)))
  IN  MMul(MDagger(S), S) = MId(n)

\* production vectors (F, P are n x 1 matrices)
NonRelFLaw(F, K, P) == MMul(OneMinusIK(K), F) = P
RelFhatLaw(Fhat, K, sq, P) ==                  \* (sqrt(rho)* - i K sqrt(rho)) F^ = sqrt(rho)* P
  LET csq == VConj(sq)
  IN  MMul(MSub(MDiag(csq), MTimesI(MMul(K, MDiag(sq)))), Fhat) = MMul(MDiag(csq), P)
RelFLaw(F, Fhat, sq) == F = MMul(MDiag(sq), Fhat)
\* consequence linking C10 to C09: (1 - iK)^-1 = 1 + iT
FViaT(F, T, P) == F = MAdd(P, MTimesI(MMul(T, P)))

\* ---- reference solution (Cramer's rule, n <= 2) ---------------------------------
Det(M) == IF Len(M) = 1 THEN M[1][1]
          ELSE GSub(GMul(M[1][1], M[2][2]), GMul(M[1][2], M[2][1]))
Adj(M) == IF Len(M) = 1 THEN <<<<GOne>>>>
          ELSE << <<M[2][2], GNeg(M[1][2])>>, <<GNeg(M[2][1]), M[1][1]>> >>
Inverse(M) == LET d == Det(M)  a == Adj(M)
              IN  Mk(Len(M), Len(M), LAMBDA i, j : GDiv(a[i][j], d))
RefThat(K, rho) == MMul(K, Inverse(OneMinusIDK(rho, K)))
RefT(K, rho, sq) == MMul(MMul(MDiag(VConj(sq)), RefThat(K, rho)), MDiag(sq))
RefTnr(K) == MMul(K, Inverse(OneMinusIK(K)))
RefF(K, P) == MMul(Inverse(OneMinusIK(K)), P)
\* F^ = (1 - i K^ rho)^-1 P  with  K^ = sqrt(rho)*^-1 K sqrt(rho)^-1
RefFhat(K, rho, sq, P) ==
  LET isq == MkV(Len(sq), LAMBDA i : GDiv(GOne, sq[i]))
      icsq == MkV(Len(sq), LAMBDA i : GDiv(GOne, GConj(sq[i])))
      Khat == MMul(MMul(MDiag(icsq), K), MDiag(isq))
  IN  MMul(Inverse(OneMinusIKD(rho, Khat)), P)
=============================================================================
