--------------------------- MODULE ExprOps_MC ---------------------------
(***************************************************************************)
(* Finite universes for ExprOps.                                           *)
(*                                                                         *)
(* Pool universe (C18): summands f(a, b) over leaf symbols, index symbols  *)
(* and value labels; 0..MaxIdx indices per sum with pools from PoolSet     *)
(* (singletons, duplicates, rational labels); nested sums Pool(Pool) and   *)
(* Pool(g(a, Pool)) including shadowed indices.                            *)
(*                                                                         *)
(* Class universe (C14, C15): class *slots*.  A slot stands for one real   *)
(* expression class chosen by the harness for a replay; all TLC needs to   *)
(* know is its signature: number of SymPy arguments varied (1 or 2),       *)
(* number of non-SymPy attributes varied (0..2), whether doit() unfolds.   *)
(* Outer slots and inner slots are kept apart so that every real class can *)
(* be nested into every position of every other real class.                *)
(***************************************************************************)
EXTENDS ExprOps

CONSTANTS LeafS, IdxS, BodyVals, PoolSet, MaxIdx, MaxInnerIdx, BuildD2,
          SlotsAr1, SlotsAr2, SlotsNa0, SlotsNa1, SlotsNa2, OuterSlots, InnerSlots

DevNone == {}
DevBoundIndexSubs == {"BoundIndexSubs"}
DevDropUnusedIndex == {"DropUnusedIndex"}
DevDeepAstuple == {"DeepAstuple"}
DevDropIndexUnusedAfterSubst == {"DropIndexUnusedAfterSubst"}
NoTerms == {}

\* ======================= pool universe =========================================
PoolsSmall == { <<"1">>, <<"1", "2">>, <<"2", "2">> }
PoolsFull  == { <<"1">>, <<"3">>, <<"1", "2">>, <<"2", "2">>, <<"3", "1/2", "1">> }

Atoms == { Leaf(s) : s \in LeafS \cup IdxS } \cup { Val(v) : v \in BodyVals }
F2 == { Node("f", <<a, b>>, <<>>) : a \in Atoms, b \in Atoms }
Ix1 == { << <<s, p>> >> : s \in IdxS, p \in PoolSet }
Ix2 == { << <<s[1], p[1]>>, <<s[2], p[2]>> >> :
           s \in { q \in IdxS \X IdxS : q[1] # q[2] }, p \in PoolSet \X PoolSet }
IxUpTo(k) == { <<>> } \cup (IF k >= 1 THEN Ix1 ELSE {}) \cup (IF k >= 2 THEN Ix2 ELSE {})
PoolD1 == IF ~ BuildD2 THEN {} ELSE { Pool(b, ix) : b \in F2, ix \in IxUpTo(MaxIdx) }
PoolInner == { Pool(b, ix) : b \in F2, ix \in IxUpTo(MaxInnerIdx) }
\* (TLC evaluates constant definitions eagerly: BuildD2 = FALSE keeps the large sets out of
\* configurations that start from the seeds F2 and grow terms with Nest)
PoolD2 == IF ~ BuildD2 THEN {} ELSE
          { Pool(q, ix) : q \in PoolInner, ix \in Ix1 } \cup
          { Pool(Node("g", <<a, q>>, <<>>), ix) : a \in Atoms, q \in PoolInner, ix \in Ix1 }
PoolInitD1 == PoolD1
PoolInit   == PoolD1 \cup PoolD2

PoolRepl  == { Leaf("y"), Val("1"), Val("3"), Node("h", <<Leaf("y")>>, <<>>) }
PoolKeys  == { Leaf(s) : s \in LeafS \cup IdxS }
PoolPairs == { <<k, r>> : k \in PoolKeys, r \in PoolRepl }
PoolMaps  == { << <<Leaf(s), Leaf("y")>>, <<Leaf(i), Val("3")>> >> : s \in LeafS, i \in IdxS } \cup
             { << <<Leaf(q[1]), Leaf("y")>>, <<Leaf(q[2]), Val("1")>> >> : q \in { r \in IdxS \X IdxS : r[1] # r[2] } } \cup
             { << <<Leaf("w"), Leaf("y")>> >> }
PoolCtxs  == { Pool(Hole, ix) : ix \in IxUpTo(MaxIdx) } \cup
             { Pool(Node("g", <<a, Hole>>, <<>>), ix) : a \in Atoms, ix \in Ix1 }

\* the interpreted head Z: summands Z(a, b) and g(x, Z(a, b)) in normal form, pools that contain 0
PoolsZero == { <<"0">>, <<"1">>, <<"0", "1">>, <<"1", "2">>, <<"0", "0">> }
ZAtoms == { Leaf(s) : s \in LeafS \cup IdxS } \cup { Val("1") }
Z2 == { Node("Z", <<a, b>>, <<>>) : a \in ZAtoms, b \in ZAtoms }
ZBodies == Z2 \cup { Node("g", <<Leaf("x"), z>>, <<>>) : z \in Z2 }
PoolZInit == { Pool(b, ix) : b \in ZBodies, ix \in IxUpTo(MaxIdx) }
PoolZPairs == { <<Leaf(s), r>> : s \in LeafS \cup IdxS, r \in { Val("0"), Leaf("y") } }
PoolZMaps == { << <<Leaf(s), Val("0")>>, <<Leaf(i), Val("1")>> >> : s \in LeafS, i \in IdxS }

\* a small configuration whose complete state graph is dumped and walked edge by edge
GraphBodies == { Node("f", <<Leaf("x"), Leaf("i")>>, <<>>), Node("f", <<Leaf("i"), Leaf("j")>>, <<>>),
                 Node("f", <<Leaf("i"), Val("1")>>, <<>>) }
GraphInner == { Pool(Node("f", <<Leaf("i"), Val("1")>>, <<>>), << <<"i", <<"1", "2">>>> >>),
                Pool(Node("f", <<Leaf("i"), Leaf("j")>>, <<>>), << <<"j", <<"2", "2">>>> >>) }
PoolGraphInit == { Pool(b, ix) : b \in GraphBodies, ix \in IxUpTo(MaxIdx) } \cup
                 { Pool(q, ix) : q \in GraphInner, ix \in Ix1 } \cup
                 { Pool(Node("g", <<Leaf("i"), q>>, <<>>), ix) : q \in GraphInner, ix \in Ix1 }
PoolGraphPairs == { <<k, r>> : k \in PoolKeys, r \in { Leaf("y"), Val("3") } }
PoolGraphMaps == { << <<Leaf("x"), Leaf("y")>>, <<Leaf("i"), Val("3")>> >> }

\* ======================= class universe ==========================================
Slots == SlotsAr1 \cup SlotsAr2
Ar(c) == IF c \in SlotsAr1 THEN 1 ELSE 2
Na(c) == IF c \in SlotsNa0 THEN 0 ELSE IF c \in SlotsNa1 THEN 1 ELSE 2
AttrLabels == {"a", "b"}
ClsLeaves == { Leaf(s) : s \in LeafS }
NodesOver(c, argset) ==
  { Node(c, args, att) : args \in [1..Ar(c) -> argset], att \in [1..Na(c) -> AttrLabels] }
ClassD1(slots) == UNION { NodesOver(c, ClsLeaves) : c \in slots }
ClassD2 == IF ~ BuildD2 THEN {} ELSE UNION { { [o EXCEPT !.a[pos] = inner] :
                       o \in NodesOver(c, ClsLeaves), pos \in 1..Ar(c), inner \in ClassD1(InnerSlots) }
                   : c \in OuterSlots }
ClassInitD1 == ClassD1(Slots)
ClassInitD2 == ClassD2
ClassInit   == ClassD1(Slots) \cup ClassD2

InnerUnary == { c \in InnerSlots : Ar(c) = 1 /\ Na(c) = 0 }
ClassRepl == { Leaf("w"), Node("h", <<Leaf("w")>>, <<>>) } \cup ClsLeaves \cup
             { Node(c, <<Leaf("w")>>, <<>>) : c \in InnerUnary }
\* subs(old, new): symbol keys only (compound keys follow SymPy's pattern matching, which is
\* not part of the statement); a nested node as key is exercised with xreplace
ClassPairs == { q \in ClsLeaves \X ClassRepl : q[1] # q[2] }
TwoLeaves == { q \in LeafS \X LeafS : q[1] # q[2] }
ClassMaps == { << <<Leaf(q[1]), Leaf(q[2])>>, <<Leaf(q[2]), Leaf(q[1])>> >> : q \in TwoLeaves } \cup
             { << <<Leaf(q[1]), Leaf("w")>>, <<Leaf(q[2]), Node("h", <<Leaf(q[1])>>, <<>>)>> >> : q \in TwoLeaves } \cup
             { << <<Leaf("w"), Leaf("x")>> >> } \cup
             { << <<Node(c, <<Leaf(s)>>, <<>>), Leaf("w")>> >> : c \in InnerUnary, s \in LeafS }
FirstLeaf == Leaf(CHOOSE s \in LeafS : TRUE)
ClassCtxs == { Node(c, IF Ar(c) = 1 THEN <<Hole>> ELSE <<Hole, FirstLeaf>>, [j \in 1..Na(c) |-> "a"]) : c \in OuterSlots } \cup
             { Node(c, <<FirstLeaf, Hole>>, [j \in 1..Na(c) |-> "a"]) : c \in OuterSlots \cap SlotsAr2 }
\* ---- mixed universe: pool sums as outer class over class slots and as nested argument of class slots;
\* maps that contain a summation index *and* a free symbol (the index part must not matter, the rest
\* must be applied), in xreplace form and in subs(dict) form
MixPools == { <<"1", "2">>, <<"2">> }
MixInner == { Pool(Node("f", <<Leaf(s), Leaf("i")>>, <<>>), << <<"i", p>> >>) : s \in LeafS, p \in MixPools }
MixArgs(c) == IF Ar(c) = 1 THEN { <<Leaf("i")>> }
              ELSE { <<Leaf(s), Leaf("i")>> : s \in LeafS } \cup { <<Leaf("i"), Leaf(s)>> : s \in LeafS }
MixOuter == UNION { { Pool(Node(c, args, att), << <<"i", p>> >>) :
                        args \in MixArgs(c), att \in [1..Na(c) -> AttrLabels], p \in MixPools } : c \in OuterSlots }
MixNested == UNION { { [o EXCEPT !.a[pos] = q] : o \in NodesOver(c, ClsLeaves), pos \in 1..Ar(c), q \in MixInner }
                     : c \in OuterSlots }
MixShadow == { Pool(Node("g", <<Leaf("i"), q>>, <<>>), << <<"i", <<"2", "3">>>> >>) : q \in MixInner }
MixInit == MixInner \cup MixOuter \cup MixNested \cup MixShadow
MixRepl == { Leaf("w"), Node("h", <<Leaf("w")>>, <<>>) }
MixMaps == { << <<Leaf("i"), Val("3")>>, <<Leaf(s), r>> >> : s \in LeafS, r \in MixRepl } \cup
           { << <<Leaf(s), r>>, <<Leaf("i"), Leaf("w")>> >> : s \in LeafS, r \in MixRepl } \cup
           { << <<Leaf("i"), Val("3")>> >> }
MixPairs == { <<Leaf(s), r>> : s \in LeafS, r \in MixRepl } \cup { <<Leaf("i"), Val("3")>>, <<Leaf("i"), Leaf("w")>> }
NoMaps == {}

ClassVaryArgs == ClsLeaves \cup {Leaf("w")}
ClassVaryAttrs == AttrLabels
NoLabels == {}
NoPools == {}
PoolVaryPools == PoolSet
PoolVaryArgs == Atoms
=============================================================================
