--------------------------- MODULE Trace_Expr ---------------------------
(***************************************************************************)
(* Code -> specification for C14 / C15 / C18.  The harness runs operations *)
(* on real objects (all expression classes found in the installed package, *)
(* pool sums larger than the model-checked universe) and logs one record   *)
(* per operation:  the projected operand, the operation with its argument, *)
(* and the projected result.  This module recomputes the expected result   *)
(* with ExprAlgebra and rejects a record that differs.                     *)
(*                                                                         *)
(* Record formats (terms as JSON objects {k,h,a,at,ix,bg}, bags as arrays  *)
(* of [term, count]):                                                      *)
(*   {id, op:"subst",   t, m:[[key, repl]..], r}        r = Subst(t, m)    *)
(*   {id, op:"doit",    t, r}                           r = Doit(t)        *)
(*   {id, op:"free",    t, fs:[names]}                  fs = FreeSyms(t)   *)
(*   {id, op:"cleanup", t, r}               Doit(r) = Doit(t)              *)
(*   {id, op:"pickle" | "rebuild", t, r}                r = t              *)
(*   {id, op:"eq", t, u, eq, hash}     eq = 1 <=> t = u;  eq = 1 => hash=1 *)
(*   {id, op:"commute", t, eq, diff_q}  observed: subst;doit = doit;subst  *)
(*   {id, op:"same", t, u, eq, hash}   t = u (two constructions of one instance) *)
(***************************************************************************)
EXTENDS ExprAlgebra, Json, IOUtils

Log == ndJsonDeserialize(IOEnv.TRACE_FILE)
TraceEvalClasses == {}
TraceDev == {}

VARIABLE l
Rec == Log[l]

RECURSIVE FromJ(_)
FromJ(j) == Mk(j.k, j.h,
               [x \in DOMAIN j.a |-> FromJ(j.a[x])],
               j.at,
               [x \in DOMAIN j.ix |-> <<j.ix[x][1], j.ix[x][2]>>],
               { <<FromJ(j.bg[x][1]), j.bg[x][2]>> : x \in DOMAIN j.bg })
MapJ(m) == [x \in DOMAIN m |-> <<FromJ(m[x][1]), FromJ(m[x][2])>>]

Clause(name, ok, info) == IF ok THEN TRUE ELSE PrintT(<<"REJECT", name, Rec.id, info>>)
Stat(name, cond) == IF cond THEN PrintT(<<"STAT", name, 1>>) ELSE TRUE

StepSubst ==
  LET t == FromJ(Rec.t)  m == MapJ(Rec.m)  r == FromJ(Rec.r) IN
  /\ Clause("WellFormed", WellFormed(t), <<>>)
  /\ IF Admissible(t, m)
     THEN /\ Clause("Subst", Subst(t, m) = r, <<>>)
          /\ Stat("subst_changed", r # t)
          /\ Stat("subst_bound_only", \A key \in MapKeys(m) : key.k = "leaf" /\ key.h \notin FreeSyms(t))
          /\ Stat("subst_nested", \E x \in DOMAIN t.a : t.a[x].k \in {"node", "pool"})
     ELSE Stat("subst_inadmissible", TRUE)

StepDoit ==
  LET t == FromJ(Rec.t)  r == FromJ(Rec.r) IN
  /\ Clause("WellFormed", WellFormed(t), <<>>)
  /\ Clause("Doit", Doit(t) = r, <<>>)
  /\ Stat("doit_nested", \E s \in SubTerms(t) : s # t /\ s.k = "pool")
  /\ Stat("doit_multiplicity", \E p \in BagOf(r) : p[2] > 1)

StepFree ==
  LET t == FromJ(Rec.t) IN
  /\ Clause("FreeSyms", FreeSyms(t) = Range(Rec.fs), <<>>)
  /\ Stat("free_bound_nonempty", BoundSyms(t) # {})

StepCleanup ==
  LET t == FromJ(Rec.t)  r == FromJ(Rec.r) IN
  /\ Clause("CleanupKeepsValue", Doit(r) = Doit(t), <<>>)
  /\ Stat("cleanup_as_specified", r = Cleanup(t))
  /\ Stat("cleanup_changed", r # t)

StepIdentity ==
  LET t == FromJ(Rec.t)  r == FromJ(Rec.r) IN
  /\ Clause(IF Rec.op = "pickle" THEN "PickleIdentity" ELSE "RebuildIdentity",
            r = t /\ PickleRT(t) = t /\ Rebuild(t) = t, <<>>)
  /\ Stat("identity_nested", \E x \in DOMAIN t.a : t.a[x].k \in {"node", "pool"})

StepEq ==
  LET t == FromJ(Rec.t)  u == FromJ(Rec.u) IN
  /\ Clause("EqIffSameTerm", (Rec.eq = 1) = EqT(t, u), <<>>)
  /\ Clause("EqualHashAlike", (Rec.eq = 1) => (Rec.hash = 1), <<>>)
  /\ Clause("UnequalHashDiffer", (~ EqT(t, u)) => (Rec.hash = 0), <<>>)
  /\ Stat("eq_equal", EqT(t, u))
  /\ Stat("eq_differ_in_attr_only", ~ EqT(t, u) /\ t.h = u.h /\ t.a = u.a /\ t.at # u.at)

\* observation: the two orders of substituting and unfolding were evaluated on the real object (numerically equal?)
StepCommute ==
  /\ Clause("SubstThenUnfoldEqualsUnfoldThenSubst", Rec.eq = 1, <<Rec.diff_q>>)
  /\ Stat("commute_observed", TRUE)

\* two ways of constructing the same instance (positional arguments / keyword arguments in another order)
StepSame ==
  LET t == FromJ(Rec.t)  u == FromJ(Rec.u) IN
  /\ Clause("KeywordConstructionEqualsPositional", t = u /\ Rec.eq = 1 /\ Rec.hash = 1, <<>>)
  /\ Stat("same_observed", TRUE)

Step ==
  /\ l <= Len(Log)
  /\ CASE Rec.op = "subst"   -> StepSubst
       [] Rec.op = "doit"    -> StepDoit
       [] Rec.op = "free"    -> StepFree
       [] Rec.op = "cleanup" -> StepCleanup
       [] Rec.op \in {"pickle", "rebuild"} -> StepIdentity
       [] Rec.op = "eq"      -> StepEq
       [] Rec.op = "commute" -> StepCommute
       [] Rec.op = "same"    -> StepSame
       [] OTHER -> Clause("KnownOp", FALSE, Rec.op)
  /\ l' = l + 1

TraceInit == l = 1
TraceSpec == TraceInit /\ [][Step]_l
TraceAccepted == TLCGet("stats").diameter = Len(Log) + 1
=============================================================================
