---------------------------- MODULE LineshapeBig ----------------------------
(***************************************************************************)
(* Exact arithmetic beyond TLC's 32-bit integers, used by Lineshape for    *)
(* the Blatt-Weisskopf rational functions (coefficients up to ((2L-1)!!)^2 *)
(* = 4.3e17 for L = 10) and for deciding 12-digit observations against     *)
(* exact squares (Q^2 against n/d * 10^24).                                *)
(*                                                                         *)
(*  N  naturals : little-endian sequences of limbs 0..B-1, B = 1000, no    *)
(*               leading zero limb (zero is <<>>) - a canonical form, so   *)
(*               equality of naturals is equality of sequences.            *)
(*  Z  integers : <<p, n>> with p, n naturals, meaning p - n.              *)
(*  Q  rationals: <<num, den>> with num, den in Z, den # 0, never          *)
(*               normalised; compared by cross-multiplication.             *)
(*                                                                         *)
(* With B = 1000 a column sum of a product of two naturals of k limbs is   *)
(* below k * 10^6, so every native intermediate stays below 2^31 for       *)
(* operands of up to 2000 limbs (6000 digits).                             *)
(***************************************************************************)
EXTENDS Integers, Sequences, TLC

\* TLC represents [i \in 1..n |-> e] as a closure and re-evaluates e at every application;
\* Strict turns it into a concrete sequence once (TLCEval is the identity, evaluated eagerly).
Strict(f) == TLCEval(f)

B == 1000

MaxI(x, y) == IF x >= y THEN x ELSE y
MinI(x, y) == IF x <= y THEN x ELSE y
Limb(a, i) == IF i <= Len(a) THEN a[i] ELSE 0

RECURSIVE CarryR(_, _, _)
CarryR(col, i, c) ==
  IF i > Len(col)
  THEN IF c = 0 THEN <<>> ELSE <<c % B>> \o CarryR(col, i, c \div B)
  ELSE LET t == col[i] + c IN <<t % B>> \o CarryR(col, i + 1, t \div B)

RECURSIVE Trim(_)
Trim(a) == IF Len(a) = 0 THEN <<>>
           ELSE IF a[Len(a)] = 0 THEN Trim(SubSeq(a, 1, Len(a) - 1)) ELSE a

\* a sequence of non-negative native integers (column sums) -> canonical natural
Carry(col) == Trim(CarryR(col, 1, 0))

IsN(a) == /\ \A i \in 1..Len(a) : a[i] \in 0..(B - 1)
          /\ (Len(a) > 0 => a[Len(a)] # 0)

NOf(k) == Carry(<<k>>)                       \* k >= 0 native
NAdd(a, b) == Carry(Strict([i \in 1..MaxI(Len(a), Len(b)) |-> Limb(a, i) + Limb(b, i)]))

RECURSIVE ColSum(_, _, _, _, _)
ColSum(a, b, k, i, hi) == IF i > hi THEN 0 ELSE a[i] * b[k + 1 - i] + ColSum(a, b, k, i + 1, hi)
NMul(a, b) ==
  IF Len(a) = 0 \/ Len(b) = 0 THEN <<>>
  ELSE Carry(Strict([k \in 1..(Len(a) + Len(b) - 1) |->
                       ColSum(a, b, k, MaxI(1, k + 1 - Len(b)), MinI(Len(a), k))]))

RECURSIVE CmpFrom(_, _, _)
CmpFrom(a, b, i) == IF i = 0 THEN 0
                    ELSE IF a[i] > b[i] THEN 1 ELSE IF a[i] < b[i] THEN -1 ELSE CmpFrom(a, b, i - 1)
NCmp(a, b) == IF Len(a) > Len(b) THEN 1 ELSE IF Len(a) < Len(b) THEN -1 ELSE CmpFrom(a, b, Len(a))
NLe(a, b) == NCmp(a, b) <= 0
NLt(a, b) == NCmp(a, b) < 0

\* a - b for a >= b
RECURSIVE SubR(_, _, _, _)
SubR(a, b, i, br) ==
  IF i > Len(a) THEN <<>>
  ELSE LET t == a[i] - Limb(b, i) - br
       IN IF t < 0 THEN <<t + B>> \o SubR(a, b, i + 1, 1) ELSE <<t>> \o SubR(a, b, i + 1, 0)
NSub(a, b) == Trim(SubR(a, b, 1, 0))
NMonus(a, b) == IF NLe(a, b) THEN <<>> ELSE NSub(a, b)       \* max(a - b, 0)

\* a * B^k
NShift(a, k) == IF Len(a) = 0 THEN <<>> ELSE Strict([i \in 1..(k + Len(a)) |-> IF i <= k THEN 0 ELSE a[i - k]])

RECURSIVE NPow(_, _)
NPow(a, e) == IF e = 0 THEN <<1>> ELSE NMul(a, NPow(a, e - 1))

\* exact division by a native d in 1..2000000 (remainder dropped; NRemSmall gives it)
RECURSIVE DivR(_, _, _, _)
DivR(a, d, i, r) == IF i = 0 THEN <<>>
                    ELSE LET t == r * B + a[i] IN DivR(a, d, i - 1, t % d) \o <<t \div d>>
NDivSmall(a, d) == Trim(DivR(a, d, Len(a), 0))
RECURSIVE RemR(_, _, _, _)
RemR(a, d, i, r) == IF i = 0 THEN r ELSE RemR(a, d, i - 1, (r * B + a[i]) % d)
NRemSmall(a, d) == RemR(a, d, Len(a), 0)

RECURSIVE NFact(_)
NFact(k) == IF k = 0 THEN <<1>> ELSE NMul(NOf(k), NFact(k - 1))

----------------------------------------------------------------------------
\* integers as differences
IsZ(x) == Len(x) = 2 /\ IsN(x[1]) /\ IsN(x[2])
ZOf(k) == IF k >= 0 THEN <<NOf(k), <<>>>> ELSE <<<<>>, NOf(-k)>>
ZOfN(a) == <<a, <<>>>>
ZNorm(x) == IF NLe(x[2], x[1]) THEN <<NSub(x[1], x[2]), <<>>>> ELSE <<<<>>, NSub(x[2], x[1])>>
ZAdd(x, y) == ZNorm(<<NAdd(x[1], y[1]), NAdd(x[2], y[2])>>)
ZNeg(x) == <<x[2], x[1]>>
ZSub(x, y) == ZAdd(x, ZNeg(y))
ZMul(x, y) == ZNorm(<<NAdd(NMul(x[1], y[1]), NMul(x[2], y[2])),
                      NAdd(NMul(x[1], y[2]), NMul(x[2], y[1]))>>)
ZSign(x) == NCmp(x[1], x[2])
ZCmp(x, y) == NCmp(NAdd(x[1], y[2]), NAdd(y[1], x[2]))
ZEq(x, y) == ZCmp(x, y) = 0
ZAbsN(x) == LET y == ZNorm(x) IN IF Len(y[2]) = 0 THEN y[1] ELSE y[2]     \* |x| as a natural
ZSq(x) == ZMul(x, x)
RECURSIVE ZPow(_, _)
ZPow(x, e) == IF e = 0 THEN ZOf(1) ELSE ZMul(x, ZPow(x, e - 1))

----------------------------------------------------------------------------
\* rationals, never normalised
QOf(n, d) == <<ZOf(n), ZOf(d)>>            \* native n/d, d # 0
QOfR(r) == <<ZOf(r[1]), ZOf(r[2])>>        \* from a small rational <<n,d>>
QOne == QOf(1, 1)
QAdd(a, b) == <<ZAdd(ZMul(a[1], b[2]), ZMul(b[1], a[2])), ZMul(a[2], b[2])>>
QNeg(a) == <<ZNeg(a[1]), a[2]>>
QSub(a, b) == QAdd(a, QNeg(b))
QMul(a, b) == <<ZMul(a[1], b[1]), ZMul(a[2], b[2])>>
QDiv(a, b) == <<ZMul(a[1], b[2]), ZMul(a[2], b[1])>>          \* b # 0
QSq(a) == QMul(a, a)
QSign(a) == ZSign(a[1]) * ZSign(a[2])
QEq(a, b) == ZEq(ZMul(a[1], b[2]), ZMul(b[1], a[2]))
QCmp(a, b) == ZCmp(ZMul(ZMul(a[1], b[2]), ZMul(a[2], b[2])), ZMul(ZMul(b[1], a[2]), ZMul(a[2], b[2])))
QLt(a, b) == QCmp(a, b) < 0
QAbs(a) == IF QSign(a) < 0 THEN QNeg(a) ELSE a
QDefined(a) == ZSign(a[2]) # 0

----------------------------------------------------------------------------
(* Observations: a real number logged as round(x * 10^12), a Z.  Scale is    *)
(* B^4.  Bracket(v, sq, tol): does the non-negative observation v agree with  *)
(* the positive square root of the non-negative rational sq, i.e.             *)
(*    (v - tol)^2 <= sq * 10^24 <= (v + tol)^2         (tol in units of 1e-12) *)
ScaleLimbs == 4
Bracket(v, sq, tol) ==
  LET a  == ZAbsN(v)
      n  == ZAbsN(sq[1])
      d  == ZAbsN(sq[2])
      lo == NMonus(a, NOf(tol))
      hi == NAdd(a, NOf(tol))
      t  == NShift(n, 2 * ScaleLimbs)
  IN /\ NLe(NMul(NMul(lo, lo), d), t)
     /\ NLe(t, NMul(NMul(hi, hi), d))
Near(v, w, tol) == NLe(ZAbsN(ZSub(v, w)), NOf(tol))      \* |v - w| <= tol units
Small(v, tol) == NLe(ZAbsN(v), NOf(tol))
=============================================================================
