--------------------------- MODULE Trace_Reaction ---------------------------
(***************************************************************************)
(* The reaction-level operators of ampform.helicity.decay as total          *)
(* functions on a list of abstract transitions (code -> specification;      *)
(* reported under C02, which relies on the coherent / incoherent grouping). *)
(*                                                                         *)
(* One record per reaction:                                                 *)
(*   trs          abstract transitions (vf/ampl.py), in reaction order      *)
(*   spin_groups  group_by_spin_projection: groups as lists of 1-based      *)
(*                transition indices, in the order returned                 *)
(*                (expected: classes of "which id carries which projection")*)
(*   topo_groups  group_by_topology: the same, in dictionary order          *)
(*   outer        get_outer_state_ids(reaction)                             *)
(*   prefactors   get_prefactor(transition), per transition                 *)
(*   helinfo      get_helicity_info(transition, node) for every node:       *)
(*                [tr, parent set, in: <<part, hel2>>, out: two such pairs]  *)
(*   sorted       get_sorted_states(transition, all edge ids): names         *)
(*                                                                         *)
(* Expected values are computed from `trs` alone.                           *)
(***************************************************************************)
EXTENDS Amplitude, Json, IOUtils

Log == ndJsonDeserialize(IOEnv.TRACE_FILE)
VARIABLE l
Rec == Log[l]
Clause(name, ok, info) == IF ok THEN TRUE ELSE PrintT(<<"REJECT", name, Rec.id, info>>)
Stat(name, n) == PrintT(<<"STAT", name, n>>)

N == Len(Rec.trs)
Tr(i) == Rec.trs[i]
\* outer edges: the root edge and the leaves
OuterIx(tr) == { i \in DOMAIN tr.edges : ToSet(tr.edges[i].set) = Leaves(tr) \/ Len(tr.edges[i].set) = 1 }
IsInitial(tr, i) == ToSet(tr.edges[i].set) = Leaves(tr) /\ Cardinality(Leaves(tr)) > 1
\* the coherence key: which particle (id) carries which projection, for the initial and the final states.  Transitions
\* with the same key describe the same final state and interfere; transitions that give two identical particles
\* exchanged projections describe different final states.  (ampform keys by the *sorted list* of (name, projection),
\* which is the same partition unless identical particles with spin carry unequal projections - known finding of C02.)
OuterSeq(tr, ix) == LET ids == SortedSeq({ tr.edges[i].eid : i \in ix })
                        E(e) == CHOOSE i \in ix : tr.edges[i].eid = e IN
                    [ n \in DOMAIN ids |-> <<ids[n], tr.edges[E(ids[n])].part, tr.edges[E(ids[n])].hel2>> ]
SpinKey(tr) == << OuterSeq(tr, { i \in OuterIx(tr) : IsInitial(tr, i) }),
                  OuterSeq(tr, { i \in OuterIx(tr) : ~ IsInitial(tr, i) }) >>
\* a topology object: the tree together with the numbering of its edges
TopoKey(tr) == { <<tr.edges[i].eid, ToSet(tr.edges[i].set)>> : i \in DOMAIN tr.edges }

\* groups (a sequence of sequences of indices) are the classes of Key, in order of first appearance,
\* members in reaction order
First(g) == g[1]
IsPartitionBy(groups, Key(_)) ==
  /\ \A g \in DOMAIN groups : Len(groups[g]) > 0
  /\ \A i \in 1..N : Cardinality({ g \in DOMAIN groups : \E k \in DOMAIN groups[g] : groups[g][k] = i }) = 1
  /\ \A g \in DOMAIN groups : \A k \in DOMAIN groups[g] : groups[g][k] \in 1..N
  /\ \A g \in DOMAIN groups : \A k \in DOMAIN groups[g] : Key(Tr(groups[g][k])) = Key(Tr(groups[g][1]))
  /\ \A g, h \in DOMAIN groups : g # h => Key(Tr(groups[g][1])) # Key(Tr(groups[h][1]))
InOrder(groups) ==
  /\ \A g \in DOMAIN groups : \A k \in DOMAIN groups[g] : k > 1 => groups[g][k - 1] < groups[g][k]
  /\ \A g \in DOMAIN groups : g > 1 => First(groups[g - 1]) < First(groups[g])

RECURSIVE ProdNonZero(_, _)
ProdNonZero(tr, i) == IF i > Len(tr.nodes) THEN 1
                      ELSE (IF tr.nodes[i].eta = 0 THEN 1 ELSE tr.nodes[i].eta) * ProdNonZero(tr, i + 1)

InitialEid(tr) == tr.edges[EdgeIx(tr, Leaves(tr))].eid
FinalEids(tr) == { tr.edges[i].eid : i \in { j \in DOMAIN tr.edges : Len(tr.edges[j].set) = 1 /\ ~ IsInitial(tr, j) } }

StateOf(tr, S) == <<Part(tr, S), Hel2(tr, S)>>
HelInfoOk(h) ==
  LET tr == Tr(h.tr)  S == ToSet(h.parent)  T == TreeOf(tr)
      kids == Kids(T, S)
      a == CHOOSE c \in kids : TRUE
      b == CHOOSE c \in kids : c # a IN
  /\ h.inn = StateOf(tr, S)
  /\ SeqBag(<<h.out[1], h.out[2]>>) = SeqBag(<<StateOf(tr, a), StateOf(tr, b)>>)

Step ==
  /\ l <= Len(Log)
  /\ Clause("spin-projection-groups-are-the-classes-of-the-outer-states", IsPartitionBy(Rec.spin_groups, SpinKey), Rec.spin_groups)
  /\ Clause("spin-projection-groups-in-order-of-appearance", InOrder(Rec.spin_groups), Rec.spin_groups)
  /\ Clause("topology-groups-are-the-classes-of-the-topology-object", IsPartitionBy(Rec.topo_groups, TopoKey), Rec.topo_groups)
  /\ Clause("topology-groups-in-order-of-appearance", InOrder(Rec.topo_groups), Rec.topo_groups)
  /\ Clause("outer-state-ids-initial-then-sorted-final",
            Rec.outer = <<InitialEid(Tr(1))>> \o SortedSeq(FinalEids(Tr(1))), Rec.outer)
  /\ \A i \in 1..N : Clause("prefactor-is-product-of-given-parity-prefactors", Rec.prefactors[i] = ProdNonZero(Tr(i), 1), <<i, Rec.prefactors[i]>>)
  /\ \A k \in DOMAIN Rec.helinfo : Clause("helicity-info-of-a-node", HelInfoOk(Rec.helinfo[k]), Rec.helinfo[k])
  /\ \A k \in DOMAIN Rec.sorted : Clause("sorted-states-by-particle-name",
        /\ SeqBag(Rec.sorted[k].names) = SeqBag([ i \in DOMAIN Tr(Rec.sorted[k].tr).edges |-> Tr(Rec.sorted[k].tr).edges[i].part ])
        /\ Rec.sorted[k].nondecreasing = 1, Rec.sorted[k])
  /\ Stat("spin-groups", Len(Rec.spin_groups)) /\ Stat("coherent-groups-with-several-members", Cardinality({ g \in DOMAIN Rec.spin_groups : Len(Rec.spin_groups[g]) > 1 }))
  /\ Stat("topology-groups", Len(Rec.topo_groups))
  /\ l' = l + 1
TraceInit == l = 1
TraceSpec == TraceInit /\ [][Step]_l
TraceAccepted == TLCGet("stats").diameter = Len(Log) + 1
=============================================================================
