"""Observation layer shared by C04 and C05: build (reaction, alignment) models in worker
processes, evaluate them on generated events (and rotated events), extract summation pools."""
from __future__ import annotations

import logging
import re
import zlib
from fractions import Fraction as F

import numpy as np
import sympy as sp

from . import ampl, numeric, topo


def outer_states(reaction) -> list[dict]:
    t0 = reaction.transitions[0]
    ids = list(t0.topology.incoming_edge_ids) + sorted(t0.topology.outgoing_edge_ids)
    out = []
    for i in ids:
        p = t0.states[i].particle
        hels = sorted({int(2 * F(t.states[i].spin_projection)) for t in reaction.transitions})
        out.append({"id": i, "spin2": int(2 * F(p.spin)), "massless": int(p.mass == 0), "hels": hels})
    return out


def n_topologies(reaction) -> int:
    return len({t.topology for t in reaction.transitions})


def coupling_values(model, seed):
    out = {}
    for k in model.parameter_defaults:
        if k.name.startswith(("C_", "H_")):
            r = np.random.default_rng(zlib.crc32(k.name.encode()) + seed)
            out[k] = complex(r.uniform(0.4, 1.6) * np.exp(1j * r.uniform(0, 2 * np.pi)))
    return out


def load(spec):
    kind = spec[0]
    if kind == "real":
        return ampl.real_reaction(spec[1], spec[2])
    if kind == "synth":
        return ampl.make_reaction(spec[1])
    raise ValueError(kind)


def configure_alignment(reaction, alignment):
    """-> (reaction to use, id offset, builder)"""
    import ampform
    from ampform.helicity.align.axisangle import AxisAngleAlignment
    from ampform.helicity.align.dpd import DalitzPlotDecomposition, relabel_edge_ids

    off = 0
    dynamics = alignment.endswith("+ff")   # "<alignment>+ff": form factor on the production node, Breit-Wigner with form factor on the resonances
    alignment = alignment.removesuffix("+ff")
    if alignment.startswith("dpd") or alignment == "relabel":
        reaction = relabel_edge_ids(reaction)
        off = 1
    b = ampform.get_builder(reaction)
    if alignment == "axis":
        b.config.spin_alignment = AxisAngleAlignment()
    elif alignment.startswith("dpd"):
        b.config.spin_alignment = DalitzPlotDecomposition(int(alignment[3]))
    if dynamics:
        from ampform.dynamics.builder import create_non_dynamic_with_ff, create_relativistic_breit_wigner_with_ff

        t0 = reaction.transitions[0]
        init = t0.states[next(iter(t0.topology.incoming_edge_ids))].particle.name
        b.dynamics.assign(init, create_non_dynamic_with_ff)
        for name in sorted({t.states[i].particle.name for t in reaction.transitions for i in t.topology.intermediate_edge_ids}):
            b.dynamics.assign(name, create_relativistic_breit_wigner_with_ff)
    return reaction, off, b


def pools_of(model, reaction, off) -> list[dict]:
    from ampform.sympy import PoolSum

    outer = {o["id"]: o for o in outer_states(reaction)}
    order = [o["id"] for o in outer_states(reaction)]
    init = order[0]
    out = []

    def state_of(name):
        if name == "m_A":
            return init
        m = re.fullmatch(r"m(\d+)", name)
        if m:
            return int(m.group(1))
        m = re.fullmatch(r"\\lambda_(\d)\^", name)
        if m:
            return order[int(m.group(1))]
        m = re.fullmatch(r"[a-z]+_(-?\d+)\^.*", name)
        if m:
            return int(m.group(1))
        return None

    def walk(e):
        if isinstance(e, PoolSum):
            for idx, vals in e.indices:
                sid = state_of(idx.name)
                if sid is None or sid not in outer:
                    out.append({"index": idx.name, "spin2": -1, "massless": 0, "vals": [int(2 * sp.Rational(v)) for v in vals]})
                else:
                    out.append({"index": idx.name, "spin2": outer[sid]["spin2"], "massless": outer[sid]["massless"], "vals": [int(2 * sp.Rational(v)) for v in vals]})
        for a in e.args:
            walk(a)

    walk(model.intensity)
    # every rotation factor D^j / d^j must carry the spin of the state whose projections it mixes
    from sympy.physics.quantum.spin import WignerD

    for w in model.intensity.atoms(WignerD):
        j = w.args[0]
        sids = {state_of(x.name) for a in w.args[1:3] for x in a.free_symbols}
        sids.discard(None)
        for sid in sids:
            if sid in outer:
                out.append({"index": f"rotation:{w.args[1]},{w.args[2]}", "spin2": outer[sid]["spin2"], "massless": -1, "vals": [int(2 * sp.Rational(j))]})
    return out


def index_links(model) -> list[dict]:
    """For every summation index of the aligned amplitude: in how many factors of a term it occurs.  The aligned amplitude is a
    product of rotation matrices contracted with the amplitude symbol - a chain - so every index links exactly two factors."""
    from ampform.sympy import PoolSum
    from sympy.physics.quantum.spin import WignerD

    out = []
    for p in (x for x in sp.preorder_traversal(model.intensity.expression) if isinstance(x, PoolSum)):
        idx = [i for i, _ in p.indices]
        nvals = {i: len(v) for i, v in p.indices}
        worst, angle = {}, {}
        for term in sp.Add.make_args(p.expression):
            facs = sp.Mul.make_args(term)
            for i in idx:
                n = sum(1 for f in facs if f.has(i))
                if n:
                    lo, hi = worst.get(i, (n, n))
                    worst[i] = (min(lo, n), max(hi, n))
                # an index is a spin projection: a row or column label of a rotation matrix, never one of its angles
                for f in facs:
                    for w in f.atoms(WignerD):
                        if any(a_.has(i) for a_ in w.args[3:]):
                            angle[i] = angle.get(i, 0) + 1
        for i in idx:
            lo, hi = worst.get(i, (0, 0))
            out.append({"index": str(i), "min_uses": lo, "max_uses": hi, "n_values": nvals[i], "as_angle": angle.get(i, 0)})
        break
    return out


def _job(args):
    """Worker: build one model and evaluate it on events and rotated events."""
    spec, alignment, events, rotations, seed, want_pools = args
    logging.disable(logging.CRITICAL)
    try:
        reaction0 = load(spec)
        reaction, off, b = configure_alignment(reaction0, alignment)
        try:
            model = b.formulate()
        except Exception as ex:  # noqa: BLE001
            return {"ok": 0, "error": f"{type(ex).__name__}: {str(ex)[:200]}"}
        res = {"ok": 1, "error": ""}
        if want_pools:
            res["pools"] = pools_of(model, reaction, off)
            res["links"] = index_links(model)
        if events is not None:
            ev = numeric.ModelEvaluator(model, coupling_values(model, seed))
            P = {i + off: np.asarray(p) for i, p in events.items()}
            res["I"] = ev(P).tolist()
            res["Irot"] = [ev(numeric.rotate(P, np.asarray(R))).tolist() for R in rotations]
        return res
    except Exception as ex:  # noqa: BLE001
        import traceback

        return {"ok": -1, "error": f"{type(ex).__name__}: {ex}\n{traceback.format_exc()[-1500:]}"}


def _wigner_d_small(j2, m2, mp2, theta):
    """d^j_{m,m'}(theta) by Wigner's explicit sum, doubled arguments (independent of sympy)."""
    from math import factorial

    def f(x2):
        return factorial(x2 // 2)

    if abs(m2) > j2 or abs(mp2) > j2:
        return 0.0 * theta
    tot = 0.0
    for s_ in range(0, j2 + 1):
        a2, c2, d2 = j2 + mp2 - 2 * s_, m2 - mp2 + 2 * s_, j2 - m2 - 2 * s_
        if a2 < 0 or c2 < 0 or d2 < 0:
            continue
        sign = -1 if ((m2 - mp2) // 2 + s_) % 2 else 1
        tot = tot + sign * np.cos(theta / 2) ** ((2 * j2 + mp2 - m2 - 4 * s_) // 2) * np.sin(theta / 2) ** ((m2 - mp2 + 4 * s_) // 2) / (f(a2) * factorial(s_) * f(c2) * f(d2))
    return np.sqrt(f(j2 + m2) * f(j2 - m2) * f(j2 + mp2) * f(j2 - mp2)) * tot


def _dpd_job(args):
    """Worker: the DPD-aligned model's intensity against the Dalitz-plot-decomposition formula assembled independently from the model's
    own per-topology amplitudes A^k[lambda'], the zeta angles zeta^i_{k(ref)} (formulate_zeta_angle, whose geometry C19 checks) evaluated
    from the event masses, and an independent Wigner small-d:
        A[l0..l3] = sum_k sum_l'  A^k[l']  d^{j0}_{l0,l0'}(zeta^0_{k(ref)})  prod_i d^{ji}_{li',li}(zeta^i_{k(ref)}),   I = sum_l |A[l]|^2 ."""
    spec, ref, events, seed = args
    logging.disable(logging.CRITICAL)
    import itertools

    try:
        from ampform.kinematics.angles import formulate_theta_hat_angle, formulate_zeta_angle
        from ampform.sympy import PoolSum

        reaction0 = load(spec)
        reaction, off, b = configure_alignment(reaction0, f"dpd{ref}")
        model = b.formulate()
        ev = numeric.ModelEvaluator(model, coupling_values(model, seed))
        P = {i + off: np.asarray(p) for i, p in events.items()}
        n = len(next(iter(P.values())))
        I_model = ev(P)
        kv = ev.kinematics(P)
        amp = {}
        with np.errstate(all="ignore"):
            for a, (fs, f) in ev.amps.items():
                amp[(str(a.base), tuple(int(2 * sp.Rational(x)) for x in a.indices))] = np.broadcast_to(np.asarray(f(*[kv[s_] for s_ in fs]), dtype=complex), (n,))

        def M(*ids):
            q = sum(P[i] for i in ids)
            return np.sqrt(np.maximum(q[:, 0] ** 2 - (q[:, 1:] ** 2).sum(1), 0))

        mass = {"m_0": M(1, 2, 3), "m_1": M(1), "m_2": M(2), "m_3": M(3), "m_12": M(1, 2), "m_13": M(1, 3), "m_23": M(2, 3)}
        outer = outer_states(reaction)
        j2 = [o["spin2"] for o in outer]
        # pools: outer indices of the intensity, inner (primed) indices of the aligned amplitude
        top = model.intensity
        outer_pools = {str(i): [int(2 * sp.Rational(v)) for v in vals] for i, vals in top.indices}
        inner = next(x for x in sp.preorder_traversal(top.expression) if isinstance(x, PoolSum))
        inner_pools = {str(i): [int(2 * sp.Rational(v)) for v in vals] for i, vals in inner.indices}
        bases = sorted({k[0] for k in amp})
        zeta = {}
        for base in bases:
            sub = {int(c) for c in re.sub(r"[^0-9]", "", base)}
            (k,) = {1, 2, 3} - sub
            for i in range(4):
                # the parent's angle is, by its definition in the decomposition, theta-hat_{k(ref)} (whose orientation C19 checks);
                # taken from formulate_theta_hat_angle, not from formulate_zeta_angle(0, ...), which is what is under test here
                _, expr = formulate_theta_hat_angle(k, ref) if i == 0 else formulate_zeta_angle(i, k, ref)
                e = expr.doit()
                syms = sorted(e.free_symbols, key=str)
                fz = sp.lambdify(syms, e, "numpy")
                with np.errstate(all="ignore"):
                    zeta[(base, i)] = np.broadcast_to(np.asarray(fz(*[mass[str(s_)] for s_ in syms]), dtype=float), (n,))
        lam_out = [outer_pools.get(f"m{i}", [0]) if j2[i] else [0] for i in range(4)]
        lam_in = [inner_pools.get("\\lambda_%d^" % i, [0]) for i in range(4)]
        I_indep = np.zeros(n)
        for lo in itertools.product(*lam_out):
            A = np.zeros(n, dtype=complex)
            for base in bases:
                for li in itertools.product(*lam_in):
                    a = amp.get((base, tuple(li)))
                    if a is None:
                        continue
                    term = a
                    if j2[0]:
                        term = term * _wigner_d_small(j2[0], lo[0], li[0], zeta[(base, 0)])
                    elif lo[0] != li[0]:
                        continue
                    skip = False
                    for i in (1, 2, 3):
                        if j2[i]:
                            term = term * _wigner_d_small(j2[i], li[i], lo[i], zeta[(base, i)])
                        elif lo[i] != li[i]:
                            skip = True
                    if not skip:
                        A = A + term
            I_indep = I_indep + np.abs(A) ** 2
        return {"ok": 1, "error": "", "I": np.asarray(I_model).tolist(), "I_formula": I_indep.tolist(), "topologies": len(bases),
                "outer_pools": outer_pools, "inner_pools": inner_pools}
    except Exception as ex:  # noqa: BLE001
        import traceback

        return {"ok": -1, "error": f"{type(ex).__name__}: {ex}\n{traceback.format_exc()[-1500:]}"}


def _pure_boost(q):
    """(n,4,4): the pure boost into the rest frame of q (n,4)"""
    n = len(q)
    E = q[:, 0]
    m = np.sqrt(np.maximum(E**2 - (q[:, 1:] ** 2).sum(1), 0))
    g = E / m
    b = q[:, 1:] / E[:, None]
    b2 = (b**2).sum(1)
    L = np.zeros((n, 4, 4))
    L[:, 0, 0] = g
    L[:, 0, 1:] = -g[:, None] * b
    L[:, 1:, 0] = -g[:, None] * b
    k = np.where(b2 > 0, (g - 1) / np.where(b2 > 0, b2, 1), 0)
    L[:, 1:, 1:] = np.eye(3)[None] + k[:, None, None] * b[:, :, None] * b[:, None, :]
    return L


def _wigner_job(args):
    """Worker: the Wigner angles alpha, beta, gamma of an axis-angle aligned model against their meaning: R_z(alpha) R_y(beta) R_z(gamma)
    is the rotation (L_n ... L_1) L_direct^-1, with L_1 ... L_n the successive pure boosts into the rest frames of the particle's ancestors
    (outermost first) and of the particle itself, and L_direct the pure boost from the initial-state rest frame straight into the particle's
    rest frame (Marangotto 2019, eq. 36 and B.2-4), computed here with numpy from the four-momenta."""
    spec, events, seed = args
    logging.disable(logging.CRITICAL)
    try:
        reaction0 = load(spec)
        reaction, off, b = configure_alignment(reaction0, "axis")
        model = b.formulate()
        ev = numeric.ModelEvaluator(model, coupling_values(model, seed))
        P = {i + off: np.asarray(p) for i, p in events.items()}
        n = len(next(iter(P.values())))
        kv = {str(k): v for k, v in ev.kinematics(P).items()}
        out = []
        for name in sorted(kv):
            if not name.startswith("alpha"):
                continue
            suffix = name[len("alpha"):]
            if "beta" + suffix not in kv or "gamma" + suffix not in kv:
                out.append({"suffix": suffix, "diff": 9.0, "note": "beta/gamma missing"})
                continue
            sets = topo.parse_name("x" + suffix)[1]
            (i,) = sets[0]
            systems = [tuple(S) for S in reversed(sets[1:])] + [(i,)]
            if float(np.min(np.abs(P[i][:, 0] ** 2 - (P[i][:, 1:] ** 2).sum(1)))) < 1e-12:
                out.append({"suffix": suffix, "diff": -1.0, "note": "massless particle: no rest frame"})
                continue
            cur = {k: v.copy() for k, v in P.items()}
            L = np.broadcast_to(np.eye(4), (n, 4, 4)).copy()
            for Q in systems:
                q = sum(cur[k] for k in Q)
                LQ = _pure_boost(q)
                cur = {k: np.einsum("nij,nj->ni", LQ, v) for k, v in cur.items()}
                L = np.einsum("nij,njk->nik", LQ, L)
            pd = P[i].copy()
            Ld_inv = _pure_boost(np.column_stack([pd[:, 0], -pd[:, 1:]]))
            R = np.einsum("nij,njk->nik", L, Ld_inv)
            sanity = float(np.max(np.abs(R[:, 0, 0] - 1)) + np.max(np.abs(R[:, 0, 1:])) + np.max(np.abs(R[:, 1:, 0])))
            a, bb, c = (np.broadcast_to(np.asarray(kv[x + suffix], dtype=float), (n,)) for x in ("alpha", "beta", "gamma"))
            ca, sa, cb, sb, cc, sc = np.cos(a), np.sin(a), np.cos(bb), np.sin(bb), np.cos(c), np.sin(c)
            E = np.empty((n, 3, 3))
            E[:, 0, 0], E[:, 0, 1], E[:, 0, 2] = ca * cb * cc - sa * sc, -ca * cb * sc - sa * cc, ca * sb
            E[:, 1, 0], E[:, 1, 1], E[:, 1, 2] = sa * cb * cc + ca * sc, -sa * cb * sc + ca * cc, sa * sb
            E[:, 2, 0], E[:, 2, 1], E[:, 2, 2] = -sb * cc, sb * sc, cb
            d = float(np.nanmax(np.abs(E - R[:, 1:, 1:])))
            out.append({"suffix": suffix, "diff": d if np.isfinite(d) else 9.0, "sanity": sanity, "note": ""})
        return {"ok": 1, "error": "", "angles": out}
    except Exception as ex:  # noqa: BLE001
        import traceback

        return {"ok": -1, "error": f"{type(ex).__name__}: {ex}\n{traceback.format_exc()[-1500:]}"}


def run_jobs(jobs, workers=12, job_timeout=150, fn=None):
    """Run _job for every entry in forked workers, at most `workers` at a time; a job that exceeds
    job_timeout seconds is killed and reported as {"ok": -2} (too expensive, not a verdict)."""
    import json
    import os
    import select
    import signal
    import time

    results = [None] * len(jobs)
    pending = list(range(len(jobs)))
    running = {}  # fd -> (idx, pid, start, buffer)
    while pending or running:
        while pending and len(running) < workers:
            i = pending.pop(0)
            r, w = os.pipe()
            pid = os.fork()
            if pid == 0:
                try:
                    os.close(r)
                    out = (fn or _job)(jobs[i])
                    with os.fdopen(w, "w") as f:
                        json.dump(out, f)
                finally:
                    os._exit(0)
            os.close(w)
            running[r] = [i, pid, time.time(), b""]
        ready, _, _ = select.select(list(running), [], [], 1.0)
        for fd in ready:
            chunk = os.read(fd, 1 << 20)
            if chunk:
                running[fd][3] += chunk
                continue
            i, pid, _, buf = running.pop(fd)
            os.close(fd)
            os.waitpid(pid, 0)
            try:
                results[i] = json.loads(buf.decode()) if buf else {"ok": -1, "error": "worker died without a result"}
            except ValueError:
                results[i] = {"ok": -1, "error": "worker result unreadable"}
        now = time.time()
        for fd in list(running):
            i, pid, start, _ = running[fd]
            if now - start > job_timeout:
                try:
                    os.kill(pid, signal.SIGKILL)
                except ProcessLookupError:
                    pass
                os.waitpid(pid, 0)
                os.close(fd)
                running.pop(fd)
                results[i] = {"ok": -2, "error": f"timeout after {job_timeout}s"}
    return results


def events_for(reaction, n, rng, near_threshold=False):
    t = reaction.transitions[0].topology
    tree = topo.tree_of(t)
    masses = {i: reaction.final_state[i].mass for i in reaction.final_state}
    M = next(iter(reaction.initial_state.values())).mass
    if M <= sum(masses.values()):
        M = sum(masses.values()) + 1.0
    P = numeric.gen_events(tree, masses, M, n, rng, near_threshold=near_threshold)
    return {i: p.tolist() for i, p in P.items()}


def reldiff_q(a, b):
    a, b = np.asarray(a, float), np.asarray(b, float)
    if not (np.all(np.isfinite(a)) and np.all(np.isfinite(b))):
        return 0, 1
    scale = np.maximum(np.abs(a), np.abs(b))
    scale = np.where(scale > 0, scale, 1.0)
    d = float(np.max(np.abs(a - b) / scale))
    return int(min(round(d * 1e9), 2_000_000_000)), 0
